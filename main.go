package main

import (
	"fmt"
	"os"
	"strings"

	"github.com/dgraph-io/badger"
	"github.com/jirenius/go-res/store/badgerstore"
)

// P: both methods on the pointer (the usual way to write them)
type P struct{ U string }

func (p *P) MarshalBinary() ([]byte, error) { return []byte("bin:" + p.U), nil }
func (p *P) UnmarshalBinary(b []byte) error { p.U = strings.TrimPrefix(string(b), "bin:"); return nil }

func main() {
	dir, _ := os.MkdirTemp("", "probe")
	defer os.RemoveAll(dir)
	db, err := badger.Open(badger.DefaultOptions(dir).WithLogger(nil))
	if err != nil {
		panic(err)
	}
	defer db.Close()
	st := badgerstore.NewStore(db).SetType(&P{})
	wt := st.Write("a")
	fmt.Println("create:", wt.Create(&P{U: "x"}))
	func() {
		defer func() { fmt.Println("recovered:", recover()) }()
		v, err := wt.Value()
		fmt.Printf("value: %#v %v\n", v, err)
	}()
	wt.Close()
}
