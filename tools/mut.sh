#!/bin/bash
# tools/mut.sh "<desc>" <file-in-repo> '<old>' '<new>' <check>...
# Applies a one-off textual mutation to /repo, runs the quick checks, reverts.
desc="$1"; file="$2"; old="$3"; new="$4"; shift 4
cd /repo || exit 2
python3 - "$file" "$old" "$new" <<'PY' || exit 2
import sys
f,old,new=sys.argv[1:4]
s=open(f).read()
assert s.count(old)>=1,(f,old)
open(f,'w').write(s.replace(old,new,1))
PY
echo "=== MUT: $desc"
(cd /repo && GOFLAGS=-mod=mod GOPROXY=off GOSUMDB=off go build ./... ) || echo "MUTANT DOES NOT BUILD"
for chk in "$@"; do (cd /verif && ./check $chk quick 2>&1 | grep -E "^VIOLATION|signature|SUMMARY|INCONCLUSIVE|UNDECIDED" | head -${MUT_LINES:-5}); done
git -C /repo checkout -- .
