#!/bin/bash
# tools/coverage.sh [tier] - statement coverage of the go-res packages reached by the checks.
# Builds coverage-instrumented monitors in a scratch copy of /verif (outside /verif and /repo),
# runs every check at the given tier (default quick) and prints per-package percentages and the
# go-res functions below 70% - "what the workloads never drive". Diagnostic only: no verdicts.
set -u
tier="${1:-quick}"
S=$(mktemp -d /tmp/vcov.XXXXXX)
trap 'rm -rf "$S"' EXIT
rsync -a --exclude logs --exclude evidence --exclude bin --exclude .git "$(dirname "$0")/../" "$S/"
export GOFLAGS=-mod=mod GOPROXY=off GOSUMDB=off GOTOOLCHAIN=local CGO_ENABLED=1
mkdir -p "$S/bin" "$S/evidence" "$S/cov"
CP=verif/harness/cmd/rvmon,github.com/jirenius/go-res/...
(cd "$S/harness" && go build -cover -coverpkg=$CP -tags verif -o ../bin/rvmon ./cmd/rvmon &&
 go build -race -cover -coverpkg=$CP -tags verif -o ../bin/rvmon-race ./cmd/rvmon) || exit 3
export VERIF_ROOT="$S" GOCOVERDIR="$S/cov"
for i in $(seq -w 1 20); do
  (cd "$S" && bin/rvmon run C$i "$tier" >"$S/out_C$i.txt" 2>&1); echo "C$i rc=$?"
done
cd "$S/harness"
go tool covdata percent -i=../cov 2>&1 | grep jirenius
go tool covdata func -i=../cov 2>&1 | grep jirenius | awk '{print $NF, $1, $2}' | sort -n | awk '$1+0 < 70'
