#!/bin/bash
# tools/seedtest.sh <seed-id> <property> <agent-worktree> [checks...]
# Confirms an independently written breaking change and runs the checks against it:
#  1. in a fresh scratch worktree of /repo: apply patch, build, run the full pinned suite (must pass),
#     run the demo (must FAIL); without the patch the demo must PASS;
#  2. apply the patch to /repo, run the quick checks, undo it (git checkout -- .).
# Writes /verif/seeded/<seed-id>/{patch.diff,demo_test.go,notes.md,meta.json}.
set -u
id="$1"; prop="$2"; wt="$3"; shift 3
checks="${*:-$prop}"
export GOFLAGS=-mod=mod GOPROXY=off GOSUMDB=off GOTOOLCHAIN=local
out=/verif/seeded/$id; mkdir -p "$out"
cp "$wt/seed/patch.diff" "$out/patch.diff" || { echo "no patch"; exit 2; }
cp "$wt/seed/demo_test.go" "$out/demo_test.go" 2>/dev/null || cp "$wt/seeddemo/demo_test.go" "$out/demo_test.go" || { echo "no demo"; exit 2; }
cp "$wt/seed/notes.md" "$out/notes.md" 2>/dev/null
v=/tmp/wt/verify-$id
git -C /repo worktree remove --force "$v" 2>/dev/null
git -C /repo worktree add -q "$v" HEAD || exit 2
mkdir -p "$v/seeddemo"; cp "$out/demo_test.go" "$v/seeddemo/demo_test.go"
demoflags=""; grep -qi "\-race" "$out/notes.md" 2>/dev/null && demoflags="-race"
run_demo() { (cd "$v" && timeout 900 go test $demoflags -vet=off -count=1 ./seeddemo/ >"$1" 2>&1); echo $?; }
demo_without=$(run_demo "$out/demo_without.log")
(cd "$v" && git apply --whitespace=nowarn "$out/patch.diff") || { echo "PATCH DOES NOT APPLY"; git -C /repo worktree remove --force "$v"; exit 2; }
(cd "$v" && go build ./... >"$out/build.log" 2>&1); build=$?
(cd "$v" && go test -vet=off -count=1 $(go list ./... | grep -v seeddemo) >"$out/suite.log" 2>&1); suite=$?
# the suite uses a fixed NATS port: a collision with a suite running elsewhere is transient
for try in 1 2 3; do
  if [ $suite -ne 0 ] && grep -q "Unable to start NATS Server" "$out/suite.log"; then
    sleep 5; (cd "$v" && go test -vet=off -count=1 $(go list ./... | grep -v seeddemo) >"$out/suite.log" 2>&1); suite=$?
  fi
done
demo_with=$(run_demo "$out/demo_with.log")
git -C /repo worktree remove --force "$v"
echo "seed=$id build=$build suite=$suite demo_without=$demo_without demo_with=$demo_with"
# run the checks against it
(cd /repo && git apply --whitespace=nowarn "$out/patch.diff") || { echo "PATCH DOES NOT APPLY TO /repo"; exit 2; }
res=""
for c in $checks; do
  o=$(cd /verif && timeout 1500 ./check $c quick 2>&1); rc=$?
  sigs=$(echo "$o" | grep -E "signature:" | sed 's/.*signature: //' | head -3 | tr '\n' ';')
  echo "  check=$c exit=$rc $sigs"
  res="$res{\"check\":\"$c\",\"exit\":$rc,\"signatures\":\"$(echo $sigs | sed 's/"/\\"/g' | cut -c1-300)\"},"
done
git -C /repo checkout -- . ; git -C /repo status --short | head -3
python3 - "$id" "$prop" "$build" "$suite" "$demo_without" "$demo_with" "[${res%,}]" <<'PY'
import json,sys
id,prop,build,suite,dwo,dw,res=sys.argv[1:8]
meta={"id":id,"breaks_property":prop,"confirmed":{"build_with_change":int(build)==0,"pinned_suite_passes_with_change":int(suite)==0,"demo_passes_without_change":int(dwo)==0,"demo_fails_with_change":int(dw)!=0},
 "checks_run_against_it":json.loads(res),
 "what_was_run":"tools/seedtest.sh: fresh scratch worktree of /repo HEAD (removed afterwards): demo without patch, git apply patch, go build ./..., full suite, demo with patch; then git -C /repo apply, ./check <id> quick, git -C /repo checkout -- ."}
p='/verif/seeded/%s/meta.json'%id
try:
    old=json.load(open(p)); meta["needs_to_manifest"]=old.get("needs_to_manifest",""); meta["summary"]=old.get("summary","")
except Exception: pass
json.dump(meta,open(p,'w'),indent=1)
PY
rm -f "$out/build.log"
