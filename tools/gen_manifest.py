#!/usr/bin/env python3
"""Regenerates /verif/MANIFEST.json from the table below (kept in one place so
that it stays valid at all times)."""
import json, os, subprocess
ROOT = os.path.dirname(os.path.dirname(os.path.abspath(__file__)))

def hook_commits():
    try:
        out = subprocess.check_output(["git", "-C", "/repo", "log", "--format=%H %s"], text=True)
        return [l.split()[0] for l in out.splitlines() if l.split(" ", 1)[1].startswith("verif:")]
    except Exception:
        return []

CHECKS = {
 "C16": dict(
    category="exploration", design_ref="DESIGN.md §4 C16",
    technique="Go race detector (go build -race) over all concurrent workloads with seeded schedule perturbation; race log parsed, deduplicated and classified; per-group unsynchronised scratch memory as happens-before detector",
    text="Every batch runs under the Go race detector: the C01/C02 workload (4 worker/channel configurations), the C03 Shutdown stress, the C04 and C08 concurrent handler workloads, C11 store histories (badgerstore, mockstore), C13 queries racing with index maintenance, C14 service histories (events from index task goroutines), C15 query events on a real NATS connection, and a combined 'everything at once' program (requests on many resources, With*, Reset/Token*, a store writer on a foreign goroutine feeding store.Handler and store.QueryHandler, query events answered with query requests, index queries, MemLogger/StdLogger with tracing, Shutdown while running, restart). GORACE halt_on_error=0 with a log path; reports are parsed, deduplicated by the pair of innermost non-runtime frames and classified: access in a go-res frame or on the per-group scratch memory = violation, harness-only = inconclusive, dependency-only = note.",
    note="Client programs stay within the documented threading rules; one store writer goroutine in the combined program (a lost wake-up in the taskqueue dependency with two blocked producers is outside the property set, see DESIGN.md)."),
 "C20": dict(
    category="exploration", design_ref="DESIGN.md §4 C20",
    technique="reference fold of applied events compared with get responses, Value(), raw stored bytes, listener arguments and query collection results after every event; close/reopen comparison",
    text="Random sequences of 25 events (change with set/delete/no-op keys, add, remove, create, delete; applicable or not) on three resources of a real Service using middleware.BadgerDB and resbadger.Model/Collection (model/collection, with/without default) and a typed resbadger.Model with an index set and a query collection, over a real Badger database: after every event the get response and Value() must equal the reference fold over the initial/default value, listener OldValues / delete Data must equal the previous stored values, inapplicable events (index out of range, create on existing or with default, change/remove on missing without default) must publish nothing and leave the stored bytes identical, index listeners must be called exactly when the key changes and 7 query-collection queries (prefix, reverse, limit, offset) must equal a reference scan; finally the database is closed and reopened under a new service and compared again.",
    note="Delete on a missing resource is outside the statement and not asserted; values are JSON-stable Go values."),
 "C18": dict(
    category="exploration", design_ref="DESIGN.md §4 C18",
    technique="round-trip and differential monitors against encoding/json generic decoding; reference RES-value classifier; algebraic checks of Value.Equal; client-side parsing of responses recorded from a real service",
    text="Ref/SoftRef marshal -> generic decode -> unmarshal for every string of length <=3 over 9 hostile atoms (exhaustive) and random valid UTF-8 up to 4 KiB; MarshalDataValue/UnmarshalDataValue round trips on random JSON values (depth <=4) incl. wrapping shape and documented error cases; store.Value classification of every single member, every member pair and random member combinations with whitespace against a reference classifier; reflexivity/symmetry/transitivity of Equal and Equal => same semantic normal form on random triples; every reply kind of a real Service (result values, resource, every error kind, model/collection with query, access, new; with and without HTTP meta) parsed by resprot.ParseResponse must be exactly one of result/resource/error and decode to what the handler supplied.",
    note="encoding/json is the reference; objects with unknown extra members may be classified either way; only valid UTF-8 is round-tripped."),
 "C19": dict(
    category="exploration", design_ref="DESIGN.md §4 C19",
    technique="scripted connection playing timed schedules into the inbox + reference simulation of the deadline rule with margin/latency guards; subscription-count probe and end-to-end calls on an embedded NATS server",
    text="SendRequest is called against a scripted connection that plays random schedules of valid/unknown/malformed pre-responses, responses of 8 kinds and silences in units of 40 ms (deadlines fall on half units) and records the instants at which messages were offered; the returned Response, the extension callbacks and the return time are compared with a reference simulation; cases whose recorded instants or measured scheduling latency violated the 20 ms margin are discarded as inconclusive; a call that has not returned 5 s after the expected instant is a violation. Marshal/subscribe/publish failures must be reported as internal errors without waiting and without further connection calls. On an embedded NATS server the client's subscription count must return to its baseline after each of six return paths, and a real go-res service sending Timeout pre-responses is called end to end.",
    note="Timing verdicts only from cases that kept the margin; wall clock tolerance 15 ms early / 500 ms late (late = inconclusive)."),
 "C08": dict(
    category="exploration", design_ref="DESIGN.md §4 C08",
    technique="single global event log (apply handlers + recording connection + listeners, sequence number and goroutine id each) compared with the log computed from the script; contiguity checker for message blocks per group under concurrency",
    text="Scripts of 1-6 event calls (valid and invalid change/add/remove/create/delete/custom/reaccess, Timeout, reply) run inside call handlers and With callbacks of a real Service whose apply handlers are present/absent in random subsets with dynamic outcome ok/fail/nothing-changed and whose listeners are registered directly, through Handler.Listeners, on mounted muxes, through the parent, several per pattern; the merged log must equal apply -> publish -> listeners per call on the calling goroutine, nothing after failures/no-ops/invalid calls, listener arguments must carry the new values and the values returned by apply, and messages must be in program order. A concurrent batch (8 producers, 3 groups, also under -race) checks that message blocks of callbacks of one group never interleave.",
    note="Event calls in With callbacks are wrapped in recover by the harness; in handlers a panicking event call ends the script."),
 "C09": dict(
    category="exploration", design_ref="DESIGN.md §4 C09",
    technique="subscription recorder on a NATS-rule-enforcing connection + exact coverage/redundancy decision by subject enumeration over configuration tokens + reset-payload reference + differential run and restart on an embedded nats-server",
    text="Service configurations over names {'', svc, a.b}, nil or explicit ownership lists with overlapping/nested/duplicated/wildcarded entries, all 31 subsets of handler kinds and three queue-group settings are served on the recording connection: every subscribe subject must be valid, every concrete request subject of every owned pattern and answered request type must be matched by a subscription, no subscription's subject set may be included in another's (both decided by enumerating subjects over the configuration's tokens plus a fresh one), system.reset on start and ResetAll must list the documented ownership, and a subject under a single owned pattern must be delivered exactly once. On an embedded NATS server sampled requests must get exactly one response and a server restart must produce a correct reset on reconnect.",
    note="Explicit ownership entries are valid patterns; reset payloads compared as sets; configurations with nothing to serve excluded."),
 "C15": dict(
    category="exploration", design_ref="DESIGN.md §4 C15",
    technique="wire-level exactly-once checker on an embedded NATS server + callback log with sequence numbers + goroutine-profile and subscription-count leak probes + directed hook gates around expiry",
    text="A real Service on a real nats.Conn to an embedded nats-server runs 1-50 concurrent query events (durations 5-100 ms, 1/4/32 workers); a gateway connection sends up to 5 query requests per event before/around/after expiry with valid, missing-query, malformed and empty payloads while callbacks reply, accumulate events, call Timeout, panic or do nothing. Responses per request inbox are counted on the wire (exactly one for requests flushed before the query.expire hook), response content is checked against the callback behaviour, nil must come exactly once and last, callbacks must not overlap within a group, and listener goroutines and subscriptions on both ends must return to the pre-run baseline; subscription failures are injected on the recording connection; gates park a late request until the nil call was queued and park the expiry after the drain; long histories of expired events check that nothing accumulates.",
    note="Exactly-one is asserted only for requests flushed to the server before query.expire; at most 5 outstanding requests per event."),
 "C10": dict(
    category="exploration", design_ref="DESIGN.md §4 C10",
    technique="reference RES client cache replaying the events recorded on the connection, compared with a fresh get (canonical JSON); bounded-exhaustive collection pairs + random values and histories",
    text="store.Handler on a real Service over mockstore and badgerstore, model and collection, no transformer / IDTransformer / projection / custom TransformFuncs (errors, empty rid), with and without Default: a reference client fetches the resource, the store is mutated from a foreign goroutine, every event published for the rid is applied in order with index range checks, and the client must equal a fresh get; create/delete announcements and silence on unchanged representations are asserted. All 14641 ordered pairs of collections of length <=4 over {a,b,c} are run exhaustively (2 configurations quick, 5 thorough), plus random models/collections of primitives, references, soft references and data values, and 12-step histories with a persistent client.",
    note="Stored values are valid RES values; the reference client is the trusted base."),
 "C12": dict(
    category="fault_enumeration", design_ref="DESIGN.md §4 C12",
    technique="fault injection by SIGKILL at enumerated hook occurrences and random times in a workload process, acknowledgement log + reopen checker, double crashes during recovery",
    text="A workload process (Init with seeds, creates, updates, deletes incl. of seeds, re-Init, Flush) writes an acknowledgement record after every returned call. A counting run records how often each of 9 kill points fires; every (point, occurrence) is then executed once with SIGKILL at that hit, plus SIGKILL at seed-determined random times and second kills during recovery-time Init/RebuildIndexes. After each kill the directory is reopened: every id and the init marker must equal the state after the last acknowledged operation or after the in-flight one; Init run again must create exactly the missing seeds or nothing; RebuildIndexes then a 150-query battery must agree with the stored values. 4 store configurations (prefix set/empty, typed/untyped, with/without indexes).",
    note="Process kill only (no power loss); reopened WithTruncate(true); SyncWrites off is sufficient for process kills."),
 "C11": dict(
    category="exploration", design_ref="DESIGN.md §4 C11",
    technique="linearizability checking of recorded store histories with porcupine (per-id partition, transaction-level map model) + open-transaction occupancy monitor + change-callback chain checker + sequential reference-map diff",
    text="2-12 goroutines run 20-40 read/write transactions of 1-3 operations over 3 ids on badgerstore (typed/untyped, prefix on/off) and mockstore; every transaction is recorded with call/return stamps from one global counter and unique written values and the history is checked against a sequential per-id map model by porcupine (timeout = inconclusive); an occupancy monitor asserts writer exclusivity per id, the OnChange log must form a before/after chain with one callback per successful mutation on the caller's goroutine, the final content must equal the model; long single-goroutine histories are diffed operation by operation against a reference map including empty ids, generated ids, nil and wrong-type values, vetoes and double Close. Hook points after commits perturb the schedule; a subset runs under -race.",
    note="Transaction = atomic unit (call before Read/Write, return after Close); binary-marshal value mode not exercised; mockstore has no veto/type checks."),
 "C13": dict(
    category="exploration", design_ref="DESIGN.md §4 C13",
    technique="reference-model monitor over query results after Flush + Flush-completion monitor on index hook points (slow key function, parked index worker)",
    text="Random histories of creates, key-changing/key-keeping updates, nil keys and deletes on a real badgerstore QueryStore with two indexes (typed/untyped, prefix on/off); after each Flush a battery of ~150 queries (prefixes empty/partial/full/longer/with NUL and ':', 3 filters, all offsets and limits incl. -1 and 0, both directions) is compared with a reference scan of the model map in bytewise (key,id) order. Flush is checked against the number of index tasks enqueued vs the index.end hook count at the moment it returns, with a slow key function and with the index worker parked after its commit. Queries racing with maintenance run under -race and are asserted after the Flush.",
    note="Keys and ids are NUL-free; RebuildIndexes is decided by C12."),
 "C14": dict(
    category="exploration", design_ref="DESIGN.md §4 C14",
    technique="callback-log vs mutation-log checker with independently computed keys, in-callback index probe, reference before/after query results vs Events(); gateway reference model replaying reset/query events against fresh gets",
    text="Store level: every mutation of a real QueryStore is flushed individually; exactly one OnQueryChange callback iff some index key changed, with the right id/before/after, and inside the callback the index already lists the id under the new key and not under the old; for 60 queries per history Events(q) must report affected when the reference result changed and unaffected when neither key matches. Service level: store.QueryHandler (ordinary and query resources, with and without path params / AffectedResources) serves a gateway model that applies system.reset and query events (sending query requests for each held query) and must equal a fresh get after every mutation.",
    note="Between 'result changed' and 'neither key matches' either answer is accepted; Events evaluated inside the callback."),
 "C01": dict(
    category="exploration", design_ref="DESIGN.md §4 C01",
    technique="per-group occupancy monitor in every harness callback under stress + hook-driven schedule perturbation and directed gates; Go race detector on deliberately unsynchronised per-group scratch memory as second detector",
    text="Runs the real Service under 8-16 producers (requests of all types, With/WithResource/WithGroup, query events with requests and expiry, start/stop/start cycles) for every worker count in {1,2,3,8,32} x in-channel size in {1,4,1024}, default/literal/${tag} groups, mounted and through-parent patterns; every callback enters an occupancy counter keyed by the group the harness computes itself; hook points perturb the schedule and directed gate scenarios park a worker/producer inside the retire-vs-append windows. A subset runs under -race where per-group scratch memory turns a missing happens-before edge into a race report. Overlaps on Parallel resources must be seen (else inconclusive). Held on the executions observed.",
    note="Groups are computed with the reference router (C06); the Go scheduler is not controlled, only perturbed; evidence lists hook hits and contended groups."),
 "C02": dict(
    category="exploration", design_ref="DESIGN.md §4 C02",
    technique="offline exactly-once / ordering checker over the recorded submission+execution log (unique ids, sentinel quiescence, baton for happens-before order), lost wake-ups decided on service state",
    text="Same executions as C01. Every submission carries a unique id logged before the call; after a final request has passed the listener and a sentinel callback ran on every group, each accepted id must have executed exactly once; per (producer, group, channel) and, with mutex-ordered submissions, per group globally the execution order must equal the submission order; With must fail exactly for unrouted ids; replies must appear inside their callback's interval. Directed gate scenarios make the retire-vs-append windows deterministic.",
    note="Order between requests of different producers is not observable at the boundary and not asserted; request-vs-With order of one goroutine is not promised and checked per channel."),
 "C03": dict(
    category="exploration", design_ref="DESIGN.md §4 C03",
    technique="bounded-progress monitor decided on service state + goroutine profile, panic capture per API call, sequence-number drain check, directed hook gates for the Shutdown windows, race detector",
    text="Shutdown of a real Service races with 8 producers using every API the statement lists, over 4 worker counts and many start/stop cycles, plus directed scenarios that park a submission between the started-check and the lock while Shutdown is parked before/after waking the workers (G1/G2), park publishing calls before they read the connection until Shutdown returned (G3), keep a callback in flight (G4), call Shutdown twice (G5) and Serve while stopping (G6). A hang is reported only for the stable deadlock pattern seen on 3 samples; panics of API calls are recovered and reported; callback entry/exit sequence numbers are compared with the return of Shutdown; workers must be gone, Close called once, Serve returned, and a restarted service must run an exactly-once workload.",
    note="Liveness restated as bounded progress; wall clock only as a 30 s watchdog whose firing is inconclusive."),
 "C04": dict(
    category="exploration", design_ref="DESIGN.md §4 C04",
    technique="exactly-once monitor over the recorded connection log: responses per unique reply inbox counted after the request.done hook, across generated handler behaviour scripts; concurrent runs under the Go race detector",
    text="Delivers requests of every type to a real Service on a recording connection while harness handlers execute behaviour scripts (every script of <=2 actions over a ~45-action alphabet per type: all reply methods incl. unmarshalable values, second replies, Timeout, events, nested Value/RequireValue, 9 panic kinds, meta; random scripts up to length 5; all payload kinds; missing resources/handlers/methods; deprecated new with and without New handler) and counts non-pre-response messages per reply inbox once the request.done hook fired; a probe request after each script shows the service is still up; the same scripts run concurrently on 1-32 workers (also under -race). Held on the scripts executed.",
    note="Finality of a missing reply relies on the verif hook request.done; an access request with malformed payload to a pattern without access handler may or may not be answered."),
 "C05": dict(
    category="exploration", design_ref="DESIGN.md §4 C05",
    technique="reference-model monitor: invoked handler closure, request accessors and response code diffed against an independent dispatcher model per request",
    text="Random handler sets over dotted, method-like patterns are served by a real Service; every (type, resource, method) combination and every subset of the nine payload fields (exhaustive, with hostile strings) is sent; the handler closure records its identity and everything the request object exposes, and the response is compared with a reference dispatcher (documented split rule, reference router, method -> * -> not found, new prefers New) and with the deterministic outcome mapping (Error/panic with *res.Error verbatim, anything else system.internalError).",
    note="Sequential requests (input-space property); where two error conditions coincide either documented code is accepted; JSON null params/token are not compared."),
 "C07": dict(
    category="exploration", design_ref="DESIGN.md §4 C07",
    technique="online protocol validator over every message on the recording connection (independent parser written from the RES protocol document)",
    text="Every message published by the real Service during all C04 workloads (all request types, behaviour scripts, payloads, concurrent load) and during a generator of service-level publishing (Reset/ResetAll/TokenEvent/TokenEventWithID/TokenReset with hostile values and every connection-id character class, resource events with unmarshalable values, query events and query responses) is classified by subject form and its payload checked against the documented shape; unmarshalable reply values must yield a system.internalError response. The run is inconclusive unless every documented message form was observed.",
    note="Validator in harness/internal/ref/protocol.go is the trusted base; value-level rules the library does not control are not asserted; token events for requests without cid are outside the quantifier and skipped."),
 "C06": dict(
    category="exploration", design_ref="DESIGN.md §4 C06",
    technique="reference-model monitor + metamorphic arrangement check: every Mux.GetHandler result diffed against a brute-force most-specific-match router over bounded-exhaustive and random pattern sets in 7 Mount/Route arrangements",
    text="Builds the real Mux for every set of <=2 (quick) / <=3 (thorough) patterns of <=3 tokens over {a,b,$x,$y,*,>} in 7 arrangements (flat, service path, Mount with empty/own path, Route, registration through a parent below a mounted child, mount-then-handle) and looks up every name of <=4 tokens over {a,b,c}; plus seeded random sets (<=12 patterns, <=6 tokens, group templates, listeners, nested random arrangements) and hostile lookup strings. Handler identity, listeners, params and group are compared with a brute-force reference; registration conflicts must be rejected. Held on the enumerated domain and samples only.",
    note="Trusts the reference router (harness/internal/ref/router.go); for strings that are not valid resource names only absence of panics is asserted; listener-only patterns are not looked up."),
 "C17": dict(
    category="exploration", design_ref="DESIGN.md §4 C17",
    technique="reference-model monitor: every exported pattern/validator call diffed against a tokenising reference (bounded-exhaustive + seeded random inputs)",
    text="Runs the real Pattern methods, validators, Mux registration and the id transformer on every string over an 8-character alphabet (special characters in every position) up to length 6 (quick) / 7 (thorough) and on seeded random longer inputs, and compares each result with an independent token-wise reference grammar; held on the inputs enumerated, which is exhaustive for the short-string domain only.",
    note="Trusts the reference grammar in harness/internal/ref/pattern.go (written from doc comments); tokens made only of '$$..' are unspecified and skipped; undefined-behaviour inputs are exercised but not asserted."),
}
ALL = ["C%02d" % i for i in range(1, 21)]
NOT_BUILT = "check not built yet in this revision of /verif (planned: see DESIGN.md §4); runtime monitoring does apply"

# Workload dimensions added after the waves of independently written breaking changes.
EXT = {
 "C16": "first starts of fresh services racing with API calls, concurrent Shutdown callers, C11 histories on fresh untyped store objects. Wave 9: overlapping index queries through a callback handing out one prepared IndexQuery value.",
 "C01": "With ids carrying an empty or non-empty query; a supervisor re-serving while Shutdown is still draining; groups that are exactly the first token's tag; the service root resource, the root of a mounted Mux, wildcard-in-mount groups and Parallel+Group handlers are among the routes; dirty stops; a directed scenario lets a query event expire while Shutdown is blocked behind a callback of the same group.",
 "C02": "worker counts 0 and -1 (the documented default); WithResource(request) submitted from inside handlers and a real-time order rule for With* submissions per group; 19 valid but unmatched ids incl. near misses around the service name and mount names for the With error rule; small in-channel configurations; baton ordering also for requests. Wave 9: twelve restarts on an embedded NATS server whose closed-handler calls are all held and let go while eight producers submit (exactly-once and order per producer).",
 "C03": "a tight supervisor loop re-serving the instant the service is stopped (40 000 cycles on a lock-free connection); closed handler of the previous connection held until the next run; Shutdown completing while Serve is still subscribing, with a left-over Shutdown call held at its entry until the next run; first starts racing with API calls (race batch); 128 callers on an oversubscribed scheduler; start-up faults (the n-th subscription fails); 2-6 goroutines calling Shutdown at the same instant through a spin barrier (exactly one nil return, no panic, one Close); ListenAndServe cycles on an embedded NATS server ended by Shutdown or by the connection being closed. Wave 9: ListenAndServe cycles ended by Shutdown with a callback kept in flight until the connection's closed handler has arrived, Shutdown under a watchdog.",
 "C04": "a service without logger and with OnError callback; bursts over an embedded NATS server with default-valued SetInChannelSize/SetWorkerCount; in-channel size 4 under concurrent load with unprocessed requests decided on state; services without queue group and with handlers on the root resource (responses counted per delivered copy); hot groups; panic(nil); a restart scenario with work queued behind busy workers at stop. Wave 9: services owning more than their own name space answering requests for names shorter than / prefixes of the service name; error replies with empty message, empty code and a nil *res.Error.",
 "C05": "services owning more than their own name (>), near-miss names around the service name; handler-built errors reusing every system code with own message/data; wrapped errors; root and lone-wildcard patterns; payloads corrupted from valid ones (trailing/leading garbage, truncation) with encoding/json's validator as oracle. Wave 9: resource names shorter than the service name; a goroutine doing Mux lookups during every dispatch configuration.",
 "C06": "child Mux with its own path mounted at a non-empty path; root pattern, lone > and lone placeholder patterns; listener-vs-handler placeholder name conflicts in both orders and across mounts; Parallel combined with Group. Wave 9: duplicated-placeholder patterns offered to a Mux that already holds placeholders at those positions; every handler's OnRegister callback must be told its full pattern exactly once in every arrangement, stand-alone trees attached to a service last.",
 "C07": "QueryHandlers on wildcard patterns of nameless services; Timeout with MaxInt64, sub-millisecond and odd durations; store.Handler workloads whose change/add events must carry RES values; malformed event names and non-conformant connection ids must be refused; marshalers failing with wrapped/typed-nil errors; resource replies whose rid needs JSON escapes. Wave 9: error values with empty message, empty code, both empty and a nil *res.Error in the reply alphabet.",
 "C08": "every reserved event name; apply handlers failing with predefined and handler-built library errors; nil-payload and malformed-name custom events; root resources (service and mounted Mux) as event targets; Handler.Listeners keyed by another handler's pattern.",
 "C09": "ListenAndServe with reconnection observed on the connection; ownership re-applied on the running service before ResetAll; handler layouts (only the root pattern; kinds only below a literal/placeholder resource with other kinds); ownership set twice (explicit then nil) and changed between two runs of the same Service. Wave 9: the same Service stopped and served again twice with nothing reconfigured in between.",
 "C10": "Init over an already stored id; reference rids with boundary characters (~ ! }); handlers registered on a Mux mounted two levels deep; chains of 2-3 mutations in one write transaction with a client model that drops on delete and refetches on create; transformers that reject unexpected value types; array data values. Wave 9: every case ends with a mutation the store must refuse (Create on an existing id, Update/Delete on a missing one): it fails, publishes nothing, changes nothing.",
 "C11": "three BeforeChange listeners with the veto in the middle; listener-less stores; wrong-type values of a same-named foreign type; unencodable values; generated ids.",
 "C12": "a seed id created and updated by the application before the first successful Init; unencodable values in Create/Update and in an Init seed must fail and change nothing (or be present if acknowledged). Wave 9: histories in which the application creates every seed id before the first Init, and in which the first Init has no seeds.",
 "C13": "multi-mutation transactions; empty non-nil keys; keys and prefixes with 0xFF bytes; a burst against a slowed index worker until more index updates are outstanding than the queue holds; a large store (hundreds of hits) with limits around the internal buffer size. Wave 9: every history ends with an Init offering other keys for all its ids plus new ones.",
 "C14": "query handlers on a Mux mounted two levels deep; a Parallel query resource whose query requests are sent at once; Init over an already stored seed id; multi-mutation transactions; empty non-nil keys; per-id callback order through an index queue overflow burst. Wave 9: subscribed queries with key filter and window together (entries the filter rejects before and inside the window).",
 "C15": "query request payloads with trailing bytes; non-positive configured durations; shutdown (and restart) with active query events, listener goroutines must end; barrage of back-to-back requests across the expiry decided on the wire log; QueryEvent without connection (before Serve / after Shutdown); query events sent from resources that carry a query; restart with a changed query event duration. Wave 9: query callbacks answering with an error without message and with a nil *res.Error.",
 "C17": "every byte value in every position of short names; routing vs Pattern.Matches around the Mux path boundary; Mount and Route paths; mid-token wildcard characters in resource ids; tag maps whose values start with $. Wave 9: every pattern re-offered to a Mux (direct and mounted) already holding patterns with other tag names or * at the same positions; id transformer round trip on the pattern told to a bottom-up registered handler.",
 "C18": "rids with boundary characters in classification texts; near-neighbour value pairs (case flips, one character changed) for Equal; random JSON whitespace (incl. CR) around data values and non-whitespace control characters in front; the input buffer is overwritten right after Unmarshal returns; call-only access results; escaped rids.",
 "C19": "raw JSON request values that are not JSON; twelve pre-responses before the response; NATS-style non-blocking burst delivery before the inbox is read; response 5 ms behind a pre-response on the embedded server; connection errors that are themselves *res.Error; repeated identical timeout pre-responses; later messages after the returned one. Wave 9: replies whose first byte lies next to but outside a-z/A-Z (ASCII neighbours, byte order mark, bytes 0x80-0xFF).",
 "C20": "bursts of unawaited gets over all resources of a handler with padded values; values with the same spelling and different JSON type; default collections of 0-5 items; create on a default-only resource; index keys with 0xFF bytes in reverse query collections.",
}

def main():
    checks = []
    for pid in ALL:
        if pid not in CHECKS:
            continue
        c = CHECKS[pid]
        checks.append({
            "property_id": pid,
            "quick_cmd": "./check %s quick" % pid,
            "thorough_cmd": "./check %s thorough" % pid,
            "evidence_file": "/verif/evidence/%s.json" % pid,
            "replay_cmd_template": "./check --replay {path}",
            "engine": "rvmon",
            "level_claimed": {"category": c["category"], "text": c["text"] + (" Extended after the seeded-change waves (DESIGN.md §10): " + EXT[pid] if pid in EXT else ""), "design_ref": c["design_ref"]},
            "level_note": c["note"],
            "technique": c["technique"],
        })
    m = {
        "version": 1,
        "setup_cmd": "./check --build",
        "hooks": {
            "guard": "verif",
            "enable": "go build -tags verif (./check builds harness/cmd/rvmon with -tags verif against replace github.com/jirenius/go-res => /repo)",
            "baseline_off_cmd": "cd /repo && GOFLAGS=-mod=mod GOPROXY=off GOSUMDB=off go test -json -vet=off -count=1 -timeout 25m ./...",
            "source_commits": hook_commits(),
            "add_only": True,
        },
        "engines": [{
            "name": "rvmon", "path": "/verif/harness",
            "serves_properties": [c["property_id"] for c in checks],
            "kind_free_text": "Go driver/child-process runtime monitor: runs the real go-res code (built from /repo with -tags verif) under recording connections, hook-driven schedule perturbation/gates/kill points, reference-model oracles, porcupine and the Go race detector",
        }],
        "checks": checks,
        "not_applicable": [{"property_id": p, "reason": NOT_BUILT} for p in ALL if p not in CHECKS],
        "notes": "All checks: ./check <id> quick|thorough; VERIF_SEED selects the deterministic case list. Known findings: /verif/known_findings.json.",
    }
    with open(os.path.join(ROOT, "MANIFEST.json"), "w") as f:
        json.dump(m, f, indent=1)
        f.write("\n")

if __name__ == "__main__":
    main()
