#!/usr/bin/env python3
"""Regenerates /verif/MANIFEST.json from the table below (kept in one place so
that it stays valid at all times)."""
import json, os, subprocess
ROOT = os.path.dirname(os.path.dirname(os.path.abspath(__file__)))

def hook_commits():
    try:
        out = subprocess.check_output(["git", "-C", "/repo", "log", "--format=%H %s"], text=True)
        return [l.split()[0] for l in out.splitlines() if l.split(" ", 1)[1].startswith("verif:")]
    except Exception:
        return []

CHECKS = {
 "C06": dict(
    category="exploration", design_ref="DESIGN.md §4 C06",
    technique="reference-model monitor + metamorphic arrangement check: every Mux.GetHandler result diffed against a brute-force most-specific-match router over bounded-exhaustive and random pattern sets in 7 Mount/Route arrangements",
    text="Builds the real Mux for every set of <=2 (quick) / <=3 (thorough) patterns of <=3 tokens over {a,b,$x,$y,*,>} in 7 arrangements (flat, service path, Mount with empty/own path, Route, registration through a parent below a mounted child, mount-then-handle) and looks up every name of <=4 tokens over {a,b,c}; plus seeded random sets (<=12 patterns, <=6 tokens, group templates, listeners, nested random arrangements) and hostile lookup strings. Handler identity, listeners, params and group are compared with a brute-force reference; registration conflicts must be rejected. Held on the enumerated domain and samples only.",
    note="Trusts the reference router (harness/internal/ref/router.go); for strings that are not valid resource names only absence of panics is asserted; listener-only patterns are not looked up."),
 "C17": dict(
    category="exploration", design_ref="DESIGN.md §4 C17",
    technique="reference-model monitor: every exported pattern/validator call diffed against a tokenising reference (bounded-exhaustive + seeded random inputs)",
    text="Runs the real Pattern methods, validators, Mux registration and the id transformer on every string over an 8-character alphabet (special characters in every position) up to length 6 (quick) / 7 (thorough) and on seeded random longer inputs, and compares each result with an independent token-wise reference grammar; held on the inputs enumerated, which is exhaustive for the short-string domain only.",
    note="Trusts the reference grammar in harness/internal/ref/pattern.go (written from doc comments); tokens made only of '$$..' are unspecified and skipped; undefined-behaviour inputs are exercised but not asserted."),
}
ALL = ["C%02d" % i for i in range(1, 21)]
NOT_BUILT = "check not built yet in this revision of /verif (planned: see DESIGN.md §4); runtime monitoring does apply"

def main():
    checks = []
    for pid in ALL:
        if pid not in CHECKS:
            continue
        c = CHECKS[pid]
        checks.append({
            "property_id": pid,
            "quick_cmd": "./check %s quick" % pid,
            "thorough_cmd": "./check %s thorough" % pid,
            "evidence_file": "/verif/evidence/%s.json" % pid,
            "replay_cmd_template": "./check --replay {path}",
            "engine": "rvmon",
            "level_claimed": {"category": c["category"], "text": c["text"], "design_ref": c["design_ref"]},
            "level_note": c["note"],
            "technique": c["technique"],
        })
    m = {
        "version": 1,
        "setup_cmd": "./check --build",
        "hooks": {
            "guard": "verif",
            "enable": "go build -tags verif (./check builds harness/cmd/rvmon with -tags verif against replace github.com/jirenius/go-res => /repo)",
            "baseline_off_cmd": "cd /repo && GOFLAGS=-mod=mod GOPROXY=off GOSUMDB=off go test -json -vet=off -count=1 -timeout 25m ./...",
            "source_commits": hook_commits(),
            "add_only": True,
        },
        "engines": [{
            "name": "rvmon", "path": "/verif/harness",
            "serves_properties": [c["property_id"] for c in checks],
            "kind_free_text": "Go driver/child-process runtime monitor: runs the real go-res code (built from /repo with -tags verif) under recording connections, hook-driven schedule perturbation/gates/kill points, reference-model oracles, porcupine and the Go race detector",
        }],
        "checks": checks,
        "not_applicable": [{"property_id": p, "reason": NOT_BUILT} for p in ALL if p not in CHECKS],
        "notes": "All checks: ./check <id> quick|thorough; VERIF_SEED selects the deterministic case list. Known findings: /verif/known_findings.json.",
    }
    with open(os.path.join(ROOT, "MANIFEST.json"), "w") as f:
        json.dump(m, f, indent=1)
        f.write("\n")

if __name__ == "__main__":
    main()
