#!/bin/bash
# tools/seedrun.sh <seed-id> <checks...>   apply a stored seeded change to /repo, run quick checks, undo it.
# Env VERIF_BATCH / VERIF_SEED are passed through.
set -u
id="$1"; shift
p=/verif/seeded/$id/patch.diff
[ -f /verif/seeded/$id/patch_rebased.diff ] && p=/verif/seeded/$id/patch_rebased.diff
(cd /repo && git apply --whitespace=nowarn "$p") || { echo "PATCH DOES NOT APPLY"; exit 2; }
for c in "$@"; do
  o=$(cd /verif && timeout 1500 ./check $c quick 2>&1); rc=$?
  sigs=$(echo "$o" | grep -E "signature:" | sed 's/.*signature: //' | head -4 | tr '\n' ';')
  echo "  seed=$id check=$c exit=$rc $sigs"
done
git -C /repo checkout -- . ; git -C /repo status --short | head -3
