// Command rvmon is the runtime-monitoring driver and child binary.
//
//	rvmon run <Cxx> [quick|thorough]
//	rvmon child <Cxx> <batch.json> <out.jsonl>
//	rvmon replay <file>
//	rvmon list
package main

import (
	"fmt"
	"os"
	"strconv"

	"verif/harness/internal/core"
	"verif/harness/props"
)

func main() {
	if len(os.Args) < 2 {
		fmt.Fprintln(os.Stderr, "usage: rvmon run|child|replay|list ...")
		os.Exit(2)
	}
	switch os.Args[1] {
	case "list":
		for _, id := range core.IDs() {
			fmt.Println(id)
		}
	case "run":
		if len(os.Args) < 3 {
			os.Exit(2)
		}
		tier := core.Quick
		if len(os.Args) > 3 && os.Args[3] == "thorough" {
			tier = core.Thorough
		}
		if t := os.Getenv("VERIF_TIER"); t == "thorough" && len(os.Args) <= 3 {
			tier = core.Thorough
		}
		seed := int64(1)
		if s := os.Getenv("VERIF_SEED"); s != "" {
			if n, err := strconv.ParseInt(s, 10, 64); err == nil {
				seed = n
			}
		}
		os.Exit(core.RunProp(os.Args[2], tier, seed, os.Getenv("VERIF_BATCH")))
	case "child":
		if len(os.Args) < 5 {
			os.Exit(2)
		}
		os.Exit(core.ChildMain(os.Args[2], os.Args[3], os.Args[4]))
	case "c12work":
		if len(os.Args) < 3 {
			os.Exit(2)
		}
		os.Exit(props.C12WorkMain(os.Args[2]))
	case "replay":
		if len(os.Args) < 3 {
			os.Exit(2)
		}
		os.Exit(core.Replay(os.Args[2]))
	default:
		fmt.Fprintln(os.Stderr, "unknown command")
		os.Exit(2)
	}
}
