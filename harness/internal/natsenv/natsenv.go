// Package natsenv runs an embedded NATS server inside the child process and
// gives the monitors a real nats.Conn for the service plus a "gateway"
// connection that records every message on the wire.
package natsenv

import (
	"fmt"
	"net"
	"sync"
	"time"

	"github.com/nats-io/nats-server/v2/server"
	nats "github.com/nats-io/nats.go"

	"verif/harness/internal/mon"
)

// WireMsg is a message seen on the wire by the gateway connection.
type WireMsg struct {
	Seq     int64
	Subject string
	Reply   string
	Data    []byte
}

// Env is an embedded server with a recording gateway connection.
type Env struct {
	Srv  *server.Server
	URL  string
	GW   *nats.Conn
	mu   sync.Mutex
	wire []WireMsg
	cond *sync.Cond
	opts *server.Options
}

// Start starts a server on a random local port.
func Start() (*Env, error) {
	opts := &server.Options{Host: "127.0.0.1", Port: -1, NoLog: true, NoSigs: true, MaxControlLine: 4096}
	srv, err := server.NewServer(opts)
	if err != nil {
		return nil, err
	}
	go srv.Start()
	if !srv.ReadyForConnections(10 * time.Second) {
		return nil, fmt.Errorf("nats server not ready")
	}
	e := &Env{Srv: srv, URL: srv.ClientURL(), opts: opts}
	e.cond = sync.NewCond(&e.mu)
	gw, err := nats.Connect(e.URL, nats.Name("gateway"), nats.MaxReconnects(-1), nats.ReconnectWait(20*time.Millisecond))
	if err != nil {
		srv.Shutdown()
		return nil, err
	}
	e.GW = gw
	if _, err := gw.Subscribe(">", func(m *nats.Msg) {
		e.mu.Lock()
		e.wire = append(e.wire, WireMsg{Seq: mon.Seq(), Subject: m.Subject, Reply: m.Reply, Data: append([]byte(nil), m.Data...)})
		e.cond.Broadcast()
		e.mu.Unlock()
	}); err != nil {
		return nil, err
	}
	gw.Flush()
	return e, nil
}

// Connect opens a new client connection (for the service under test).
func (e *Env) Connect(name string, opts ...nats.Option) (*nats.Conn, error) {
	o := append([]nats.Option{nats.Name(name), nats.MaxReconnects(-1), nats.ReconnectWait(20 * time.Millisecond)}, opts...)
	return nats.Connect(e.URL, o...)
}

// Wire returns a snapshot of the recorded wire messages.
func (e *Env) Wire() []WireMsg {
	e.mu.Lock()
	defer e.mu.Unlock()
	return append([]WireMsg(nil), e.wire...)
}

// WireLen returns the number of recorded messages.
func (e *Env) WireLen() int {
	e.mu.Lock()
	defer e.mu.Unlock()
	return len(e.wire)
}

// WaitWire waits until pred holds over the wire log or the timeout expires.
func (e *Env) WaitWire(pred func([]WireMsg) bool, d time.Duration) bool {
	deadline := time.Now().Add(d)
	t := time.AfterFunc(d, func() { e.mu.Lock(); e.cond.Broadcast(); e.mu.Unlock() })
	defer t.Stop()
	e.mu.Lock()
	defer e.mu.Unlock()
	for !pred(e.wire) {
		if time.Now().After(deadline) {
			return false
		}
		e.cond.Wait()
	}
	return true
}

// Restart stops the server and starts a new one on the same port; client
// connections reconnect on their own.
func (e *Env) Restart() error {
	port := 0
	if a, ok := e.Srv.Addr().(*net.TCPAddr); ok {
		port = a.Port
	}
	e.Srv.Shutdown()
	e.Srv.WaitForShutdown()
	opts := *e.opts
	opts.Port = port
	var srv *server.Server
	var err error
	for i := 0; i < 50; i++ {
		srv, err = server.NewServer(&opts)
		if err == nil {
			go srv.Start()
			if srv.ReadyForConnections(2 * time.Second) {
				e.Srv = srv
				return nil
			}
			srv.Shutdown()
		}
		time.Sleep(20 * time.Millisecond)
	}
	return fmt.Errorf("restart failed: %v", err)
}

// Shutdown stops the gateway connection and the server.
func (e *Env) Shutdown() {
	if e.GW != nil {
		e.GW.Close()
	}
	e.Srv.Shutdown()
}

// NumSubscriptions returns the number of subscriptions the server holds.
func (e *Env) NumSubscriptions() int { return int(e.Srv.NumSubscriptions()) }
