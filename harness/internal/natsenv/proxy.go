package natsenv

import (
	"fmt"
	"net"
	"sync"
)

// Proxy is a TCP relay in front of the embedded server through which a client
// (the service under test) connects. The traffic from the server to the client
// can be held back and let go again, as a stalled network link does: nothing is
// lost or reordered, everything is late.
type Proxy struct {
	ln     net.Listener
	target string
	mu     sync.Mutex
	cond   *sync.Cond
	hold   bool
	closed bool
	conns  []net.Conn
	held   int64 // bytes that waited for a release
}

// NewProxy starts a relay to the server on a random local port.
func (e *Env) NewProxy() (*Proxy, error) {
	a, ok := e.Srv.Addr().(*net.TCPAddr)
	if !ok {
		return nil, fmt.Errorf("server has no TCP address")
	}
	ln, err := net.Listen("tcp", "127.0.0.1:0")
	if err != nil {
		return nil, err
	}
	p := &Proxy{ln: ln, target: fmt.Sprintf("127.0.0.1:%d", a.Port)}
	p.cond = sync.NewCond(&p.mu)
	go p.accept()
	return p, nil
}

// URL is the address clients connect to.
func (p *Proxy) URL() string { return "nats://" + p.ln.Addr().String() }

// Hold keeps back everything the server sends from now on.
func (p *Proxy) Hold() {
	p.mu.Lock()
	p.hold = true
	p.mu.Unlock()
}

// Release lets the held traffic, and what follows, through.
func (p *Proxy) Release() {
	p.mu.Lock()
	p.hold = false
	p.cond.Broadcast()
	p.mu.Unlock()
}

// HeldBytes is the number of bytes that had to wait for a Release.
func (p *Proxy) HeldBytes() int64 {
	p.mu.Lock()
	defer p.mu.Unlock()
	return p.held
}

// Close ends the relay and its connections.
func (p *Proxy) Close() {
	p.mu.Lock()
	p.closed = true
	p.hold = false
	p.cond.Broadcast()
	conns := p.conns
	p.conns = nil
	p.mu.Unlock()
	p.ln.Close()
	for _, c := range conns {
		c.Close()
	}
}

func (p *Proxy) accept() {
	for {
		cl, err := p.ln.Accept()
		if err != nil {
			return
		}
		sv, err := net.Dial("tcp", p.target)
		if err != nil {
			cl.Close()
			continue
		}
		p.mu.Lock()
		if p.closed {
			p.mu.Unlock()
			cl.Close()
			sv.Close()
			return
		}
		p.conns = append(p.conns, cl, sv)
		p.mu.Unlock()
		// client to server: untouched
		go func() {
			buf := make([]byte, 32*1024)
			for {
				n, err := cl.Read(buf)
				if n > 0 {
					if _, werr := sv.Write(buf[:n]); werr != nil {
						break
					}
				}
				if err != nil {
					break
				}
			}
			sv.Close()
			cl.Close()
		}()
		// server to client: waits while the link is held
		go func() {
			buf := make([]byte, 32*1024)
			for {
				n, err := sv.Read(buf)
				if n > 0 {
					p.mu.Lock()
					if p.hold {
						p.held += int64(n)
					}
					for p.hold && !p.closed {
						p.cond.Wait()
					}
					p.mu.Unlock()
					if _, werr := cl.Write(buf[:n]); werr != nil {
						break
					}
				}
				if err != nil {
					break
				}
			}
			sv.Close()
			cl.Close()
		}()
	}
}
