package core

import (
	"bufio"
	"bytes"
	"encoding/json"
	"fmt"
	"os"
	"os/exec"
	"os/signal"
	"path/filepath"
	"regexp"
	"runtime"
	"sort"
	"strconv"
	"strings"
	"sync"
	"sync/atomic"
	"syscall"
	"time"
)

// Root returns the /verif directory.
func Root() string {
	if r := os.Getenv("VERIF_ROOT"); r != "" {
		return r
	}
	return "/verif"
}

// Aggregate is what the driver collected over all batches.
type Aggregate struct {
	Prop         *Prop
	Tier         Tier
	Seed         int64
	Counters     map[string]int64
	Max          map[string]int64
	Distinct     map[uint64]struct{}
	DistinctN    int64
	Samples      []json.RawMessage
	Sets         map[string]map[string]struct{}
	Violations   []Violation
	Inconclusive []string
	Batches      int
	BatchesOK    int
	Notes        []string
	RaceReports  map[string]int // signature -> count
}

// AddViolation lets Post hooks add violations.
func (a *Aggregate) AddViolation(v Violation) { a.Violations = append(a.Violations, v) }

// KnownFinding is an entry of known_findings.json.
type KnownFinding struct {
	Property  string `json:"property"`
	Signature string `json:"signature"`
	Status    string `json:"status"` // known | fixed
	Commit    string `json:"commit,omitempty"`
	What      string `json:"what"`
}

func loadKnown() []KnownFinding {
	var kf struct {
		Findings []KnownFinding `json:"findings"`
	}
	b, err := os.ReadFile(filepath.Join(Root(), "known_findings.json"))
	if err != nil {
		return nil
	}
	if err := json.Unmarshal(b, &kf); err != nil {
		fmt.Fprintf(os.Stderr, "known_findings.json: %v\n", err)
		return nil
	}
	return kf.Findings
}

type childResult struct {
	batch   Batch
	records []record
	hasSum  bool
	exit    int
	timeout bool
	log     string // path of stdout/stderr log
	race    []RaceReport
	wall    time.Duration
	skipped bool // not run: too many batches of this run had hung before
}

// RunProp runs all batches of a property and returns the process exit code.
func RunProp(id string, tier Tier, seed int64, onlyBatch string) int {
	p := Lookup(id)
	if p == nil {
		fmt.Fprintf(os.Stderr, "unknown property %s\n", id)
		return 2
	}
	start := time.Now()
	batches := p.Batches(seed, tier)
	for i := range batches {
		batches[i].Seed = seed
		batches[i].Tier = tier
	}
	if onlyBatch != "" {
		var bs []Batch
		for _, b := range batches {
			if b.Name == onlyBatch {
				bs = append(bs, b)
			}
		}
		batches = bs
	}
	agg := &Aggregate{
		Prop: p, Tier: tier, Seed: seed,
		Counters: map[string]int64{}, Max: map[string]int64{},
		Distinct: map[uint64]struct{}{}, Sets: map[string]map[string]struct{}{},
		RaceReports: map[string]int{},
	}
	scratch, err := os.MkdirTemp("", "rvmon-"+id+"-")
	if err != nil {
		fmt.Fprintln(os.Stderr, err)
		return 2
	}
	defer os.RemoveAll(scratch)

	par := p.Parallel
	if par <= 0 {
		par = runtime.NumCPU()
	}
	if v := os.Getenv("VERIF_PAR"); v != "" {
		if n, err := strconv.Atoi(v); err == nil && n > 0 {
			par = n
		}
	}
	results := make([]*childResult, len(batches))
	var wg sync.WaitGroup
	sem := make(chan struct{}, par)
	// A tree on which the code under test deadlocks makes batch after batch run into its
	// watchdog. Three hung batches end the run: the batches not started yet are skipped
	// (inconclusive), a hung batch is not retried once a violation has been recorded. On a
	// tree where nothing hangs this changes nothing.
	var hung, violSeen int32
	for i := range batches {
		wg.Add(1)
		sem <- struct{}{}
		go func(i int) {
			defer wg.Done()
			defer func() { <-sem }()
			if atomic.LoadInt32(&hung) >= 3 {
				results[i] = &childResult{batch: batches[i], skipped: true}
				return
			}
			r := runChild(p, batches[i], scratch, i)
			if hasViol(r) {
				atomic.StoreInt32(&violSeen, 1)
			}
			if (r.timeout || (!r.hasSum && !batches[i].CrashOK && !isLibraryCrash(r))) && !hasViol(r) && os.Getenv("VERIF_NORETRY") == "" &&
				!(r.timeout && (atomic.LoadInt32(&violSeen) == 1 || atomic.LoadInt32(&hung) >= 1)) {
				// inconclusive: retry once
				fmt.Printf("RETRY batch=%s (timeout=%v exit=%d)\n", batches[i].Name, r.timeout, r.exit)
				r = runChild(p, batches[i], scratch, i+100000)
				if hasViol(r) {
					atomic.StoreInt32(&violSeen, 1)
				}
			}
			if r.timeout {
				atomic.AddInt32(&hung, 1)
			}
			results[i] = r
		}(i)
	}
	wg.Wait()

	keepLogs := filepath.Join(Root(), "logs", id)
	for _, r := range results {
		agg.Batches++
		mergeResult(agg, r, keepLogs)
	}
	if p.Post != nil {
		p.Post(agg)
	}
	return finish(agg, time.Since(start))
}

func hasViol(r *childResult) bool {
	for _, rec := range r.records {
		if rec.T == "viol" {
			return true
		}
	}
	return false
}

func isLibraryCrash(r *childResult) bool {
	if r.hasSum || r.timeout {
		return false
	}
	b, err := os.ReadFile(r.log)
	if err != nil {
		return false
	}
	_, lib := classifyCrash(string(b))
	return lib
}

func runChild(p *Prop, b Batch, scratch string, idx int) *childResult {
	res := &childResult{batch: b}
	bin := filepath.Join(Root(), "bin", "rvmon")
	if b.Race {
		bin = filepath.Join(Root(), "bin", "rvmon-race")
	}
	dir := filepath.Join(scratch, fmt.Sprintf("b%d", idx))
	os.MkdirAll(dir, 0o755)
	batchFile := filepath.Join(dir, "batch.json")
	bb, _ := json.Marshal(b)
	os.WriteFile(batchFile, bb, 0o644)
	outFile := filepath.Join(dir, "out.jsonl")
	logFile := filepath.Join(dir, "log.txt")
	res.log = logFile
	lf, _ := os.Create(logFile)
	defer lf.Close()
	cmd := exec.Command(bin, "child", p.ID, batchFile, outFile)
	cmd.Stdout = lf
	cmd.Stderr = lf
	cmd.Env = append(os.Environ(), "GOTRACEBACK=all", "RVMON_SCRATCH="+dir, "TMPDIR="+dir)
	if b.Race {
		cmd.Env = append(cmd.Env, "GORACE=halt_on_error=0 history_size=3 log_path="+filepath.Join(dir, "race"))
	}
	cmd.SysProcAttr = &syscall.SysProcAttr{Setpgid: true}
	t0 := time.Now()
	if err := cmd.Start(); err != nil {
		fmt.Fprintf(lf, "start error: %v\n", err)
		res.exit = 127
		return res
	}
	trackChild(cmd.Process.Pid, true)
	defer trackChild(cmd.Process.Pid, false)
	timeout := time.Duration(b.TimeoutS) * time.Second
	if timeout == 0 {
		timeout = 5 * time.Minute
	}
	if v := os.Getenv("VERIF_BATCH_TIMEOUT"); v != "" {
		if n, err := strconv.Atoi(v); err == nil && n > 0 {
			timeout = time.Duration(n) * time.Second
		}
	}
	done := make(chan error, 1)
	go func() { done <- cmd.Wait() }()
	select {
	case err := <-done:
		if err != nil {
			if ee, ok := err.(*exec.ExitError); ok {
				res.exit = ee.ExitCode()
			} else {
				res.exit = 126
			}
		}
	case <-time.After(timeout):
		res.timeout = true
		cmd.Process.Signal(syscall.SIGQUIT) // goroutine dump into the log
		select {
		case <-done:
		case <-time.After(10 * time.Second):
			syscall.Kill(-cmd.Process.Pid, syscall.SIGKILL)
			<-done
		}
	}
	syscall.Kill(-cmd.Process.Pid, syscall.SIGKILL) // reap stray grandchildren
	res.wall = time.Since(t0)
	// Read records.
	if f, err := os.Open(outFile); err == nil {
		sc := bufio.NewScanner(f)
		sc.Buffer(make([]byte, 1<<20), 64<<20)
		for sc.Scan() {
			var r record
			if json.Unmarshal(sc.Bytes(), &r) == nil {
				if r.T == "sum" {
					res.hasSum = true
				}
				res.records = append(res.records, r)
			}
		}
		f.Close()
	}
	if b.Race {
		res.race = parseRaceLogs(dir)
	}
	return res
}

// Children run in process groups of their own (so that a batch can be killed with its
// grandchildren); when the driver itself is told to stop it takes them along.
var (
	childMu   sync.Mutex
	children  = map[int]bool{}
	childOnce sync.Once
)

func trackChild(pid int, running bool) {
	childOnce.Do(func() {
		ch := make(chan os.Signal, 1)
		signal.Notify(ch, syscall.SIGTERM, syscall.SIGINT, syscall.SIGHUP)
		go func() {
			<-ch
			childMu.Lock()
			for p := range children {
				syscall.Kill(-p, syscall.SIGKILL)
			}
			childMu.Unlock()
			fmt.Println("INTERRUPTED: driver stopped by a signal, children killed")
			os.Exit(3)
		}()
	})
	childMu.Lock()
	if running {
		children[pid] = true
	} else {
		delete(children, pid)
	}
	childMu.Unlock()
}

var reGoroutineFrame = regexp.MustCompile(`(?m)^(github\.com/jirenius/go-res[^\s(]*|verif/harness[^\s(]*)\(`)

// classifyCrash extracts a signature from a Go panic / fatal error trace and
// tells whether a go-res frame is on the panicking goroutine's stack.
func classifyCrash(log string) (sig string, lib bool) {
	idx := strings.Index(log, "\npanic: ")
	if strings.HasPrefix(log, "panic: ") {
		idx = 0
	}
	kind := "panic"
	if idx < 0 {
		idx = strings.Index(log, "fatal error: ")
		kind = "fatal"
		if idx < 0 {
			return "", false
		}
	}
	rest := log[idx:]
	line := rest
	if i := strings.IndexByte(strings.TrimLeft(rest, "\n"), '\n'); i >= 0 {
		line = strings.TrimLeft(rest, "\n")[:i]
	}
	// first goroutine block after the panic line
	g := strings.Index(rest, "\ngoroutine ")
	if g < 0 {
		return kind + ":" + line, false
	}
	block := rest[g+1:]
	if e := strings.Index(block, "\n\n"); e >= 0 {
		block = block[:e]
	}
	frames := reGoroutineFrame.FindAllStringSubmatch(block, -1)
	var top string
	for _, f := range frames {
		fn := f[1]
		if strings.HasPrefix(fn, "github.com/jirenius/go-res") {
			if top == "" {
				top = strings.TrimPrefix(fn, "github.com/jirenius/go-res")
			}
			lib = true
		}
	}
	msg := line
	if len(msg) > 120 {
		msg = msg[:120]
	}
	// strip addresses / numbers so the signature is stable
	msg = regexp.MustCompile(`0x[0-9a-f]+`).ReplaceAllString(msg, "0x?")
	msg = regexp.MustCompile(`\[recovered\].*`).ReplaceAllString(msg, "")
	return "crash:" + top + ":" + strings.TrimSpace(msg), lib
}

func mergeResult(a *Aggregate, r *childResult, keepLogs string) {
	if r.skipped {
		a.Inconclusive = append(a.Inconclusive, r.batch.Name+": not run, three batches of this run had run into their watchdog before")
		a.Counters["inconclusive"]++
		return
	}
	keep := false
	for _, rec := range r.records {
		switch rec.T {
		case "viol":
			a.Violations = append(a.Violations, *rec.Violation)
			keep = true
		case "inc":
			a.Inconclusive = append(a.Inconclusive, r.batch.Name+": "+rec.Reason)
			a.Counters["inconclusive"]++
		case "sum":
			for k, v := range rec.Counters {
				if k == "inconclusive" {
					continue
				}
				a.Counters[k] += v
			}
			for k, v := range rec.Max {
				if v > a.Max[k] {
					a.Max[k] = v
				}
			}
			for _, h := range rec.Distinct {
				a.Distinct[h] = struct{}{}
			}
			a.DistinctN += rec.DistinctN
			if len(a.Samples) < 6 {
				for _, s := range rec.Samples {
					if len(a.Samples) < 6 {
						a.Samples = append(a.Samples, s)
					}
				}
			}
			for k, ms := range rec.Sets {
				m := a.Sets[k]
				if m == nil {
					m = map[string]struct{}{}
					a.Sets[k] = m
				}
				for _, s := range ms {
					m[s] = struct{}{}
				}
			}
		}
	}
	if r.hasSum && !r.timeout {
		a.BatchesOK++
	} else if r.batch.CrashOK && !r.timeout {
		a.BatchesOK++
	} else if r.timeout {
		a.Inconclusive = append(a.Inconclusive, fmt.Sprintf("%s: watchdog fired after %s", r.batch.Name, r.wall.Round(time.Second)))
		a.Counters["inconclusive"]++
		keep = true
	} else {
		// The child died without a summary.
		logb, _ := os.ReadFile(r.log)
		sig, lib := classifyCrash(string(logb))
		if lib {
			tail := string(logb)
			if i := strings.Index(tail, "panic: "); i >= 0 {
				tail = tail[i:]
			} else if i := strings.Index(tail, "fatal error: "); i >= 0 {
				tail = tail[i:]
			}
			if len(tail) > 3000 {
				tail = tail[:3000]
			}
			a.Violations = append(a.Violations, Violation{
				Property: a.Prop.ID, Signature: sig,
				What:    "child process died with a panic raised in go-res frames",
				Witness: map[string]interface{}{"trace": tail},
				Batch:   r.batch.Name,
			})
		} else {
			a.Inconclusive = append(a.Inconclusive, fmt.Sprintf("%s: child exited %d without summary (harness failure?) %s", r.batch.Name, r.exit, sig))
			a.Counters["inconclusive"]++
		}
		keep = true
	}
	for _, rr := range r.race {
		a.RaceReports[rr.Class+":"+rr.Signature]++
		switch rr.Class {
		case "library", "group-hb":
			a.Violations = append(a.Violations, Violation{
				Property: a.Prop.ID, Signature: "race:" + rr.Signature,
				What:    "data race reported by the Go race detector (" + rr.Class + ")",
				Witness: map[string]interface{}{"report": rr.Text},
				Batch:   r.batch.Name,
			})
			keep = true
		case "harness":
			a.Inconclusive = append(a.Inconclusive, r.batch.Name+": race inside harness code: "+rr.Signature)
			a.Counters["inconclusive"]++
			keep = true
		default:
			a.Notes = append(a.Notes, "dependency-only race: "+rr.Signature)
		}
	}
	if keep && os.Getenv("VERIF_KEEPLOGS") != "" {
		os.MkdirAll(keepLogs, 0o755)
		if b, err := os.ReadFile(r.log); err == nil {
			if len(b) > 4<<20 {
				b = b[len(b)-4<<20:]
			}
			os.WriteFile(filepath.Join(keepLogs, sanitize(r.batch.Name)+".log"), b, 0o644)
		}
	}
}

func sanitize(s string) string {
	return regexp.MustCompile(`[^A-Za-z0-9_.-]+`).ReplaceAllString(s, "_")
}

func finish(a *Aggregate, wall time.Duration) int {
	p := a.Prop
	known := loadKnown()
	knownBySig := map[string]KnownFinding{}
	for _, k := range known {
		if k.Property == p.ID && k.Status == "known" {
			knownBySig[k.Signature] = k
		}
	}
	// Deduplicate violations by signature.
	type group struct {
		v Violation
		n int
	}
	groups := map[string]*group{}
	var order []string
	for _, v := range a.Violations {
		g := groups[v.Signature]
		if g == nil {
			g = &group{v: v}
			groups[v.Signature] = g
			order = append(order, v.Signature)
		}
		g.n++
	}
	sort.Strings(order)
	newViol := 0
	knownMatched := []string{}
	repDir := filepath.Join(Root(), "replays", p.ID)
	for _, sig := range order {
		g := groups[sig]
		if k, ok := knownBySig[sig]; ok {
			fmt.Printf("KNOWN-FINDING: property=%s %s [%s] (seen %dx)\n", p.ID, k.What, sig, g.n)
			knownMatched = append(knownMatched, sig)
			continue
		}
		newViol++
		if newViol > 25 {
			if newViol <= 400 {
				fmt.Printf("  (more) signature: %s (%dx)\n", sig, g.n)
			}
			continue
		}
		os.MkdirAll(repDir, 0o755)
		path := filepath.Join(repDir, fmt.Sprintf("%s-%016x.json", string(a.Tier), Hash64(sig)))
		rep := map[string]interface{}{
			"property": p.ID, "signature": sig, "what": g.v.What, "witness": g.v.Witness,
			"batch": g.v.Batch, "seed": a.Seed, "tier": a.Tier, "count": g.n,
		}
		b, _ := json.MarshalIndent(rep, "", " ")
		os.WriteFile(path, b, 0o644)
		fmt.Printf("VIOLATION property=%s replay=%s\n", p.ID, path)
		fmt.Printf("  signature: %s\n  what: %s\n", sig, g.v.What)
	}
	if newViol > 25 {
		fmt.Printf("... %d more distinct violation signatures not printed\n", newViol-25)
	}
	for _, s := range a.Inconclusive {
		fmt.Printf("INCONCLUSIVE property=%s %s\n", p.ID, s)
	}

	evals := a.Counters["evaluations"]
	distinct := int64(len(a.Distinct)) + a.DistinctN
	floorMissed := false
	if p.MinEvaluations != nil && evals < p.MinEvaluations(a.Tier) {
		floorMissed = true
	}
	if a.BatchesOK < a.Batches && a.BatchesOK*10 < a.Batches*9 {
		floorMissed = true
	}

	// Evidence.
	cov := map[string]interface{}{
		"evaluations":         evals,
		"distinct_nontrivial": distinct,
		"rule":                p.Rule,
		"samples":             a.Samples,
		"batches":             a.Batches,
		"batches_conclusive":  a.BatchesOK,
		"inconclusive":        a.Counters["inconclusive"],
		"known_findings_seen": knownMatched,
	}
	if len(a.Samples) == 0 {
		cov["samples"] = []interface{}{}
	}
	if p.Exhaustive != nil && p.Exhaustive(a.Tier) {
		cov["exhaustive"] = true
	}
	obs := map[string]int64{}
	for k, v := range a.Counters {
		if k != "evaluations" && k != "inconclusive" {
			obs[k] = v
		}
	}
	cov["observed"] = obs
	if len(a.Max) > 0 {
		cov["max"] = a.Max
	}
	sets := map[string][]string{}
	for k, m := range a.Sets {
		for s := range m {
			sets[k] = append(sets[k], s)
		}
		sort.Strings(sets[k])
	}
	if len(sets) > 0 {
		cov["sets"] = sets
	}
	if len(a.RaceReports) > 0 {
		cov["race_reports"] = a.RaceReports
	}
	if len(a.Notes) > 0 {
		n := a.Notes
		if len(n) > 20 {
			n = n[:20]
		}
		cov["notes"] = n
	}
	ev := map[string]interface{}{
		"property_id": p.ID,
		"tier":        string(a.Tier),
		"seed":        a.Seed,
		"level":       p.Level,
		"coverage":    cov,
		"assumptions": p.Assumptions,
		"wall_s":      float64(int(wall.Seconds()*10)) / 10,
		"violations":  newViol,
	}
	os.MkdirAll(filepath.Join(Root(), "evidence"), 0o755)
	b, _ := json.MarshalIndent(ev, "", " ")
	os.WriteFile(filepath.Join(Root(), "evidence", p.ID+".json"), append(b, '\n'), 0o644)

	fmt.Printf("SUMMARY property=%s tier=%s seed=%d evaluations=%d distinct=%d batches=%d/%d inconclusive=%d violations=%d known=%d wall=%.1fs\n",
		p.ID, a.Tier, a.Seed, evals, distinct, a.BatchesOK, a.Batches, a.Counters["inconclusive"], newViol, len(knownMatched), wall.Seconds())
	keys := make([]string, 0, len(obs))
	for k := range obs {
		keys = append(keys, k)
	}
	sort.Strings(keys)
	var sb bytes.Buffer
	for _, k := range keys {
		fmt.Fprintf(&sb, " %s=%d", k, obs[k])
	}
	fmt.Printf("OBSERVED%s\n", sb.String())
	if newViol > 0 {
		return 1
	}
	if floorMissed {
		fmt.Printf("UNDECIDED property=%s: run stayed below its observation floor (evaluations=%d, conclusive batches %d/%d)\n", p.ID, evals, a.BatchesOK, a.Batches)
		return 2
	}
	return 0
}

// Replay re-runs the batch recorded in a replay file.
func Replay(path string) int {
	b, err := os.ReadFile(path)
	if err != nil {
		fmt.Fprintln(os.Stderr, err)
		return 2
	}
	var rep struct {
		Property string `json:"property"`
		Batch    string `json:"batch"`
		Seed     int64  `json:"seed"`
		Tier     Tier   `json:"tier"`
	}
	if err := json.Unmarshal(b, &rep); err != nil {
		fmt.Fprintln(os.Stderr, err)
		return 2
	}
	fmt.Printf("replaying property=%s batch=%s seed=%d tier=%s\n", rep.Property, rep.Batch, rep.Seed, rep.Tier)
	os.Setenv("VERIF_KEEPLOGS", "1")
	return RunProp(rep.Property, rep.Tier, rep.Seed, rep.Batch)
}

// ChildMain is the entry point of `rvmon child`.
func ChildMain(id, batchFile, outFile string) int {
	p := Lookup(id)
	if p == nil {
		fmt.Fprintf(os.Stderr, "unknown property %s\n", id)
		return 2
	}
	var b Batch
	bb, err := os.ReadFile(batchFile)
	if err != nil {
		fmt.Fprintln(os.Stderr, err)
		return 2
	}
	if err := json.Unmarshal(bb, &b); err != nil {
		fmt.Fprintln(os.Stderr, err)
		return 2
	}
	out, err := os.OpenFile(outFile, os.O_CREATE|os.O_WRONLY|os.O_APPEND, 0o644)
	if err != nil {
		fmt.Fprintln(os.Stderr, err)
		return 2
	}
	c := NewCtx(p, b, out)
	p.Run(c, b)
	c.Finish()
	return 0
}
