// Package core is the shared driver/child framework of the runtime monitors.
//
// The driver derives a deterministic list of batches from (seed, tier) and
// executes each batch in a child process. The child runs the real go-res code
// under the property's monitors and reports, as JSON lines, what it observed
// (counters, distinct cases, samples), violations (signature + witness) and
// inconclusive outcomes. The driver aggregates, matches violations against
// /verif/known_findings.json, writes evidence and replay files and decides the
// exit code.
package core

import (
	"encoding/json"
	"fmt"
	"hash/fnv"
	"math/rand"
	"os"
	"sort"
	"sync"
	"time"
)

// Tier is "quick" or "thorough".
type Tier string

const (
	Quick    Tier = "quick"
	Thorough Tier = "thorough"
)

// Batch is one unit of work executed in a child process.
type Batch struct {
	Name     string          `json:"name"`
	Params   json.RawMessage `json:"params,omitempty"`
	Race     bool            `json:"race,omitempty"`      // run with the -race binary
	TimeoutS int             `json:"timeout_s,omitempty"` // outer wall-clock watchdog (inconclusive when it fires)
	Seed     int64           `json:"seed"`
	Tier     Tier            `json:"tier"`
	// CrashOK tells the driver that the child is expected to be killed
	// (SIGKILL fault injection); a missing summary is then not a crash.
	CrashOK bool `json:"crash_ok,omitempty"`
}

// Prop describes one property check.
type Prop struct {
	ID          string
	Level       string // exploration | fault_enumeration
	Rule        string
	Assumptions []string
	// Parallel is the maximum number of children run at once (0 = NumCPU).
	Parallel int
	// Batches derives the deterministic batch list.
	Batches func(seed int64, tier Tier) []Batch
	// Run executes a batch in the child process.
	Run func(c *Ctx, b Batch)
	// Exhaustive reports whether the tier enumerates a finite space completely.
	Exhaustive func(tier Tier) bool
	// MinEvaluations is the floor below which a run "decided nothing".
	MinEvaluations func(tier Tier) int64
	// Post is run in the driver after all batches, with the aggregate. It can
	// add violations (e.g. a hook point that was never reached).
	Post func(a *Aggregate)
}

var registry = map[string]*Prop{}

// Register adds a property to the registry.
func Register(p *Prop) { registry[p.ID] = p }

// Lookup returns a registered property.
func Lookup(id string) *Prop { return registry[id] }

// IDs returns the sorted ids of all registered properties.
func IDs() []string {
	var ids []string
	for id := range registry {
		ids = append(ids, id)
	}
	sort.Strings(ids)
	return ids
}

// Params marshals v for use as Batch.Params.
func Params(v interface{}) json.RawMessage {
	b, err := json.Marshal(v)
	if err != nil {
		panic(err)
	}
	return b
}

// Violation is a refuted property instance.
type Violation struct {
	Property  string      `json:"property"`
	Signature string      `json:"signature"`
	What      string      `json:"what"`
	Witness   interface{} `json:"witness,omitempty"`
	Batch     string      `json:"batch,omitempty"`
}

// record is one JSON line written by the child.
type record struct {
	T         string              `json:"t"` // viol | inc | sum | note
	Violation *Violation          `json:"violation,omitempty"`
	Reason    string              `json:"reason,omitempty"`
	Counters  map[string]int64    `json:"counters,omitempty"`
	Max       map[string]int64    `json:"max,omitempty"`
	Distinct  []uint64            `json:"distinct,omitempty"`
	DistinctN int64               `json:"distinct_n,omitempty"`
	Samples   []json.RawMessage   `json:"samples,omitempty"`
	Sets      map[string][]string `json:"sets,omitempty"`
}

// Ctx is the child-side reporting context. All methods are safe for
// concurrent use.
type Ctx struct {
	Prop  *Prop
	Batch Batch
	Rand  *rand.Rand // only to be used from the batch's main goroutine

	mu        sync.Mutex
	out       *os.File
	counters  map[string]int64
	max       map[string]int64
	distinct  map[uint64]struct{}
	distinctN int64
	samples   []json.RawMessage
	sets      map[string]map[string]struct{}
	nviol     int
	violSigs  map[string]int
	start     time.Time

	// SuppressFunctional makes Violation only count (used by C16, which decides
	// on race detector reports and reuses the workloads of other properties).
	SuppressFunctional bool
}

const maxDistinctPerBatch = 400000
const maxSamplesPerBatch = 4
const maxViolationsPerSig = 3

// NewCtx creates a child context writing to the given file.
func NewCtx(p *Prop, b Batch, out *os.File) *Ctx {
	return &Ctx{
		Prop:     p,
		Batch:    b,
		Rand:     rand.New(rand.NewSource(SubSeed(b.Seed, b.Name))),
		out:      out,
		counters: map[string]int64{},
		max:      map[string]int64{},
		distinct: map[uint64]struct{}{},
		sets:     map[string]map[string]struct{}{},
		violSigs: map[string]int{},
		start:    time.Now(),
	}
}

// SubSeed derives a seed from a seed and a string.
func SubSeed(seed int64, s string) int64 {
	h := fnv.New64a()
	fmt.Fprintf(h, "%d/%s", seed, s)
	return int64(h.Sum64() & 0x7fffffffffffffff)
}

// Hash64 hashes a string.
func Hash64(s string) uint64 {
	h := fnv.New64a()
	h.Write([]byte(s))
	return h.Sum64()
}

// Eval counts n evaluations.
func (c *Ctx) Eval(n int64) { c.Obs("evaluations", n) }

// Counter returns the current value of a named counter.
func (c *Ctx) Counter(key string) int64 {
	c.mu.Lock()
	defer c.mu.Unlock()
	return c.counters[key]
}

// Obs adds n to a named counter.
func (c *Ctx) Obs(key string, n int64) {
	c.mu.Lock()
	c.counters[key] += n
	c.mu.Unlock()
}

// Max records the maximum of a named gauge.
func (c *Ctx) Max(key string, v int64) {
	c.mu.Lock()
	if v > c.max[key] {
		c.max[key] = v
	}
	c.mu.Unlock()
}

// Distinct records a distinct non-trivial case identified by key.
func (c *Ctx) Distinct(key string) {
	h := Hash64(key)
	c.mu.Lock()
	if len(c.distinct) < maxDistinctPerBatch {
		c.distinct[h] = struct{}{}
	}
	c.mu.Unlock()
}

// ResetDistinct forgets the distinct cases recorded so far (used when a
// workload of another property is reused and counts by its own rule).
func (c *Ctx) ResetDistinct() {
	c.mu.Lock()
	c.distinct = map[uint64]struct{}{}
	c.distinctN = 0
	c.mu.Unlock()
}

// DistinctN adds n cases that are distinct by construction (disjoint across
// batches and within the batch), for enumerations too large to hash.
func (c *Ctx) DistinctN(n int64) {
	c.mu.Lock()
	c.distinctN += n
	c.mu.Unlock()
}

// SetAdd adds a member to a named small set reported in the evidence (e.g.
// hook points hit, error codes seen).
func (c *Ctx) SetAdd(set, member string) {
	c.mu.Lock()
	m := c.sets[set]
	if m == nil {
		m = map[string]struct{}{}
		c.sets[set] = m
	}
	if len(m) < 200 {
		m[member] = struct{}{}
	}
	c.mu.Unlock()
}

// Sample keeps a written-out case for the evidence file.
func (c *Ctx) Sample(v interface{}) {
	c.mu.Lock()
	defer c.mu.Unlock()
	if len(c.samples) >= maxSamplesPerBatch {
		return
	}
	b, err := json.Marshal(v)
	if err != nil {
		b, _ = json.Marshal(fmt.Sprintf("%+v", v))
	}
	if len(b) > 2000 {
		b, _ = json.Marshal(string(b[:2000]) + "...")
	}
	c.samples = append(c.samples, b)
}

// WantSample reports whether more samples are wanted (to avoid building them).
func (c *Ctx) WantSample() bool {
	c.mu.Lock()
	defer c.mu.Unlock()
	return len(c.samples) < maxSamplesPerBatch
}

// Violation reports a violation immediately (it survives a later crash).
func (c *Ctx) Violation(sig, what string, witness interface{}) {
	c.mu.Lock()
	defer c.mu.Unlock()
	if c.SuppressFunctional {
		c.counters["functional_violations_of_other_properties_suppressed"]++
		fmt.Fprintf(os.Stderr, "SUPPRESSED %s: %s\n", sig, what)
		return
	}
	c.nviol++
	c.violSigs[sig]++
	if c.violSigs[sig] > maxViolationsPerSig {
		return
	}
	// Make sure the witness is marshalable.
	if _, err := json.Marshal(witness); err != nil {
		witness = fmt.Sprintf("%+v", witness)
	}
	c.write(record{T: "viol", Violation: &Violation{
		Property: c.Prop.ID, Signature: sig, What: what, Witness: witness, Batch: c.Batch.Name,
	}})
}

// Violations returns the number of violations reported so far.
func (c *Ctx) Violations() int {
	c.mu.Lock()
	defer c.mu.Unlock()
	return c.nviol
}

// Inconclusive reports an inconclusive outcome.
func (c *Ctx) Inconclusive(reason string) {
	c.mu.Lock()
	defer c.mu.Unlock()
	c.counters["inconclusive"]++
	c.write(record{T: "inc", Reason: reason})
}

// Note writes a free-form note into the child log.
func (c *Ctx) Note(format string, a ...interface{}) {
	fmt.Fprintf(os.Stderr, "NOTE "+format+"\n", a...)
}

func (c *Ctx) write(r record) {
	b, err := json.Marshal(r)
	if err != nil {
		b, _ = json.Marshal(record{T: "note", Reason: "marshal error: " + err.Error()})
	}
	c.out.Write(append(b, '\n'))
}

// Abort ends the child after a violation that leaves the code under test deadlocked:
// nothing that waits for it could complete, so the summary is written and the process
// exits instead of running into the batch watchdog.
func (c *Ctx) Abort() {
	c.Finish()
	os.Exit(0)
}

// Finish writes the summary record.
func (c *Ctx) Finish() {
	c.mu.Lock()
	defer c.mu.Unlock()
	r := record{T: "sum", Counters: c.counters, Max: c.max, DistinctN: c.distinctN, Samples: c.samples}
	for h := range c.distinct {
		r.Distinct = append(r.Distinct, h)
	}
	r.Sets = map[string][]string{}
	for k, m := range c.sets {
		for s := range m {
			r.Sets[k] = append(r.Sets[k], s)
		}
		sort.Strings(r.Sets[k])
	}
	c.write(r)
	c.out.Sync()
}
