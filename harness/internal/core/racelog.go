package core

import (
	"os"
	"path/filepath"
	"regexp"
	"sort"
	"strings"
)

// RaceReport is one parsed and classified race detector report.
type RaceReport struct {
	Class     string // library | group-hb | harness | dependency
	Signature string
	Text      string
}

var reAccessHead = regexp.MustCompile(`^(Previous )?(atomic )?(read|write|Read|Write|Atomic read|Atomic write) at 0x[0-9a-f]+ by `)

type raceFrame struct {
	fn   string
	file string
}

const modLib = "github.com/jirenius/go-res"
const modHarness = "verif/harness"

func frameOwner(fn string) byte {
	switch {
	case strings.HasPrefix(fn, modLib+".") || strings.HasPrefix(fn, modLib+"/"):
		return 'L'
	case strings.HasPrefix(fn, modHarness+"/") || strings.HasPrefix(fn, "main."):
		return 'H'
	}
	// stdlib / runtime: first path element has no dot
	first := fn
	if i := strings.IndexByte(fn, '/'); i >= 0 {
		first = fn[:i]
	}
	if !strings.Contains(first, ".") || strings.HasPrefix(fn, "runtime.") {
		return 'S'
	}
	if i := strings.IndexByte(fn, '/'); i < 0 {
		return 'S' // e.g. "sync.(*Mutex).Lock"
	}
	return 'D'
}

var reStripGeneric = regexp.MustCompile(`\[[^\]]*\]`)
var reFuncN = regexp.MustCompile(`\.func\d+(\.\d+)*`)

func normFn(fn string) string {
	fn = reStripGeneric.ReplaceAllString(fn, "")
	fn = reFuncN.ReplaceAllString(fn, ".func")
	fn = strings.TrimPrefix(fn, modLib)
	return fn
}

// parseRaceLogs reads all race.* files in dir.
func parseRaceLogs(dir string) []RaceReport {
	files, _ := filepath.Glob(filepath.Join(dir, "race.*"))
	var out []RaceReport
	seen := map[string]bool{}
	for _, f := range files {
		b, err := os.ReadFile(f)
		if err != nil {
			continue
		}
		for _, rr := range ParseRaceText(string(b)) {
			if seen[rr.Class+rr.Signature] {
				continue
			}
			seen[rr.Class+rr.Signature] = true
			out = append(out, rr)
		}
	}
	return out
}

// ParseRaceText parses the text of race detector output.
func ParseRaceText(text string) []RaceReport {
	var out []RaceReport
	parts := strings.Split(text, "WARNING: DATA RACE")
	for _, part := range parts[1:] {
		if i := strings.Index(part, "=================="); i >= 0 {
			part = part[:i]
		}
		lines := strings.Split(part, "\n")
		var accesses [][]raceFrame
		var cur []raceFrame
		in := false
		for i := 0; i < len(lines); i++ {
			ln := lines[i]
			if reAccessHead.MatchString(ln) {
				if in {
					accesses = append(accesses, cur)
				}
				cur = nil
				in = true
				continue
			}
			if !in {
				continue
			}
			if strings.TrimSpace(ln) == "" {
				accesses = append(accesses, cur)
				cur = nil
				in = false
				continue
			}
			if strings.HasPrefix(ln, "  ") && !strings.HasPrefix(ln, "      ") {
				fn := strings.TrimSpace(ln)
				if j := strings.LastIndex(fn, "("); j > 0 {
					fn = fn[:j]
				}
				file := ""
				if i+1 < len(lines) {
					file = strings.TrimSpace(lines[i+1])
				}
				cur = append(cur, raceFrame{fn: fn, file: file})
			}
		}
		if in {
			accesses = append(accesses, cur)
		}
		if len(accesses) > 2 {
			accesses = accesses[:2]
		}
		var owners []byte
		var names []string
		scratch := 0
		for _, acc := range accesses {
			o := byte('S')
			name := "?"
			for _, fr := range acc {
				fo := frameOwner(fr.fn)
				if fo == 'S' {
					continue
				}
				o = fo
				name = normFn(fr.fn)
				if strings.Contains(fr.file, "groupscratch.go") {
					scratch++
				}
				break
			}
			owners = append(owners, o)
			names = append(names, name)
		}
		sort.Strings(names)
		sig := strings.Join(names, "|")
		class := "dependency"
		hasL, allH := false, len(owners) > 0
		for _, o := range owners {
			if o == 'L' {
				hasL = true
			}
			if o != 'H' {
				allH = false
			}
		}
		switch {
		case hasL:
			class = "library"
		case allH && scratch == len(owners):
			class = "group-hb"
		case allH:
			class = "harness"
		}
		txt := part
		if len(txt) > 4000 {
			txt = txt[:4000]
		}
		out = append(out, RaceReport{Class: class, Signature: sig, Text: txt})
	}
	return out
}
