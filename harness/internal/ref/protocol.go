package ref

import (
	"bytes"
	"encoding/json"
	"fmt"
	"regexp"
	"strings"
)

// Protocol validator written from the RES service protocol document
// (res-service-protocol.md v1.2), independent of go-res' codec.go.

var rePreResponse = regexp.MustCompile(`^timeout:"[0-9]+"$`)

// IsPreResponse tells whether a payload has the pre-response form key:"value".
func IsPreResponse(data []byte) bool {
	return len(data) > 0 && ((data[0]|32) >= 'a' && (data[0]|32) <= 'z')
}

// ValidSubjectToken: non-empty, no whitespace, not a wildcard.
func validPublishSubject(s string) bool {
	if s == "" || strings.ContainsAny(s, " \t\r\n") {
		return false
	}
	for _, t := range strings.Split(s, ".") {
		if t == "" || t == "*" || t == ">" {
			return false
		}
	}
	return true
}

func decodeObject(data []byte) (map[string]json.RawMessage, error) {
	var m map[string]json.RawMessage
	dec := json.NewDecoder(bytes.NewReader(data))
	if err := dec.Decode(&m); err != nil {
		return nil, err
	}
	if dec.More() {
		return nil, fmt.Errorf("trailing data")
	}
	if m == nil {
		return nil, fmt.Errorf("not a JSON object")
	}
	return m, nil
}

func isJSONString(r json.RawMessage) bool {
	var s string
	return json.Unmarshal(r, &s) == nil && len(bytes.TrimSpace(r)) > 0 && bytes.TrimSpace(r)[0] == '"'
}

func isJSONInt(r json.RawMessage, min int64) bool {
	var n json.Number
	if err := json.Unmarshal(r, &n); err != nil {
		return false
	}
	if b := bytes.TrimSpace(r); len(b) == 0 || b[0] == '"' {
		return false
	}
	v, err := n.Int64()
	return err == nil && v >= min
}

func isStringList(r json.RawMessage) bool {
	var l []json.RawMessage
	if err := json.Unmarshal(r, &l); err != nil || l == nil {
		return false
	}
	for _, e := range l {
		if !isJSONString(e) {
			return false
		}
	}
	return true
}

// ValidateGetResult checks the result of a successful get response of a resource of the
// given type ("model" or "collection"): a model is a JSON object, a collection a JSON
// array (never null), an optional query is a non-empty string, and nothing else is there.
func ValidateGetResult(data []byte, typ string) []string {
	m, err := decodeObject(data)
	if err != nil {
		return []string{"response is not a JSON object"}
	}
	res, ok := m["result"]
	if !ok {
		return nil // an error or resource response: not a get result
	}
	ro, err := decodeObject(res)
	if err != nil {
		return []string{"get result is not an object"}
	}
	var probs []string
	v, ok := ro[typ]
	if !ok {
		probs = append(probs, "get result has no "+typ+" member")
	} else {
		t := bytes.TrimSpace(v)
		switch {
		case typ == "model" && (len(t) == 0 || t[0] != '{'):
			probs = append(probs, "model is not a JSON object")
		case typ == "collection" && (len(t) == 0 || t[0] != '['):
			probs = append(probs, "collection is not a JSON array")
		}
	}
	for k, x := range ro {
		switch k {
		case typ:
		case "query":
			var q string
			if json.Unmarshal(x, &q) != nil || q == "" {
				probs = append(probs, "query is not a non-empty string")
			}
		default:
			probs = append(probs, "unexpected get result member "+k)
		}
	}
	return probs
}

// ValidateResponse checks a response payload. isHTTP tells whether the request
// was flagged as HTTP (only then meta is allowed).
func ValidateResponse(data []byte, isHTTP bool) []string {
	var probs []string
	m, err := decodeObject(data)
	if err != nil {
		return []string{"response is not a JSON object: " + err.Error()}
	}
	n := 0
	for k, v := range m {
		switch k {
		case "result":
			n++
		case "resource":
			n++
			ro, err := decodeObject(v)
			if err != nil {
				probs = append(probs, "resource member is not an object")
				break
			}
			rid, ok := ro["rid"]
			var s string
			if !ok || !isJSONString(rid) || json.Unmarshal(rid, &s) != nil || !ValidRID(s) {
				probs = append(probs, "resource.rid is not a valid resource id")
			}
		case "error":
			n++
			eo, err := decodeObject(v)
			if err != nil {
				probs = append(probs, "error member is not an object")
				break
			}
			if c, ok := eo["code"]; !ok || !isJSONString(c) {
				probs = append(probs, "error.code is not a string")
			}
			if c, ok := eo["message"]; !ok || !isJSONString(c) {
				probs = append(probs, "error.message is not a string")
			}
			for ek := range eo {
				if ek != "code" && ek != "message" && ek != "data" {
					probs = append(probs, "unexpected error member "+ek)
				}
			}
		case "meta":
			if !isHTTP {
				probs = append(probs, "meta on a response to a request not flagged as HTTP")
			}
			mo, err := decodeObject(v)
			if err != nil {
				probs = append(probs, "meta is not an object")
				break
			}
			for mk, mv := range mo {
				switch mk {
				case "status":
					if !isJSONInt(mv, 0) {
						probs = append(probs, "meta.status is not an integer")
					}
				case "header":
					ho, err := decodeObject(mv)
					if err != nil {
						probs = append(probs, "meta.header is not an object")
						break
					}
					for _, hv := range ho {
						if !isStringList(hv) {
							probs = append(probs, "meta.header value is not a list of strings")
						}
					}
				default:
					probs = append(probs, "unexpected meta member "+mk)
				}
			}
		default:
			probs = append(probs, "unexpected response member "+k)
		}
	}
	if n != 1 {
		probs = append(probs, fmt.Sprintf("response has %d of result/resource/error, want exactly one", n))
	}
	return probs
}

// ValidateEvent checks the payload of an event.<rname>.<event> message.
func ValidateEvent(event string, data []byte) []string {
	var probs []string
	switch event {
	case "change":
		m, err := decodeObject(data)
		if err != nil {
			return []string{"change event payload is not an object"}
		}
		v, ok := m["values"]
		if !ok {
			return []string{"change event without values"}
		}
		if _, err := decodeObject(v); err != nil {
			probs = append(probs, "change event values is not an object")
		}
	case "add":
		m, err := decodeObject(data)
		if err != nil {
			return []string{"add event payload is not an object"}
		}
		if _, ok := m["value"]; !ok {
			probs = append(probs, "add event without value")
		}
		if idx, ok := m["idx"]; !ok || !isJSONInt(idx, 0) {
			probs = append(probs, "add event idx is not a non-negative integer")
		}
	case "remove":
		m, err := decodeObject(data)
		if err != nil {
			return []string{"remove event payload is not an object"}
		}
		if idx, ok := m["idx"]; !ok || !isJSONInt(idx, 0) {
			probs = append(probs, "remove event idx is not a non-negative integer")
		}
	case "create", "delete", "reaccess":
		if len(data) != 0 && string(data) != "null" {
			probs = append(probs, event+" event with payload")
		}
	case "query":
		m, err := decodeObject(data)
		if err != nil {
			return []string{"query event payload is not an object"}
		}
		var s string
		if sv, ok := m["subject"]; !ok || json.Unmarshal(sv, &s) != nil || !validPublishSubject(s) {
			probs = append(probs, "query event subject is not a valid subject")
		}
	case "patch", "unsubscribe":
		probs = append(probs, "reserved event name "+event)
	default:
		if len(data) > 0 && !json.Valid(data) {
			probs = append(probs, "custom event payload is not valid JSON")
		}
	}
	return probs
}

// MsgCtx is what the validator needs to know about outstanding requests.
type MsgCtx struct {
	// Inboxes maps reply subjects of requests to their isHTTP flag.
	Inboxes func(subject string) (isHTTP bool, ok bool)
}

// ValidateMessage classifies a published message by its subject and checks
// its payload. It returns the kind and a list of problems.
func ValidateMessage(subject string, data []byte, ctx MsgCtx) (kind string, probs []string) {
	if !validPublishSubject(subject) {
		return "invalid-subject", []string{"invalid NATS publish subject"}
	}
	if ctx.Inboxes != nil {
		if isHTTP, ok := ctx.Inboxes(subject); ok {
			if IsPreResponse(data) {
				if !rePreResponse.Match(data) {
					return "pre-response", []string{"malformed pre-response"}
				}
				return "pre-response", nil
			}
			return "response", ValidateResponse(data, isHTTP)
		}
	}
	toks := strings.Split(subject, ".")
	switch {
	case toks[0] == "event" && len(toks) >= 3:
		rname := strings.Join(toks[1:len(toks)-1], ".")
		ev := toks[len(toks)-1]
		if !ValidName(rname) || !ValidNamePart(ev) {
			return "event", []string{"event subject with invalid resource name or event name"}
		}
		return "event:" + evKind(ev), ValidateEvent(ev, data)
	case subject == "system.reset":
		m, err := decodeObject(data)
		if err != nil {
			return "system.reset", []string{"payload is not an object"}
		}
		n := 0
		for k, v := range m {
			if k != "resources" && k != "access" {
				probs = append(probs, "unexpected member "+k)
				continue
			}
			var l []string
			if !isStringList(v) || json.Unmarshal(v, &l) != nil {
				probs = append(probs, k+" is not a list of strings")
				continue
			}
			n += len(l)
			for _, p := range l {
				if PatternValidity(p) != 1 || p == "" {
					probs = append(probs, fmt.Sprintf("%s contains invalid pattern %q", k, p))
				}
			}
		}
		if n == 0 {
			probs = append(probs, "system.reset without any pattern")
		}
		return "system.reset", probs
	case subject == "system.tokenReset":
		m, err := decodeObject(data)
		if err != nil {
			return "system.tokenReset", []string{"payload is not an object"}
		}
		var tids []string
		if v, ok := m["tids"]; !ok || !isStringList(v) || json.Unmarshal(v, &tids) != nil || len(tids) == 0 {
			probs = append(probs, "tids is not a non-empty list of strings")
		}
		var s string
		if v, ok := m["subject"]; !ok || !isJSONString(v) || json.Unmarshal(v, &s) != nil || !validPublishSubject(s) {
			probs = append(probs, "subject is not a valid subject")
		}
		return "system.tokenReset", probs
	case toks[0] == "conn" && len(toks) == 3 && toks[2] == "token":
		if !ValidNamePart(toks[1]) {
			probs = append(probs, "invalid connection id")
		}
		m, err := decodeObject(data)
		if err != nil {
			return "conn.token", append(probs, "payload is not an object")
		}
		if _, ok := m["token"]; !ok {
			probs = append(probs, "token member missing")
		}
		for k, v := range m {
			switch k {
			case "token":
			case "tid":
				if !isJSONString(v) {
					probs = append(probs, "tid is not a string")
				}
			default:
				probs = append(probs, "unexpected member "+k)
			}
		}
		return "conn.token", probs
	}
	return "unknown", []string{"subject is not of a documented form"}
}

func evKind(ev string) string {
	switch ev {
	case "change", "add", "remove", "create", "delete", "reaccess", "query":
		return ev
	}
	return "custom"
}

// IsRESValue reports whether raw is a RES value as the protocol defines it: a
// primitive, a reference {"rid":...}, a soft reference {"rid":...,"soft":true},
// a data value {"data":...} or, where allowed, the delete action.
func IsRESValue(raw json.RawMessage, allowDelete bool) bool {
	raw = bytes.TrimSpace(raw)
	if len(raw) == 0 || !json.Valid(raw) {
		return false
	}
	switch raw[0] {
	case '[':
		return false
	case '{':
		m, err := decodeObject(raw)
		if err != nil {
			return false
		}
		var s string
		var b bool
		switch {
		case len(m) == 1 && m["data"] != nil:
			return true
		case len(m) == 1 && m["rid"] != nil:
			return json.Unmarshal(m["rid"], &s) == nil
		case len(m) == 2 && m["rid"] != nil && m["soft"] != nil:
			return json.Unmarshal(m["rid"], &s) == nil && json.Unmarshal(m["soft"], &b) == nil
		case len(m) == 1 && m["action"] != nil:
			return allowDelete && json.Unmarshal(m["action"], &s) == nil && s == "delete"
		}
		return false
	}
	return true
}

// ValidateEventValues checks that the values carried by a change or add event
// are RES values (for events the library builds itself from stored values).
func ValidateEventValues(event string, data []byte) []string {
	m, err := decodeObject(data)
	if err != nil {
		return nil
	}
	var probs []string
	switch event {
	case "change":
		vals, err := decodeObject(m["values"])
		if err != nil {
			return nil
		}
		for k, v := range vals {
			if !IsRESValue(v, true) {
				probs = append(probs, fmt.Sprintf("change event value of %q is not a RES value: %s", k, v))
			}
		}
	case "add":
		if v, ok := m["value"]; ok && !IsRESValue(v, false) {
			probs = append(probs, fmt.Sprintf("add event value is not a RES value: %s", v))
		}
	}
	return probs
}
