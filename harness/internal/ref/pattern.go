// Package ref holds small, independent reference models written from the
// documentation of go-res and the RES protocol, not from the implementation.
package ref

import "strings"

// Tokens splits s at dots. The empty string has no tokens.
func Tokens(s string) []string {
	if s == "" {
		return nil
	}
	return strings.Split(s, ".")
}

func validChar(c byte) bool { return c >= 33 && c <= 126 && c != '?' }

// TokKind classifies a pattern token.
type TokKind int

const (
	TokInvalid TokKind = iota
	TokLiteral
	TokTag  // $name
	TokAnon // *
	TokFull // >
	// TokUnspecified: tokens made only of two or more '$' characters. The
	// documentation does not say whether "$$" is a tag named "$"; the
	// implementation rejects "$$" but accepts "$$a". Skipped by the oracles.
	TokUnspecified
)

// ClassifyToken classifies one dot-separated token of a pattern.
func ClassifyToken(t string) TokKind {
	if t == "" {
		return TokInvalid
	}
	for i := 0; i < len(t); i++ {
		if !validChar(t[i]) {
			return TokInvalid
		}
		if i > 0 && (t[i] == '*' || t[i] == '>') {
			return TokInvalid
		}
	}
	switch t[0] {
	case '*':
		if len(t) == 1 {
			return TokAnon
		}
		return TokInvalid
	case '>':
		if len(t) == 1 {
			return TokFull
		}
		return TokInvalid
	case '$':
		if len(t) == 1 {
			return TokInvalid
		}
		if strings.Trim(t, "$") == "" {
			return TokUnspecified
		}
		return TokTag
	}
	return TokLiteral
}

// PatternValidity: 1 valid, 0 invalid, -1 unspecified.
func PatternValidity(p string) int {
	if p == "" {
		return 1
	}
	toks := strings.Split(p, ".")
	unspec := false
	for i, t := range toks {
		switch ClassifyToken(t) {
		case TokInvalid:
			return 0
		case TokFull:
			if i != len(toks)-1 {
				return 0
			}
		case TokUnspecified:
			unspec = true
		}
	}
	if unspec {
		return -1
	}
	return 1
}

// HasWildcard reports whether a valid pattern contains $tag, * or >.
func HasWildcard(p string) bool {
	for _, t := range Tokens(p) {
		if k := ClassifyToken(t); k == TokTag || k == TokAnon || k == TokFull {
			return true
		}
	}
	return false
}

// HasAnon reports whether a valid pattern contains * or >.
func HasAnon(p string) bool {
	for _, t := range Tokens(p) {
		if k := ClassifyToken(t); k == TokAnon || k == TokFull {
			return true
		}
	}
	return false
}

// IndexWildcard returns the byte index of the first wildcard token or -1.
func IndexWildcard(p string) int {
	off := 0
	for _, t := range Tokens(p) {
		if k := ClassifyToken(t); k == TokTag || k == TokAnon || k == TokFull {
			return off
		}
		off += len(t) + 1
	}
	return -1
}

// ValidNamePart: a non-empty token usable as a resource name part / method /
// event name / connection id.
func ValidNamePart(s string) bool {
	if s == "" {
		return false
	}
	for i := 0; i < len(s); i++ {
		c := s[i]
		if c < 33 || c > 126 || c == '?' || c == '*' || c == '>' || c == '.' {
			return false
		}
	}
	return true
}

// ValidName: a resource name - one or more dot separated valid name parts.
func ValidName(s string) bool {
	if s == "" {
		return false
	}
	for _, t := range strings.Split(s, ".") {
		if !ValidNamePart(t) {
			return false
		}
	}
	return true
}

// ValidRID: resource name optionally followed by ?query.
func ValidRID(s string) bool {
	if i := strings.IndexByte(s, '?'); i >= 0 {
		s = s[:i]
	}
	return ValidName(s)
}

// ValidPath: empty, or a valid pattern without wildcards.
func ValidPath(s string) int {
	if s == "" {
		return 1
	}
	v := PatternValidity(s)
	if v != 1 {
		return v
	}
	if HasWildcard(s) {
		return 0
	}
	return 1
}

// Match matches a valid pattern against a name (or against another valid
// pattern: then it decides whether every name of q matches p).
func Match(p, q string) (map[string]string, bool) {
	pt, qt := Tokens(p), Tokens(q)
	var vals map[string]string
	for i, t := range pt {
		k := ClassifyToken(t)
		if k == TokFull {
			// matches one or more remaining tokens
			if i >= len(qt) {
				return nil, false
			}
			return vals, true
		}
		if i >= len(qt) {
			return nil, false
		}
		u := qt[i]
		if u == ">" {
			// the other pattern's full wildcard is only covered by a full wildcard
			return nil, false
		}
		switch k {
		case TokTag:
			if vals == nil {
				vals = map[string]string{}
			}
			vals[t[1:]] = u
		case TokAnon:
		default:
			if t != u {
				return nil, false
			}
		}
	}
	if len(qt) != len(pt) {
		return nil, false
	}
	return vals, true
}

// ReplaceTags substitutes $tag tokens whose name is in m.
func ReplaceTags(p string, m map[string]string) string {
	if p == "" {
		return p
	}
	toks := strings.Split(p, ".")
	for i, t := range toks {
		if len(t) > 1 && t[0] == '$' {
			if v, ok := m[t[1:]]; ok {
				toks[i] = v
			}
		}
	}
	return strings.Join(toks, ".")
}

// EnumStrings enumerates all strings over alphabet with length <= maxLen in a
// fixed order and calls f with each string's ordinal.
func EnumStrings(alphabet string, maxLen int, f func(idx int, s string)) int {
	idx := 0
	var buf []byte
	var rec func(l int)
	rec = func(l int) {
		f(idx, string(buf))
		idx++
		if l == maxLen {
			return
		}
		for i := 0; i < len(alphabet); i++ {
			buf = append(buf, alphabet[i])
			rec(l + 1)
			buf = buf[:len(buf)-1]
		}
	}
	rec(0)
	return idx
}
