package ref

import (
	"regexp"
	"strings"
)

// Route is one registered handler in the reference router, identified by its
// full pattern (service name and mount paths included).
type Route struct {
	Pattern   string   // full pattern
	Marker    string   // handler identity
	Group     string   // group template ("" = none)
	Parallel  bool     // Parallel handler (group is empty)
	Listeners []string // identities of listeners registered on the same pattern
}

// Canon replaces every placeholder by * so that conflicting patterns compare
// equal.
func Canon(p string) string {
	toks := Tokens(p)
	for i, t := range toks {
		if k := ClassifyToken(t); k == TokTag || k == TokAnon {
			toks[i] = "*"
		}
	}
	return strings.Join(toks, ".")
}

func rank(t string) int {
	switch ClassifyToken(t) {
	case TokFull:
		return 0
	case TokTag, TokAnon:
		return 1
	}
	return 2
}

// MoreSpecific reports whether pattern p is more specific than q, comparing
// token by token from the left: literal beats placeholder beats full wildcard.
func MoreSpecific(p, q string) bool {
	pt, qt := Tokens(p), Tokens(q)
	for i := 0; i < len(pt) && i < len(qt); i++ {
		if rp, rq := rank(pt[i]), rank(qt[i]); rp != rq {
			return rp > rq
		}
	}
	return false
}

var reGroupTag = regexp.MustCompile(`\$\{([A-Za-z0-9_-]+)\}`)

// Lookup returns the most specific route matching the resource name, the
// path parameters and the group id.
func Lookup(routes []Route, name string) (rt *Route, params map[string]string, group string) {
	for i := range routes {
		r := &routes[i]
		vals, ok := Match(r.Pattern, name)
		if !ok {
			continue
		}
		if rt == nil || MoreSpecific(r.Pattern, rt.Pattern) {
			rt, params = r, vals
		}
	}
	if rt == nil {
		return nil, nil, ""
	}
	switch {
	case rt.Parallel:
		group = ""
	case rt.Group == "":
		group = name
	default:
		group = reGroupTag.ReplaceAllStringFunc(rt.Group, func(m string) string {
			return params[m[2:len(m)-1]]
		})
	}
	return rt, params, group
}

// ValidGroupTemplate tells whether a group template is well formed for the
// pattern: every ${tag} names a placeholder of the pattern.
func ValidGroupTemplate(group, pattern string) bool {
	tags := map[string]bool{}
	for _, t := range Tokens(pattern) {
		if ClassifyToken(t) == TokTag {
			tags[t[1:]] = true
		}
	}
	rest := reGroupTag.ReplaceAllStringFunc(group, func(m string) string {
		if !tags[m[2:len(m)-1]] {
			return "$"
		}
		return ""
	})
	return !strings.Contains(rest, "$")
}
