// Package mon holds small thread-safe monitor primitives shared by the
// property checks: a global sequence counter (one total order for all
// observations of a process), goroutine ids, occupancy counters and goroutine
// profile probes.
package mon

import (
	"bytes"
	"runtime"
	"runtime/pprof"
	"strconv"
	"strings"
	"sync"
	"sync/atomic"
)

var seq int64

// Seq returns the next global sequence number.
func Seq() int64 { return atomic.AddInt64(&seq, 1) }

// Now returns the current value of the sequence counter without advancing it.
func Now() int64 { return atomic.LoadInt64(&seq) }

// GoID returns the id of the calling goroutine.
func GoID() int64 {
	var buf [64]byte
	n := runtime.Stack(buf[:], false)
	// "goroutine 123 [running]:"
	b := buf[:n]
	b = bytes.TrimPrefix(b, []byte("goroutine "))
	i := bytes.IndexByte(b, ' ')
	if i < 0 {
		return -1
	}
	id, _ := strconv.ParseInt(string(b[:i]), 10, 64)
	return id
}

// Occupancy counts how many callbacks of a group are executing.
type Occupancy struct {
	mu   sync.Mutex
	occ  map[string]*occEntry
	viol func(group string, a, b string)
	// MaxSeen is the maximum occupancy observed for any exempt (parallel) group.
	overlaps int64
	entries  int64
}

type occEntry struct {
	n     int32
	owner string
}

// NewOccupancy creates an occupancy monitor; viol is called when two
// callbacks of one group overlap.
func NewOccupancy(viol func(group, first, second string)) *Occupancy {
	return &Occupancy{occ: map[string]*occEntry{}, viol: viol}
}

// Enter marks entry of callback id into group. exempt groups only count
// overlaps.
func (o *Occupancy) Enter(group, id string, exempt bool) {
	o.mu.Lock()
	e := o.occ[group]
	if e == nil {
		e = &occEntry{}
		o.occ[group] = e
	}
	e.n++
	o.entries++
	n := e.n
	first := e.owner
	if n == 1 {
		e.owner = id
	}
	o.mu.Unlock()
	if n > 1 {
		if exempt {
			atomic.AddInt64(&o.overlaps, 1)
		} else {
			o.viol(group, first, id)
		}
	}
}

// Exit marks the exit of a callback from group.
func (o *Occupancy) Exit(group string) {
	o.mu.Lock()
	if e := o.occ[group]; e != nil {
		e.n--
		if e.n == 0 {
			delete(o.occ, group)
		}
	}
	o.mu.Unlock()
}

// Overlaps returns the number of overlaps seen on exempt groups.
func (o *Occupancy) Overlaps() int64 { return atomic.LoadInt64(&o.overlaps) }

// Entries returns the number of Enter calls.
func (o *Occupancy) Entries() int64 {
	o.mu.Lock()
	defer o.mu.Unlock()
	return o.entries
}

// Active returns the number of groups currently occupied.
func (o *Occupancy) Active() int {
	o.mu.Lock()
	defer o.mu.Unlock()
	return len(o.occ)
}

// GoroutineStacks returns the stacks of all goroutines (debug=2 format split
// into one string per goroutine).
func GoroutineStacks() []string {
	var buf bytes.Buffer
	pprof.Lookup("goroutine").WriteTo(&buf, 2)
	return strings.Split(strings.TrimSpace(buf.String()), "\n\n")
}

// CountGoroutines counts goroutines whose stack contains all the substrings.
func CountGoroutines(subs ...string) int {
	n := 0
	for _, g := range GoroutineStacks() {
		ok := true
		for _, s := range subs {
			if !strings.Contains(g, s) {
				ok = false
				break
			}
		}
		if ok {
			n++
		}
	}
	return n
}
