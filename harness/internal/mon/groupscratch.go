package mon

// GroupScratch is deliberately unsynchronised per-group memory. Callbacks of
// one group read-modify-write it; if the library fails to order two callbacks
// of a group by happens-before, the race detector reports a race located in
// this file (classified as "group-hb" by the race log parser).
type GroupScratch struct {
	Counter int64
	Last    string
	buf     [4]int64
}

// Touch performs an unsynchronised read-modify-write.
func (g *GroupScratch) Touch(id string) int64 {
	g.Counter++
	g.Last = id
	g.buf[g.Counter&3] = g.Counter
	return g.Counter
}
