// Package vconn is a recording, rule-enforcing in-process implementation of
// res.Conn. Every publish and subscribe is appended to a log with a global
// sequence number and the calling goroutine's id. Unlike a permissive mock it
// rejects what a real NATS client rejects (invalid subjects) and honours queue
// groups on delivery.
package vconn

import (
	"errors"
	"strings"
	"sync"
	"sync/atomic"
	"time"

	nats "github.com/nats-io/nats.go"

	"verif/harness/internal/mon"
)

// Msg is one published message.
type Msg struct {
	Seq     int64  `json:"seq"`
	G       int64  `json:"g"`
	Subject string `json:"subject"`
	Reply   string `json:"reply,omitempty"`
	Data    []byte `json:"-"`
	Payload string `json:"payload"`
	Err     string `json:"err,omitempty"`
}

// Sub is one recorded subscribe call.
type Sub struct {
	Seq     int64
	Subject string
	Queue   string
	Err     error
	Ch      chan *nats.Msg
	NSub    *nats.Subscription
	rr      int
}

// Conn implements res.Conn.
type Conn struct {
	lmu  sync.Mutex
	log  []Msg
	subs []*Sub
	cond *sync.Cond

	dmu    sync.RWMutex
	closed bool
	closes int32

	// FailSubscribe, when set, is consulted for every subscribe call.
	FailSubscribe func(subject string, nth int) error
	// FailPublish, when set, is consulted for every publish call.
	FailPublish func(subject string, nth int) error
	// NoGoID disables goroutine id recording (faster).
	NoGoID bool

	nsub, npub int
	bad        []string
	closing    chan struct{}
	dropped    int64
}

// ErrBadSubject mirrors nats.ErrBadSubject.
var ErrBadSubject = nats.ErrBadSubject

// ErrClosed mirrors nats.ErrConnectionClosed.
var ErrClosed = nats.ErrConnectionClosed

// New creates a connection.
func New() *Conn {
	c := &Conn{closing: make(chan struct{})}
	c.cond = sync.NewCond(&c.lmu)
	return c
}

// ValidSubscribeSubject reports whether NATS accepts the subject for a
// subscription: non-empty tokens, no whitespace; '>' as a whole token only in
// last position.
func ValidSubscribeSubject(s string) bool {
	if s == "" || strings.ContainsAny(s, " \t\r\n") {
		return false
	}
	toks := strings.Split(s, ".")
	for i, t := range toks {
		if t == "" {
			return false
		}
		if t == ">" && i != len(toks)-1 {
			return false
		}
	}
	return true
}

// ValidPublishSubject: a valid subject without wildcard tokens.
func ValidPublishSubject(s string) bool {
	if !ValidSubscribeSubject(s) {
		return false
	}
	for _, t := range strings.Split(s, ".") {
		if t == "*" || t == ">" {
			return false
		}
	}
	return true
}

// SubjectMatches reports whether a concrete subject matches a subscription
// subject (NATS semantics: * one token, > one or more trailing tokens).
func SubjectMatches(sub, subject string) bool {
	st := strings.Split(sub, ".")
	tt := strings.Split(subject, ".")
	for i, s := range st {
		if s == ">" && i == len(st)-1 {
			return len(tt) > i
		}
		if i >= len(tt) {
			return false
		}
		if s != "*" && s != tt[i] {
			return false
		}
	}
	return len(st) == len(tt)
}

func (c *Conn) record(subject, reply string, data []byte, err error) {
	m := Msg{Seq: mon.Seq(), Subject: subject, Reply: reply, Data: append([]byte(nil), data...), Payload: string(data)}
	if !c.NoGoID {
		m.G = mon.GoID()
	}
	if err != nil {
		m.Err = err.Error()
	}
	c.lmu.Lock()
	c.log = append(c.log, m)
	c.cond.Broadcast()
	c.lmu.Unlock()
}

// Publish implements res.Conn.
func (c *Conn) Publish(subject string, payload []byte) error {
	return c.PublishRequest(subject, "", payload)
}

// PublishRequest implements res.Conn.
func (c *Conn) PublishRequest(subject, reply string, data []byte) error {
	c.lmu.Lock()
	c.npub++
	n := c.npub
	c.lmu.Unlock()
	var err error
	c.dmu.RLock()
	closed := c.closed
	c.dmu.RUnlock()
	switch {
	case closed:
		err = ErrClosed
	case !ValidPublishSubject(subject):
		err = ErrBadSubject
		c.lmu.Lock()
		c.bad = append(c.bad, "publish:"+subject)
		c.lmu.Unlock()
	case c.FailPublish != nil:
		err = c.FailPublish(subject, n)
	}
	c.record(subject, reply, data, err)
	return err
}

// ChanSubscribe implements res.Conn.
func (c *Conn) ChanSubscribe(subject string, ch chan *nats.Msg) (*nats.Subscription, error) {
	return c.ChanQueueSubscribe(subject, "", ch)
}

// ChanQueueSubscribe implements res.Conn.
func (c *Conn) ChanQueueSubscribe(subject, queue string, ch chan *nats.Msg) (*nats.Subscription, error) {
	c.lmu.Lock()
	c.nsub++
	n := c.nsub
	c.lmu.Unlock()
	var err error
	c.dmu.RLock()
	closed := c.closed
	c.dmu.RUnlock()
	switch {
	case closed:
		err = ErrClosed
	case !ValidSubscribeSubject(subject):
		err = ErrBadSubject
		c.lmu.Lock()
		c.bad = append(c.bad, "subscribe:"+subject)
		c.lmu.Unlock()
	case ch == nil:
		err = errors.New("nats: invalid channel")
	case c.FailSubscribe != nil:
		err = c.FailSubscribe(subject, n)
	}
	s := &Sub{Seq: mon.Seq(), Subject: subject, Queue: queue, Err: err, Ch: ch}
	if err == nil {
		s.NSub = &nats.Subscription{Subject: subject, Queue: queue}
	}
	c.lmu.Lock()
	c.subs = append(c.subs, s)
	c.lmu.Unlock()
	if err != nil {
		return nil, err
	}
	return s.NSub, nil
}

// Close implements res.Conn.
func (c *Conn) Close() {
	if atomic.AddInt32(&c.closes, 1) == 1 {
		close(c.closing) // releases deliveries blocked on a full channel
	}
	c.dmu.Lock()
	c.closed = true
	c.dmu.Unlock()
	c.lmu.Lock()
	c.cond.Broadcast()
	c.lmu.Unlock()
}

// Closes returns how often Close was called.
func (c *Conn) Closes() int { return int(atomic.LoadInt32(&c.closes)) }

// Deliver delivers a message to the matching subscriptions (one member per
// queue group) and returns the number of deliveries. Messages are dropped
// once the connection is closed.
func (c *Conn) Deliver(subject, reply string, data []byte) int {
	c.dmu.RLock()
	defer c.dmu.RUnlock()
	if c.closed {
		return 0
	}
	c.lmu.Lock()
	var plain []*Sub
	queues := map[string][]*Sub{}
	var qorder []string
	for _, s := range c.subs {
		if s.Err != nil || !SubjectMatches(s.Subject, subject) {
			continue
		}
		if s.Queue == "" {
			plain = append(plain, s)
		} else {
			if _, ok := queues[s.Queue]; !ok {
				qorder = append(qorder, s.Queue)
			}
			queues[s.Queue] = append(queues[s.Queue], s)
		}
	}
	targets := plain
	for _, q := range qorder {
		ms := queues[q]
		ms[0].rr++
		targets = append(targets, ms[ms[0].rr%len(ms)])
	}
	c.lmu.Unlock()
	n := 0
	for _, s := range targets {
		m := &nats.Msg{Subject: subject, Reply: reply, Data: data, Sub: s.NSub}
		select {
		case s.Ch <- m:
			n++
			continue
		default:
		}
		// The channel is full. Like a NATS client, block only for so long on a
		// slow consumer: for ever (until Close) on the service's request
		// channel, briefly on inbox subscriptions whose listener may be gone.
		var giveUp <-chan time.Time
		if strings.HasPrefix(s.Subject, "_INBOX.") {
			giveUp = time.After(100 * time.Millisecond)
		}
		select {
		case s.Ch <- m:
			n++
		case <-c.closing:
		case <-giveUp:
			atomic.AddInt64(&c.dropped, 1)
		}
	}
	return n
}

// Dropped returns the number of messages dropped on full inbox channels.
func (c *Conn) Dropped() int64 { return atomic.LoadInt64(&c.dropped) }

// Log returns a snapshot of the publish log.
func (c *Conn) Log() []Msg {
	c.lmu.Lock()
	defer c.lmu.Unlock()
	return append([]Msg(nil), c.log...)
}

// Len returns the number of published messages.
func (c *Conn) Len() int {
	c.lmu.Lock()
	defer c.lmu.Unlock()
	return len(c.log)
}

// Since returns the messages from index i on.
func (c *Conn) Since(i int) []Msg {
	c.lmu.Lock()
	defer c.lmu.Unlock()
	if i > len(c.log) {
		i = len(c.log)
	}
	return append([]Msg(nil), c.log[i:]...)
}

// Subs returns a snapshot of all subscribe calls.
func (c *Conn) Subs() []Sub {
	c.lmu.Lock()
	defer c.lmu.Unlock()
	out := make([]Sub, len(c.subs))
	for i, s := range c.subs {
		out[i] = *s
	}
	return out
}

// Bad returns the invalid subjects seen ("publish:<s>" / "subscribe:<s>").
func (c *Conn) Bad() []string {
	c.lmu.Lock()
	defer c.lmu.Unlock()
	return append([]string(nil), c.bad...)
}

// WaitFor waits until pred holds on the log (checked whenever a message is
// published) or the timeout expires.
func (c *Conn) WaitFor(pred func(log []Msg) bool, d time.Duration) bool {
	deadline := time.Now().Add(d)
	timer := time.AfterFunc(d, func() {
		c.lmu.Lock()
		c.cond.Broadcast()
		c.lmu.Unlock()
	})
	defer timer.Stop()
	c.lmu.Lock()
	defer c.lmu.Unlock()
	for !pred(c.log) {
		if time.Now().After(deadline) {
			return false
		}
		c.cond.Wait()
	}
	return true
}

// OnSubject returns all logged messages published on subject.
func OnSubject(log []Msg, subject string) []Msg {
	var out []Msg
	for _, m := range log {
		if m.Subject == subject {
			out = append(out, m)
		}
	}
	return out
}
