// Package props (import path verif/harness/internal/alt/props) declares a type
// whose printed name, "props.tItem", equals the name of the value type of the
// typed stores in verif/harness/props while being a different type: a store
// that compares type names instead of type identity would accept it.
package props

type tItem struct {
	U    string `json:"u"`
	K    string `json:"k"`
	K2   string `json:"k2,omitempty"`
	Veto bool   `json:"veto,omitempty"`
}

// ForeignItem returns a value of the foreign type.
func ForeignItem(u string) interface{} { return tItem{U: u} }
