// Package sched dispatches the verif hook points of go-res: it counts hits,
// notifies listeners, perturbs the schedule (seeded), parks goroutines at
// gates and kills the process at the n-th hit of a point.
package sched

import (
	"hash/fnv"
	"runtime"
	"sync"
	"sync/atomic"
	"syscall"
	"time"

	res "github.com/jirenius/go-res"
	"github.com/jirenius/go-res/store/badgerstore"
)

var (
	installOnce sync.Once

	cmu    sync.RWMutex
	counts = map[string]*int64{}

	lmu       sync.RWMutex
	listeners = map[string][]func(arg interface{}){}

	gmu   sync.Mutex
	gates = map[string][]*Gate{}

	perturbSeed  int64
	perturbLevel int32 // 0 off

	killPoint atomic.Value // string
	killAt    int64
	killCount int64
	// KillHook is called right before the process kills itself.
	KillHook func()
)

// Install installs the dispatcher into go-res and badgerstore.
func Install() {
	installOnce.Do(func() {
		res.SetVerifHook(dispatch)
		badgerstore.SetVerifHook(dispatch)
	})
}

func counter(point string) *int64 {
	cmu.RLock()
	c := counts[point]
	cmu.RUnlock()
	if c != nil {
		return c
	}
	cmu.Lock()
	c = counts[point]
	if c == nil {
		c = new(int64)
		counts[point] = c
	}
	cmu.Unlock()
	return c
}

// Count returns how often a point was hit.
func Count(point string) int64 { return atomic.LoadInt64(counter(point)) }

// Counts returns a snapshot of all counters.
func Counts() map[string]int64 {
	cmu.RLock()
	defer cmu.RUnlock()
	m := map[string]int64{}
	for k, v := range counts {
		m[k] = atomic.LoadInt64(v)
	}
	return m
}

// On registers a listener for a point.
func On(point string, f func(arg interface{})) {
	lmu.Lock()
	listeners[point] = append(listeners[point], f)
	lmu.Unlock()
}

// ClearListeners removes all listeners.
func ClearListeners() {
	lmu.Lock()
	listeners = map[string][]func(arg interface{}){}
	lmu.Unlock()
}

// SetPerturb enables seeded schedule perturbation. level 0 disables; 1 is
// light (mostly Gosched), 2 adds short sleeps.
func SetPerturb(seed int64, level int) {
	atomic.StoreInt64(&perturbSeed, seed)
	atomic.StoreInt32(&perturbLevel, int32(level))
}

// KillAtHit makes the process SIGKILL itself at the n-th (1-based) hit of point.
func KillAtHit(point string, n int64) {
	atomic.StoreInt64(&killAt, n)
	atomic.StoreInt64(&killCount, 0)
	killPoint.Store(point)
}

// Gate parks the first goroutine arriving at a point for which pred holds.
type Gate struct {
	point    string
	pred     func(arg interface{}) bool
	arrived  chan struct{}
	release  chan struct{}
	taken    int32
	TimedOut int32
}

// Arm arms a one-shot gate at point.
func Arm(point string, pred func(arg interface{}) bool) *Gate {
	g := &Gate{point: point, pred: pred, arrived: make(chan struct{}), release: make(chan struct{})}
	gmu.Lock()
	gates[point] = append(gates[point], g)
	gmu.Unlock()
	return g
}

// Arrived is closed when a goroutine has parked at the gate.
func (g *Gate) Arrived() <-chan struct{} { return g.arrived }

// WaitArrived waits for a goroutine to park; false on timeout.
func (g *Gate) WaitArrived(d time.Duration) bool {
	select {
	case <-g.arrived:
		return true
	case <-time.After(d):
		return false
	}
}

// Release lets the parked goroutine continue and disarms the gate.
func (g *Gate) Release() {
	gmu.Lock()
	gs := gates[g.point]
	for i, x := range gs {
		if x == g {
			gates[g.point] = append(gs[:i:i], gs[i+1:]...)
			break
		}
	}
	gmu.Unlock()
	select {
	case <-g.release:
	default:
		close(g.release)
	}
}

func dispatch(point string, arg interface{}) {
	n := atomic.AddInt64(counter(point), 1)

	if kp, _ := killPoint.Load().(string); kp != "" && kp == point {
		if atomic.AddInt64(&killCount, 1) == atomic.LoadInt64(&killAt) {
			if KillHook != nil {
				KillHook()
			}
			syscall.Kill(syscall.Getpid(), syscall.SIGKILL)
			select {}
		}
	}

	lmu.RLock()
	ls := listeners[point]
	lmu.RUnlock()
	for _, f := range ls {
		f(arg)
	}

	gmu.Lock()
	var hit *Gate
	for _, g := range gates[point] {
		if (g.pred == nil || g.pred(arg)) && atomic.CompareAndSwapInt32(&g.taken, 0, 1) {
			hit = g
			break
		}
	}
	gmu.Unlock()
	if hit != nil {
		close(hit.arrived)
		select {
		case <-hit.release:
		case <-time.After(30 * time.Second):
			atomic.StoreInt32(&hit.TimedOut, 1)
		}
		return
	}

	if lvl := atomic.LoadInt32(&perturbLevel); lvl > 0 {
		h := fnv.New64a()
		var b [16]byte
		s := uint64(atomic.LoadInt64(&perturbSeed))
		for i := 0; i < 8; i++ {
			b[i] = byte(s >> (8 * i))
			b[8+i] = byte(uint64(n) >> (8 * i))
		}
		h.Write(b[:])
		h.Write([]byte(point))
		v := h.Sum64() % 100
		switch {
		case v < 55:
		case v < 85 || lvl == 1:
			runtime.Gosched()
		default:
			time.Sleep(time.Duration(10+h.Sum64()%290) * time.Microsecond)
		}
	}
}
