package props

import (
	"bytes"
	"encoding/json"
	"fmt"
	"math/rand"
	"reflect"
	"strings"
	"time"
	"unicode/utf8"

	res "github.com/jirenius/go-res"
	"github.com/jirenius/go-res/resprot"
	"github.com/jirenius/go-res/store"

	"verif/harness/internal/core"
	"verif/harness/internal/ref"
)

// C18 - Values and responses survive the wire between service and client packages.

type c18Params struct {
	Kind  string `json:"kind"` // refs | datavalue | classify | equal | responses
	Shard int    `json:"shard"`
	N     int    `json:"n"`
}

func init() {
	core.Register(&core.Prop{
		ID:    "C18",
		Level: "exploration",
		Rule:  "cases: (refs) Ref/SoftRef marshal -> generic encoding/json decode -> unmarshal for every string of length <=3 over {a, \", \\, newline, U+0001, é, €, 😀, <} (exhaustive, 820) and random valid UTF-8 up to 4 KiB; (datavalue) MarshalDataValue/UnmarshalDataValue round trip on random JSON values of depth <=4; (classify) store.Value classification of JSON texts assembled from member fragments with whitespace, extra and conflicting members versus a reference classifier; (equal) reflexivity, symmetry, transitivity of Value.Equal on generated triples and Equal => same semantic normal form; (responses) every reply kind of a real Service parsed by resprot.ParseResponse: exactly one of HasError/HasResource/HasResult and the decoded data equals what the handler supplied. distinct non-trivial = distinct inputs containing a character needing escapes, nesting, or >= 2 members",
		Assumptions: []string{
			"encoding/json generic decoding is the reference",
			"JSON texts with unknown extra members may be classified as without them or as invalid (the protocol is silent)",
			"only valid UTF-8 strings are round-tripped (encoding/json replaces invalid bytes)",
		},
		Batches: func(seed int64, tier core.Tier) []core.Batch {
			var bs []core.Batch
			for _, k := range []string{"refs", "datavalue", "classify", "equal", "responses"} {
				for s := 0; s < tierPick(tier, 1, 6); s++ {
					bs = append(bs, core.Batch{Name: fmt.Sprintf("%s-%d", k, s), TimeoutS: 600, Params: core.Params(c18Params{Kind: k, Shard: s, N: tierPick(tier, 60000, 1000000)})})
				}
			}
			return bs
		},
		MinEvaluations: func(t core.Tier) int64 { return 20000 },
		Run:            c18Run,
	})
}

func c18Run(c *core.Ctx, b core.Batch) {
	var p c18Params
	json.Unmarshal(b.Params, &p)
	switch p.Kind {
	case "refs":
		c18Refs(c, p)
	case "datavalue":
		c18DataValue(c, p)
	case "classify":
		c18Classify(c, p)
	case "equal":
		c18Equal(c, p)
	case "responses":
		c18Responses(c, p)
	}
}

var c18Atoms = []string{"a", "\"", "\\", "\n", "\u0001", "é", "€", "😀", "<"}

func c18RandUTF8(r *rand.Rand, maxLen int) string {
	n := r.Intn(maxLen)
	var sb strings.Builder
	for sb.Len() < n {
		switch r.Intn(8) {
		case 0:
			sb.WriteString(c18Atoms[r.Intn(len(c18Atoms))])
		case 1:
			sb.WriteRune(rune(r.Intn(0x20)))
		case 2:
			sb.WriteRune(rune(0x80 + r.Intn(0x2000)))
		case 3:
			sb.WriteRune(rune(0x10000 + r.Intn(0x1000)))
		case 4:
			sb.WriteString([]string{" ", " ", "�", "&", ">", "\x7f", "\t", "\r"}[r.Intn(8)])
		default:
			sb.WriteByte(byte('a' + r.Intn(26)))
		}
	}
	return sb.String()
}

func c18CheckRef(c *core.Ctx, s string) {
	c.Eval(1)
	if !utf8.ValidString(s) {
		return
	}
	for _, soft := range []bool{false, true} {
		var b []byte
		var err error
		if soft {
			b, err = json.Marshal(res.SoftRef(s))
		} else {
			b, err = json.Marshal(res.Ref(s))
		}
		kind := "ref"
		if soft {
			kind = "softref"
		}
		if err != nil {
			c.Violation("C18/"+kind+"-marshal-error", fmt.Sprintf("marshalling %s(%q) failed: %v", kind, s, err), map[string]interface{}{"s": s})
			continue
		}
		var g map[string]interface{}
		if err := json.Unmarshal(b, &g); err != nil {
			c.Violation("C18/"+kind+"-invalid-json", fmt.Sprintf("%s(%q) marshals to invalid JSON %s", kind, s, b), map[string]interface{}{"s": s, "json": string(b)})
			continue
		}
		want := map[string]interface{}{"rid": s}
		if soft {
			want["soft"] = true
		}
		if !reflect.DeepEqual(g, want) {
			c.Violation("C18/"+kind+"-object", fmt.Sprintf("%s(%q) marshals to %s, want object %v", kind, s, b, want), map[string]interface{}{"s": s, "json": string(b)})
			continue
		}
		var back string
		if soft {
			var x res.SoftRef
			err = json.Unmarshal(b, &x)
			back = string(x)
		} else {
			var x res.Ref
			err = json.Unmarshal(b, &x)
			back = string(x)
		}
		if err != nil || back != s {
			c.Violation("C18/"+kind+"-roundtrip", fmt.Sprintf("%s(%q) -> %s -> %q (err %v)", kind, s, b, back, err), map[string]interface{}{"s": s})
		}
		// a reference also unmarshals from a reference with surrounding whitespace and reordered members
		alt := fmt.Sprintf(" { \"soft\" : %v , \"rid\" : %s } ", soft, jsonStr(s))
		var y res.Ref
		if err := json.Unmarshal([]byte(alt), &y); err != nil || string(y) != s {
			c.Violation("C18/ref-unmarshal-variant", fmt.Sprintf("Ref does not unmarshal %s to %q (got %q, err %v)", alt, s, y, err), map[string]interface{}{"s": s})
		}
	}
	// both reference types agree with IsValidRID on which strings are resource ids
	if g, w := res.SoftRef(s).IsValid(), ref.ValidRID(s); g != w || res.Ref(s).IsValid() != w || res.IsValidRID(s) != w {
		c.Violation("C18/ref-isvalid", fmt.Sprintf("SoftRef(%q).IsValid()=%v Ref.IsValid()=%v IsValidRID=%v, reference grammar says %v", s, g, res.Ref(s).IsValid(), res.IsValidRID(s), w), map[string]interface{}{"s": s})
	}
	if strings.ContainsAny(s, "\"\\\n<\u0001") || len(s) != len([]rune(s)) {
		c.Distinct("r:" + s)
	}
}

func c18Refs(c *core.Ctx, p c18Params) {
	if p.Shard == 0 {
		var rec func(cur string, n int)
		rec = func(cur string, n int) {
			c18CheckRef(c, cur)
			if n == 3 {
				return
			}
			for _, a := range c18Atoms {
				rec(cur+a, n+1)
			}
		}
		rec("", 0)
	}
	r := c.Rand
	for i := 0; i < p.N/20; i++ {
		c18CheckRef(c, c18RandUTF8(r, []int{8, 64, 4096}[i%3]))
	}
	c.Sample(map[string]interface{}{"ref": "a\"\\\n😀", "json": jsonStr(res.Ref("a\"\\\n😀"))})
}

// c18RandJSON builds a random JSON value.
func c18RandJSON(r *rand.Rand, depth int) interface{} {
	k := r.Intn(9)
	if depth <= 0 && k >= 6 {
		k = r.Intn(6)
	}
	switch k {
	case 0:
		return nil
	case 1:
		return r.Intn(2) == 0
	case 2:
		return float64(r.Intn(2000) - 1000)
	case 3:
		return r.NormFloat64() * 1e6
	case 4, 5:
		return c18RandUTF8(r, 12)
	case 6, 7:
		n := r.Intn(4)
		l := make([]interface{}, n)
		for i := range l {
			l[i] = c18RandJSON(r, depth-1)
		}
		return l
	default:
		n := r.Intn(4)
		m := map[string]interface{}{}
		for i := 0; i < n; i++ {
			key := []string{"data", "rid", "action", "soft", "a", "b"}[r.Intn(6)]
			if r.Intn(3) == 0 {
				key = c18RandUTF8(r, 6)
			}
			m[key] = c18RandJSON(r, depth-1)
		}
		return m
	}
}

func c18DataValue(c *core.Ctx, p c18Params) {
	r := c.Rand
	for i := 0; i < p.N/4; i++ {
		v := c18RandJSON(r, 4)
		c.Eval(1)
		plain, _ := json.Marshal(v)
		b, err := resprot.MarshalDataValue(v)
		desc := map[string]interface{}{"value": string(plain)}
		if err != nil {
			c.Violation("C18/datavalue-marshal-error", "MarshalDataValue failed: "+err.Error(), desc)
			continue
		}
		desc["marshalled"] = string(b)
		// shape: objects and arrays wrapped, primitives bare
		_, isObj := v.(map[string]interface{})
		_, isArr := v.([]interface{})
		var shape interface{}
		if err := json.Unmarshal(b, &shape); err != nil {
			c.Violation("C18/datavalue-invalid-json", "MarshalDataValue produced invalid JSON", desc)
			continue
		}
		if isObj || isArr {
			m, ok := shape.(map[string]interface{})
			if !ok || len(m) != 1 || !reflect.DeepEqual(m["data"], jsonNorm(v)) {
				c.Violation("C18/datavalue-wrap", fmt.Sprintf("MarshalDataValue(%s) = %s, want {\"data\":...}", plain, b), desc)
			}
			c.Distinct("dv:" + string(plain))
		} else if !reflect.DeepEqual(shape, jsonNorm(v)) {
			c.Violation("C18/datavalue-primitive", fmt.Sprintf("MarshalDataValue(%s) = %s, want the bare primitive", plain, b), desc)
		}
		// the service side's data value type marshals every value wrapped (the protocol
		// allows the wrapper around primitives too) and the client unwraps it again
		if db, err := json.Marshal(res.NewDataValue(v)); err != nil {
			c.Violation("C18/datavalue-marshal-error", "marshalling res.NewDataValue(v) failed: "+err.Error(), desc)
		} else {
			var m map[string]interface{}
			var back, bare interface{}
			if !isObj && !isArr && json.Unmarshal(db, &bare) == nil && reflect.DeepEqual(bare, jsonNorm(v)) {
				// a primitive marshalled bare (what the type's documentation describes) is as good
			} else if json.Unmarshal(db, &m) != nil || len(m) != 1 || !reflect.DeepEqual(m["data"], jsonNorm(v)) {
				c.Violation("C18/datavalue-wrap:NewDataValue", fmt.Sprintf("res.NewDataValue(%s) marshals to %s, want {\"data\":...}", plain, db), desc)
			} else if err := resprot.UnmarshalDataValue(db, &back); err != nil || !reflect.DeepEqual(back, jsonNorm(v)) {
				c.Violation("C18/datavalue-roundtrip:NewDataValue", fmt.Sprintf("res.NewDataValue(%s) -> %s -> %s (err %v)", plain, db, jsonStr(back), err), desc)
			}
		}
		var out interface{}
		if err := resprot.UnmarshalDataValue(b, &out); err != nil {
			c.Violation("C18/datavalue-unmarshal-error", "UnmarshalDataValue failed on MarshalDataValue output: "+err.Error(), desc)
			continue
		}
		if !reflect.DeepEqual(out, jsonNorm(v)) {
			desc["back"] = jsonStr(out)
			c.Violation("C18/datavalue-roundtrip", fmt.Sprintf("data value round trip changed %s into %s", plain, jsonStr(out)), desc)
		}
		// with whitespace around
		var out2 interface{}
		wsSeq := func() []byte {
			var w []byte
			for n := r.Intn(5); n > 0; n-- {
				w = append(w, " \t\n\r"[r.Intn(4)])
			}
			return w
		}
		ws := append(append(wsSeq(), b...), wsSeq()...)
		if i%7 == 0 {
			ws = append([]byte(" \n\t"), append(b, ' ', '\r')...)
		}
		if err := resprot.UnmarshalDataValue(ws, &out2); err != nil || !reflect.DeepEqual(out2, jsonNorm(v)) {
			d := copyDesc(desc)
			d["text"] = string(ws)
			c.Violation("C18/datavalue-whitespace", fmt.Sprintf("UnmarshalDataValue(%q) with surrounding JSON whitespace: err=%v value=%s, want %s", short(string(ws), 80), err, jsonStr(out2), plain), d)
		}
		// a character that is not JSON whitespace in front of the text is an error
		var out3 interface{}
		nws := append([]byte{"\f\v\x00\x1f\xa0"[r.Intn(5)]}, b...)
		if err := resprot.UnmarshalDataValue(nws, &out3); err == nil {
			c.Violation("C18/datavalue-accepts-invalid", fmt.Sprintf("UnmarshalDataValue(%q) returned no error although the text starts with a character that is not JSON whitespace", short(string(nws), 80)), nil)
		}
		if i == 5 {
			c.Sample(desc)
		}
	}
	// documented error cases
	for _, bad := range []string{`[1,2,3]`, `{"foo":"bar"}`, ``, `   `, `{"data":`, "\r[1,2,3]", "\r\n{}", "\t{\"foo\":\"bar\"}", "\n[1]", " \r {\"rid\":\"a.b\"}", "\r", "\r\n", "\f1", "{}", " { } "} {
		var x interface{}
		c.Eval(1)
		if err := resprot.UnmarshalDataValue([]byte(bad), &x); err == nil {
			c.Violation("C18/datavalue-accepts-invalid", fmt.Sprintf("UnmarshalDataValue(%q) returned no error", bad), nil)
		}
	}
}

// jsonNorm normalises a Go value through encoding/json generic decoding.
func jsonNorm(v interface{}) interface{} {
	b, _ := json.Marshal(v)
	var x interface{}
	json.Unmarshal(b, &x)
	return x
}

// refClassify is the reference classifier of RES values (res-protocol.md
// "Values"): primitive, reference, soft reference, data value, delete action
// or invalid. unknownExtra is set when the object has members the protocol
// does not define.
func refClassify(text []byte) (typ string, norm string, unknownExtra bool) {
	var v interface{}
	dec := json.NewDecoder(bytes.NewReader(text))
	dec.UseNumber()
	if err := dec.Decode(&v); err != nil {
		return "error", "", false
	}
	if dec.More() {
		return "error", "", false
	}
	switch t := v.(type) {
	case []interface{}:
		return "invalid", "", false
	case map[string]interface{}:
		for k := range t {
			if k != "rid" && k != "soft" && k != "action" && k != "data" {
				unknownExtra = true
			}
		}
		// a soft member of the wrong type makes the whole object undecodable
		if sv, ok := t["soft"]; ok && sv != nil {
			if _, isBool := sv.(bool); !isBool {
				return "error", "", unknownExtra
			}
		}
		rid, hasRID := t["rid"]
		action, hasAction := t["action"]
		data, hasData := t["data"]
		if rid == nil {
			hasRID = false
		}
		if action == nil {
			hasAction = false
		}
		switch {
		case hasRID:
			s, ok := rid.(string)
			if !ok {
				return "error", "", unknownExtra
			}
			if hasAction || hasData || s == "" || !ref.ValidRID(s) {
				return "invalid", "", unknownExtra
			}
			soft := false
			if sv, ok := t["soft"]; ok && sv != nil {
				b, isBool := sv.(bool)
				if !isBool {
					return "error", "", unknownExtra
				}
				soft = b
			}
			if soft {
				return "softref", s, unknownExtra
			}
			return "ref", s, unknownExtra
		case hasAction:
			s, ok := action.(string)
			if !ok {
				return "error", "", unknownExtra
			}
			if hasData || s != "delete" {
				return "invalid", "", unknownExtra
			}
			return "delete", "", unknownExtra
		case hasData:
			switch data.(type) {
			case map[string]interface{}, []interface{}:
				return "data", jsonStr(data), unknownExtra
			}
			return "primitive", jsonStr(data), unknownExtra
		}
		return "invalid", "", unknownExtra
	}
	return "primitive", jsonStr(v), false
}

func valueTypeName(t store.ValueType) string {
	switch t {
	case store.ValueTypePrimitive:
		return "primitive"
	case store.ValueTypeReference:
		return "ref"
	case store.ValueTypeSoftReference:
		return "softref"
	case store.ValueTypeData:
		return "data"
	case store.ValueTypeDelete:
		return "delete"
	}
	return "none"
}

var c18Members = []string{`"rid":"a.b"`, `"rid":"a"`, `"rid":""`, `"rid":"a.*"`, `"rid":"a..b"`, `"rid":null`, `"rid":5`, `"rid":"a?q=1"`, `"rid":"a.~tmp!"`, `"rid":"~"`, `"rid":"a b"`, `"rid":"a.\u007f"`, `"rid":"!.}"`,
	`"soft":true`, `"soft":false`, `"soft":null`, `"soft":1`,
	`"action":"delete"`, `"action":"other"`, `"action":null`, `"action":1`,
	`"data":{"a":1}`, `"data":[1,2]`, `"data":1`, `"data":"s"`, `"data":null`, `"data":{}`, `"data":{"rid":"x"}`,
	`"extra":1`, `"x":{"rid":"a"}`}

func c18RandText(r *rand.Rand) string {
	ws := func() string { return []string{"", "", " ", "\n", "\t ", "\r\n"}[r.Intn(6)] }
	switch r.Intn(10) {
	case 0:
		return ws() + []string{"1", "-0.5", "1e3", "true", "false", "null", `"str"`, `"q\"x"`, `""`, "[]", "[1]", `[{"rid":"a"}]`, "1.0", "01", "nul", "{", `"unterminated`}[r.Intn(17)] + ws()
	}
	n := r.Intn(4)
	var ms []string
	used := map[string]bool{}
	for i := 0; i < n; i++ {
		m := c18Members[r.Intn(len(c18Members))]
		key := m[:strings.IndexByte(m, ':')]
		if used[key] {
			continue // duplicate member names have no defined meaning in JSON
		}
		used[key] = true
		ms = append(ms, ws()+m+ws())
	}
	return ws() + "{" + strings.Join(ms, ",") + "}" + ws()
}

func c18ParseValue(text string) (store.Value, error) {
	var v store.Value
	buf := []byte(text)
	err := json.Unmarshal(buf, &v)
	// the input belongs to the caller, who may reuse it once Unmarshal has
	// returned (json.Unmarshaler: "must copy the JSON data if it wishes to
	// retain the data"): overwrite it before the value is looked at
	for i := range buf {
		buf[i] = '#'
	}
	return v, err
}

func c18Classify(c *core.Ctx, p c18Params) {
	r := c.Rand
	check := func(text string) {
		c.Eval(1)
		wt, wnorm, extra := refClassify([]byte(text))
		var v store.Value
		var err error
		if pn := try(func() { v, err = c18ParseValue(text) }); pn != nil {
			c.Violation("C18/value-parse-panics", fmt.Sprintf("unmarshalling %q into store.Value panicked: %v", text, pn), map[string]interface{}{"text": text})
			return
		}
		// duplicate keys make the reference (last wins) and struct decoding agree, so no special case
		got := "invalid"
		if err == nil {
			got = valueTypeName(v.Type)
		}
		want := wt
		if want == "error" {
			want = "invalid"
		}
		desc := map[string]interface{}{"text": text, "got": got, "want": wt}
		if got != want {
			if extra && got == "invalid" {
				return // unknown members: either way accepted
			}
			c.Violation("C18/value-classification:"+got+"-instead-of-"+want, fmt.Sprintf("store.Value classifies %q as %s, the protocol says %s", text, got, wt), desc)
			return
		}
		switch got {
		case "ref", "softref":
			if v.RID != wnorm {
				c.Violation("C18/value-rid", fmt.Sprintf("store.Value of %q has RID %q, want %q", text, v.RID, wnorm), desc)
			}
		case "primitive":
			if jsonStr(jsonNorm(json.RawMessage(v.RawMessage))) != jsonStr(jsonNorm(json.RawMessage(wnorm))) {
				c.Violation("C18/value-primitive", fmt.Sprintf("store.Value of %q holds primitive %s, want %s", text, v.RawMessage, wnorm), desc)
			}
		case "data":
			if jsonStr(jsonNorm(json.RawMessage(v.Inner))) != jsonStr(jsonNorm(json.RawMessage(wnorm))) {
				c.Violation("C18/value-data", fmt.Sprintf("store.Value of %q holds data %s, want %s", text, v.Inner, wnorm), desc)
			}
		}
		if strings.Count(text, ":") >= 2 {
			c.Distinct("cl:" + text)
		}
	}
	// every single member and every pair of members, compact
	for _, a := range c18Members {
		check("{" + a + "}")
		for _, b := range c18Members {
			if a[:strings.IndexByte(a, ':')] != b[:strings.IndexByte(b, ':')] {
				check("{" + a + "," + b + "}")
			}
		}
	}
	for i := 0; i < p.N; i++ {
		check(c18RandText(r))
	}
	c.Sample(map[string]interface{}{"texts": []string{c18RandText(r), c18RandText(r), c18RandText(r)}})
}

// semantic normal form of a parsed value
func c18Norm(v store.Value) string {
	switch v.Type {
	case store.ValueTypePrimitive:
		return "p:" + jsonStr(jsonNorm(json.RawMessage(v.RawMessage)))
	case store.ValueTypeReference:
		return "r:" + v.RID
	case store.ValueTypeSoftReference:
		return "s:" + v.RID
	case store.ValueTypeData:
		return "d:" + jsonStr(jsonNorm(json.RawMessage(v.Inner)))
	case store.ValueTypeDelete:
		return "x"
	}
	return "none"
}

func c18Equal(c *core.Ctx, p c18Params) {
	r := c.Rand
	var pool []store.Value
	var texts []string
	for len(pool) < 400 {
		t := c18RandText(r)
		v, err := c18ParseValue(t)
		if err != nil {
			continue
		}
		pool = append(pool, v)
		texts = append(texts, t)
	}
	// near neighbours: the same text with one letter in the other case, one digit or
	// letter changed, or a character appended inside a string - different JSON values
	// that a sloppy comparison would identify
	neighbour := map[int][]int{}
	base := len(pool)
	for i := 0; i < base; i++ {
		t := []byte(texts[i])
		var cand []int
		for k, ch := range t {
			if (ch|32) >= 'a' && (ch|32) <= 'z' || ch >= '0' && ch <= '9' {
				cand = append(cand, k)
			}
		}
		if len(cand) == 0 {
			continue
		}
		for try := 0; try < 2; try++ {
			m := append([]byte{}, t...)
			k := cand[r.Intn(len(cand))]
			switch {
			case (m[k]|32) >= 'a' && (m[k]|32) <= 'z' && try == 0:
				m[k] ^= 32 // other case
			case m[k] >= '0' && m[k] <= '8':
				m[k]++
			default:
				m[k] = 'q'
			}
			v, err := c18ParseValue(string(m))
			if err != nil {
				continue
			}
			neighbour[i] = append(neighbour[i], len(pool))
			pool = append(pool, v)
			texts = append(texts, string(m))
		}
	}
	pool = append(pool, store.DeleteValue, store.Value{})
	texts = append(texts, "<DeleteValue>", "<zero>")
	for i := 0; i < p.N; i++ {
		a, b, d := r.Intn(len(pool)), r.Intn(len(pool)), r.Intn(len(pool))
		switch r.Intn(4) {
		case 0:
			b = a
		case 1:
			if ns := neighbour[a%base]; len(ns) > 0 {
				a = a % base
				b = ns[r.Intn(len(ns))]
				c.Obs("near_neighbour_pairs", 1)
			}
		}
		A, B, D := pool[a], pool[b], pool[d]
		c.Eval(1)
		desc := map[string]interface{}{"a": texts[a], "b": texts[b], "c": texts[d]}
		if !A.Equal(A) {
			c.Violation("C18/equal-not-reflexive", fmt.Sprintf("Value of %q is not Equal to itself", texts[a]), desc)
		}
		if A.Equal(B) != B.Equal(A) {
			c.Violation("C18/equal-not-symmetric", fmt.Sprintf("Equal(%q,%q) is not symmetric", texts[a], texts[b]), desc)
		}
		if A.Equal(B) && B.Equal(D) && !A.Equal(D) {
			c.Violation("C18/equal-not-transitive", fmt.Sprintf("Equal is not transitive on %q, %q, %q", texts[a], texts[b], texts[d]), desc)
		}
		if A.Equal(B) && c18Norm(A) != c18Norm(B) {
			c.Violation("C18/equal-without-json-equality", fmt.Sprintf("Values of %q and %q are Equal but differ: %s vs %s", texts[a], texts[b], c18Norm(A), c18Norm(B)), desc)
		}
		if a != b && A.Equal(B) {
			c.Distinct(texts[a] + "==" + texts[b])
		}
		// marshalling a parsed value gives JSON with the same normal form
		if A.Type != store.ValueTypeNone {
			mb, err := json.Marshal(A)
			var back store.Value
			if err != nil || json.Unmarshal(mb, &back) != nil || c18Norm(back) != c18Norm(A) {
				c.Violation("C18/value-remarshal", fmt.Sprintf("store.Value of %q re-marshals to %s which does not parse back to the same value", texts[a], mb), desc)
			}
		}
	}
	c.Sample(map[string]interface{}{"pool_size": len(pool), "example": texts[:3]})
}

// c18Responses: every reply kind of a real service parsed by the client package.
func c18Responses(c *core.Ctx, p c18Params) {
	rn := c04NewRunner(c, 2)
	if rn == nil {
		return
	}
	defer rn.rig.stop()
	type want struct {
		kind   string // result resource error
		code   string
		msg    string // expected error message ("" = not checked)
		result string // canonical JSON of expected result
		rid    string
	}
	mk := func(v interface{}) string { return jsonStr(jsonNorm(v)) }
	cases := []struct {
		rtype, pattern string
		a              act
		w              want
	}{
		{"call", "m", act{Op: "reply", K: "ok", V: "nil"}, want{kind: "result", result: "null"}},
		{"call", "m", act{Op: "reply", K: "ok", V: "map"}, want{kind: "result", result: mk(scriptValue("map"))}},
		{"call", "m", act{Op: "reply", K: "ok", V: "stresc"}, want{kind: "result", result: mk(scriptValue("stresc"))}},
		{"call", "m", act{Op: "reply", K: "ok", V: "nested"}, want{kind: "result", result: mk(scriptValue("nested"))}},
		{"call", "m", act{Op: "reply", K: "ok", V: "datavalue"}, want{kind: "result", result: mk(scriptValue("datavalue"))}},
		{"call", "m", act{Op: "reply", K: "ok", V: "list"}, want{kind: "result", result: mk(scriptValue("list"))}},
		{"auth", "m", act{Op: "reply", K: "ok", V: "bool"}, want{kind: "result", result: "true"}},
		{"call", "m", act{Op: "reply", K: "resource", V: "valid"}, want{kind: "resource", rid: "svc.m.created"}},
		{"call", "m", act{Op: "reply", K: "resource", V: "query"}, want{kind: "resource", rid: "svc.m.created?foo=bar"}},
		{"call", "m", act{Op: "reply", K: "resource", V: "escapes"}, want{kind: "resource", rid: scriptEscRID}},
		{"auth", "m", act{Op: "reply", K: "resource", V: "escapes"}, want{kind: "resource", rid: scriptEscRID}},
		{"call", "m", act{Op: "reply", K: "notfound"}, want{kind: "error", code: "system.notFound"}},
		{"call", "m", act{Op: "reply", K: "methodnotfound"}, want{kind: "error", code: "system.methodNotFound"}},
		{"call", "m", act{Op: "reply", K: "invalidparams", V: "bad params"}, want{kind: "error", code: "system.invalidParams"}},
		{"call", "m", act{Op: "reply", K: "error", V: "reserr"}, want{kind: "error", code: "custom.code"}},
		{"call", "m", act{Op: "reply", K: "error", V: "plain"}, want{kind: "error", code: "system.internalError"}},
		{"call", "m", act{Op: "reply", K: "ok", V: "chan"}, want{kind: "error", code: "system.internalError"}},
		{"get", "m", act{Op: "reply", K: "model", V: "map"}, want{kind: "result", result: mk(map[string]interface{}{"model": scriptModelValue("map")})}},
		{"get", "m", act{Op: "reply", K: "querymodel", V: "map"}, want{kind: "result", result: mk(map[string]interface{}{"model": scriptModelValue("map"), "query": "q=1"})}},
		{"get", "c", act{Op: "reply", K: "collection", V: "list"}, want{kind: "result", result: mk(map[string]interface{}{"collection": scriptCollectionValue("list")})}},
		{"get", "c", act{Op: "reply", K: "querycollection", V: "list"}, want{kind: "result", result: mk(map[string]interface{}{"collection": scriptCollectionValue("list"), "query": "q=1"})}},
		{"access", "m", act{Op: "reply", K: "access", V: "full"}, want{kind: "result", result: mk(map[string]interface{}{"get": true, "call": "*"})}},
		{"access", "m", act{Op: "reply", K: "access", V: "call"}, want{kind: "result", result: mk(map[string]interface{}{"call": "set,foo"})}},
		{"access", "m", act{Op: "reply", K: "access", V: "none"}, want{kind: "error", code: "system.accessDenied"}},
		{"access", "m", act{Op: "reply", K: "granted"}, want{kind: "result", result: mk(map[string]interface{}{"get": true, "call": "*"})}},
		{"new", "m", act{Op: "reply", K: "new", V: "valid"}, want{kind: "result", result: mk(map[string]interface{}{"rid": "svc.m.created"})}},
		// error responses decode to the code AND message the handler supplied; the library's own
		// messages for its predefined errors are the documented ones, whatever happened before
		{"call", "m", act{Op: "reply", K: "notfound"}, want{kind: "error", code: "system.notFound", msg: "Not found"}},
		{"call", "m", act{Op: "reply", K: "methodnotfound"}, want{kind: "error", code: "system.methodNotFound", msg: "Method not found"}},
		{"call", "m", act{Op: "reply", K: "invalidparams", V: ""}, want{kind: "error", code: "system.invalidParams", msg: "Invalid parameters"}},
		{"call", "m", act{Op: "reply", K: "invalidparams", V: "bad params"}, want{kind: "error", code: "system.invalidParams", msg: "bad params"}},
		{"call", "m", act{Op: "reply", K: "invalidquery", V: ""}, want{kind: "error", code: "system.invalidQuery", msg: "Invalid query"}},
		{"get", "m", act{Op: "reply", K: "invalidquery", V: ""}, want{kind: "error", code: "system.invalidQuery", msg: "Invalid query"}},
		{"get", "m", act{Op: "reply", K: "invalidquery", V: "bad query"}, want{kind: "error", code: "system.invalidQuery", msg: "bad query"}},
		{"call", "m", act{Op: "reply", K: "error", V: "predef-invalidquery"}, want{kind: "error", code: "system.invalidQuery", msg: "Invalid query"}},
		{"call", "m", act{Op: "reply", K: "error", V: "predef-notfound"}, want{kind: "error", code: "system.notFound", msg: "Not found"}},
		{"auth", "m", act{Op: "reply", K: "error", V: "predef-invalidparams"}, want{kind: "error", code: "system.invalidParams", msg: "Invalid parameters"}},
		{"call", "m", act{Op: "reply", K: "error", V: "predef-accessdenied"}, want{kind: "error", code: "system.accessDenied", msg: "Access denied"}},
		{"call", "m", act{Op: "reply", K: "error", V: "predef-methodnotfound"}, want{kind: "error", code: "system.methodNotFound", msg: "Method not found"}},
		{"call", "m", act{Op: "reply", K: "error", V: "predef-timeout"}, want{kind: "error", code: "system.timeout", msg: "Request timeout"}},
		{"call", "m", act{Op: "reply", K: "error", V: "predef-internal"}, want{kind: "error", code: "system.internalError", msg: "Internal error"}},
		{"access", "m", act{Op: "reply", K: "denied"}, want{kind: "error", code: "system.accessDenied", msg: "Access denied"}},
		{"call", "m", act{Op: "reply", K: "error", V: "reserr"}, want{kind: "error", code: "custom.code", msg: errRes.Message}},
		{"call", "m", act{Op: "reply", K: "error", V: "reserr-nomsg"}, want{kind: "error", code: "custom.nomsg", msg: "<empty>"}},
	}
	// query requests answered by query callbacks with the library's and with their own
	// invalid-query, not-found and error messages - before and between the cases above
	queryReplies := func() bool {
		for _, reply := range []string{"invalidquery:no such filter", "invalidquery:", "notfound", "error-predef", "invalidquery:second message"} {
			reply := reply
			start := rn.rig.C.Len()
			if err := rn.rig.S.With("svc.m.q18", func(r res.Resource) {
				r.QueryEvent(func(qr res.QueryRequest) {
					if qr == nil {
						return
					}
					switch {
					case strings.HasPrefix(reply, "invalidquery:"):
						qr.InvalidQuery(strings.TrimPrefix(reply, "invalidquery:"))
					case reply == "notfound":
						qr.NotFound()
					default:
						qr.Error(res.ErrInvalidQuery)
					}
				})
			}); err != nil {
				c.Inconclusive("With: " + err.Error())
				return false
			}
			var subj string
			for i := 0; i < 2000 && subj == ""; i++ {
				for _, m := range rn.rig.C.Since(start) {
					if m.Subject == "event.svc.m.q18.query" {
						var qe struct {
							Subject string `json:"subject"`
						}
						json.Unmarshal(m.Data, &qe)
						subj = qe.Subject
					}
				}
				if subj == "" {
					time.Sleep(time.Millisecond)
				}
			}
			inbox, qd := newInbox(), make(chan struct{})
			qdoneMap.Store(inbox, qd)
			if subj == "" || rn.rig.C.Deliver(subj, inbox, []byte(`{"query":"a=1"}`)) != 1 || !waitCh(qd, 2*time.Second) {
				// the query event (20 ms here) expired before the request got through: no case
				c.Obs("query_request_error_replies_skipped", 1)
				continue
			}
			resp, _ := replies(rn.rig.C.Since(start), inbox)
			c.Eval(1)
			c.Obs("query_request_error_replies", 1)
			if len(resp) != 1 {
				continue
			}
			pr := resprot.ParseResponse(resp[0].Data)
			wantCode, wantMsg := "system.invalidQuery", "Invalid query"
			switch {
			case reply == "notfound":
				wantCode, wantMsg = "system.notFound", "Not found"
			case strings.HasPrefix(reply, "invalidquery:") && reply != "invalidquery:":
				wantMsg = strings.TrimPrefix(reply, "invalidquery:")
			}
			if !pr.HasError() || pr.Error.Code != wantCode || pr.Error.Message != wantMsg {
				c.Violation("C18/query-response-error", fmt.Sprintf("query callback answered with %s: the response %s decodes to %s, want code %q message %q", reply, resp[0].Payload, jsonStr(pr.Error), wantCode, wantMsg),
					map[string]interface{}{"callback_reply": reply, "response": resp[0].Payload})
			}
		}
		return true
	}
	if !queryReplies() {
		return
	}
	defer checkPredefinedErrors(c, "C18")
	for i := 0; i < p.N/50; i++ {
		if i > 0 && i%len(cases) == 0 && i/len(cases) <= 3 && !queryReplies() {
			return
		}
		cs := cases[i%len(cases)]
		pk := []int{0, 1}[(i/len(cases))%2] // plain and http payloads (meta)
		sc := script{cs.a}
		if pk == 1 && cs.rtype != "get" && cs.rtype != "new" && i%3 == 0 {
			sc = script{{Op: "meta", K: "status"}, {Op: "meta", K: "header"}, cs.a}
		}
		id := rn.tbl.add(scriptEntry{sc: sc})
		method := map[string]string{"call": "do", "auth": "login"}[cs.rtype]
		subject := c04Subject(cs.rtype, cs.pattern, id, method)
		start := rn.rig.C.Len()
		inbox, done, n := rn.rig.send(subject, []byte(c04Payloads[pk].data))
		if n != 1 || !waitCh(done, 10*time.Second) {
			c.Inconclusive("request not processed")
			return
		}
		resp, _ := replies(rn.rig.C.Since(start), inbox)
		rn.tbl.del(id)
		c.Eval(1)
		if len(resp) != 1 {
			continue // C04's business
		}
		pr := resprot.ParseResponse(resp[0].Data)
		desc := map[string]interface{}{"subject": subject, "script": sc.String(), "response": resp[0].Payload}
		flags := 0
		for _, f := range []bool{pr.HasError(), pr.HasResource(), pr.HasResult()} {
			if f {
				flags++
			}
		}
		if flags != 1 {
			c.Violation("C18/response-classification-count", fmt.Sprintf("ParseResponse(%s): HasError=%v HasResource=%v HasResult=%v, want exactly one", resp[0].Payload, pr.HasError(), pr.HasResource(), pr.HasResult()), desc)
			continue
		}
		gotKind := map[bool]string{true: "error"}[pr.HasError()]
		if pr.HasResource() {
			gotKind = "resource"
		} else if pr.HasResult() {
			gotKind = "result"
		}
		if gotKind != cs.w.kind {
			c.Violation("C18/response-kind:"+gotKind+"-instead-of-"+cs.w.kind, fmt.Sprintf("response %s parsed as %s, handler supplied a %s", resp[0].Payload, gotKind, cs.w.kind), desc)
			continue
		}
		switch cs.w.kind {
		case "error":
			if pr.Error.Code != cs.w.code {
				c.Violation("C18/response-error-code", fmt.Sprintf("parsed error code %q, want %q", pr.Error.Code, cs.w.code), desc)
			} else if wm := strings.Replace(cs.w.msg, "<empty>", "", 1); cs.w.msg != "" && pr.Error.Message != wm {
				c.Violation("C18/response-error-message:"+cs.w.code, fmt.Sprintf("response %s decodes to message %q, the handler supplied %q", resp[0].Payload, pr.Error.Message, wm), desc)
			}
		case "resource":
			if string(pr.Resource) != cs.w.rid {
				c.Violation("C18/response-resource", fmt.Sprintf("parsed resource %q, want %q", pr.Resource, cs.w.rid), desc)
			}
		case "result":
			var v interface{}
			if err := pr.ParseResult(&v); err != nil || jsonStr(v) != cs.w.result {
				c.Violation("C18/response-result:"+cs.rtype, fmt.Sprintf("ParseResult gives %s (err %v), handler supplied %s", jsonStr(v), err, cs.w.result), desc)
			}
			switch {
			case cs.rtype == "get" && cs.pattern == "m":
				var m map[string]interface{}
				q, err := pr.ParseModel(&m)
				wantM := jsonNorm(scriptModelValue("map"))
				wantQ := ""
				if cs.a.K == "querymodel" {
					wantQ = "q=1"
				}
				if err != nil || !reflect.DeepEqual(jsonNorm(m), wantM) || q != wantQ {
					c.Violation("C18/parse-model", fmt.Sprintf("ParseModel gives %v query %q err %v", m, q, err), desc)
				}
				var l []interface{}
				if _, err := pr.ParseCollection(&l); err == nil {
					c.Violation("C18/parse-collection-on-model", "ParseCollection succeeded on a model response", desc)
				}
			case cs.rtype == "get" && cs.pattern == "c":
				var l []interface{}
				q, err := pr.ParseCollection(&l)
				wantQ := ""
				if cs.a.K == "querycollection" {
					wantQ = "q=1"
				}
				if err != nil || !reflect.DeepEqual(jsonNorm(l), jsonNorm(scriptCollectionValue("list"))) || q != wantQ {
					c.Violation("C18/parse-collection", fmt.Sprintf("ParseCollection gives %v query %q err %v", l, q, err), desc)
				}
			case cs.rtype == "access":
				g, call, err := pr.AccessResult()
				var w struct {
					Get  bool   `json:"get"`
					Call string `json:"call"`
				}
				json.Unmarshal([]byte(cs.w.result), &w)
				if err != nil || g != w.Get || call != w.Call {
					c.Violation("C18/access-result", fmt.Sprintf("AccessResult gives (%v,%q,%v), handler supplied (%v,%q)", g, call, err, w.Get, w.Call), desc)
				}
			}
		}
		c.Distinct(fmt.Sprintf("resp:%s:%s:%d", cs.rtype, sc.String(), pk))
		if i == 1 {
			c.Sample(desc)
		}
	}
}
