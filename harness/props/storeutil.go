package props

import (
	"errors"
	"fmt"
	"math"
	"os"
	"strings"
	"sync"

	"github.com/dgraph-io/badger"
	"github.com/jirenius/go-res/store"
	"github.com/jirenius/go-res/store/badgerstore"
	"github.com/jirenius/go-res/store/mockstore"
)

// tItem is the value type of typed stores.
type tItem struct {
	U    string `json:"u"`
	K    string `json:"k,omitempty"`
	K2   string `json:"k2,omitempty"`
	Veto bool   `json:"veto,omitempty"`
	// F is only set (to NaN) to build a value that encoding/json cannot encode.
	F float64 `json:"f,omitempty"`
}

// mkUnencodable builds a value of the store's type that cannot be marshalled.
func mkUnencodable(typed bool, u, k string) interface{} {
	if typed {
		return tItem{U: u, K: k, F: math.NaN()}
	}
	return map[string]interface{}{"u": u, "k": k, "f": math.NaN()}
}

// mkValue builds a store value of the store's type.
func mkValue(typed bool, u, k string, veto bool) interface{} {
	if typed {
		return tItem{U: u, K: k, Veto: veto}
	}
	m := map[string]interface{}{"u": u}
	if k != "" {
		m["k"] = k
	}
	if veto {
		m["veto"] = true
	}
	return m
}

func mkValue2(typed bool, u, k, k2 string) interface{} {
	if typed {
		return tItem{U: u, K: k, K2: k2}
	}
	m := map[string]interface{}{"u": u}
	if k != "" {
		m["k"] = k
	}
	if k2 != "" {
		m["k2"] = k2
	}
	return m
}

// valUID extracts the unique id of a stored value ("" for nil).
func valUID(v interface{}) string {
	switch t := v.(type) {
	case nil:
		return ""
	case tItem:
		return t.U
	case *tItem:
		return t.U
	case map[string]interface{}:
		s, _ := t["u"].(string)
		return s
	}
	return fmt.Sprintf("?%T", v)
}

func valKey(v interface{}, field string) (string, bool) {
	switch t := v.(type) {
	case tItem:
		if field == "k2" {
			return t.K2, t.K2 != ""
		}
		return t.K, t.K != ""
	case map[string]interface{}:
		s, ok := t[field].(string)
		return s, ok && s != ""
	}
	return "", false
}

// emptyKeyMarker in a key field makes the index key function return an empty,
// non-nil key: the value IS indexed (under the empty key), unlike a nil key.
const emptyKeyMarker = "<empty>"

// idxKeyOf returns the index key of a value for a key field and whether the
// value is indexed at all.
func idxKeyOf(v interface{}, field string) (string, bool) {
	raw, ok := valKey(v, field)
	if !ok {
		return "", false
	}
	if raw == emptyKeyMarker {
		return "", true
	}
	// "<FF>" in a stored key stands for the byte 0xFF (which a JSON string
	// cannot carry): index keys are arbitrary bytes
	if strings.Contains(raw, "<FF>") {
		raw = strings.ReplaceAll(raw, "<FF>", "\xff")
	}
	// "<00>" likewise stands for the byte 0x00
	if strings.Contains(raw, "<00>") {
		raw = strings.ReplaceAll(raw, "<00>", "\x00")
	}
	return raw, true
}

func valVeto(v interface{}) bool {
	switch t := v.(type) {
	case tItem:
		return t.Veto
	case map[string]interface{}:
		b, _ := t["veto"].(bool)
		return b
	}
	return false
}

// errClass classifies a store error.
func errClass(err error) string {
	switch {
	case err == nil:
		return "ok"
	case errors.Is(err, store.ErrNotFound):
		return "notfound"
	case errors.Is(err, store.ErrDuplicate):
		return "duplicate"
	case errors.Is(err, errVeto):
		return "veto"
	}
	return "other"
}

var errVeto = errors.New("vetoed by BeforeChange")

// openBadger opens a small badger database in a fresh temp dir.
func openBadger(dir string) (*badger.DB, error) {
	opts := badger.DefaultOptions(dir).WithLogger(nil).WithTruncate(true).
		WithMaxTableSize(1 << 20).WithValueLogFileSize(1 << 22).WithNumMemtables(2).
		WithNumLevelZeroTables(2).WithNumLevelZeroTablesStall(4).WithNumCompactors(1).WithSyncWrites(false)
	return badger.Open(opts)
}

var badgerOnce sync.Once
var sharedDB *badger.DB
var sharedDir string

// sharedBadger returns one database per process (histories use disjoint prefixes).
func sharedBadger() (*badger.DB, error) {
	var err error
	badgerOnce.Do(func() {
		sharedDir, err = os.MkdirTemp("", "rvmon-badger-")
		if err != nil {
			return
		}
		sharedDB, err = openBadger(sharedDir)
	})
	if sharedDB == nil && err == nil {
		err = errors.New("badger not available")
	}
	return sharedDB, err
}

func closeSharedBadger() {
	if sharedDB != nil {
		sharedDB.Close()
		os.RemoveAll(sharedDir)
	}
}

// storeKind describes a store configuration under test.
type storeKind struct {
	Impl   string `json:"impl"` // badger | mock
	Typed  bool   `json:"typed"`
	Prefix string `json:"prefix"`
	// Bare: no OnChange/BeforeChange listener is registered on the store.
	Bare bool `json:"bare,omitempty"`
}

func (k storeKind) String() string {
	return fmt.Sprintf("%s/typed=%v/prefix=%q", k.Impl, k.Typed, k.Prefix)
}

// newStore creates a store of the given kind. For badger the prefix is
// combined with ns so that histories in a shared database do not collide.
func newStore(k storeKind, ns string) (store.Store, *badgerstore.Store, error) {
	switch k.Impl {
	case "mock":
		return mockstore.NewStore(), nil, nil
	default:
		db, err := sharedBadger()
		if err != nil {
			return nil, nil, err
		}
		st := badgerstore.NewStore(db)
		pfx := k.Prefix
		if pfx != "" {
			pfx = pfx + ns
		}
		st.SetPrefix(pfx)
		if k.Typed {
			st.SetType(tItem{})
		}
		return st, st, nil
	}
}

// wrapErrStore is a store.Store over another one whose transactions return the
// not-found and duplicate errors wrapped in an error of their own, as the
// store interfaces document a store may ("ErrNotFound (or an error that wraps
// ErrNotFound)"). Handlers built on the interfaces must treat both alike.
type wrapErrStore struct{ store.Store }

type wrapErrRead struct{ store.ReadTxn }
type wrapErrWrite struct{ store.WriteTxn }

func wrapStoreErr(id string, err error) error {
	if err != nil && (errors.Is(err, store.ErrNotFound) || errors.Is(err, store.ErrDuplicate)) {
		return fmt.Errorf("item %q: %w", id, err)
	}
	return err
}

func (s wrapErrStore) Read(id string) store.ReadTxn   { return wrapErrRead{s.Store.Read(id)} }
func (s wrapErrStore) Write(id string) store.WriteTxn { return wrapErrWrite{s.Store.Write(id)} }

func (t wrapErrRead) Value() (interface{}, error) {
	v, err := t.ReadTxn.Value()
	return v, wrapStoreErr(t.ID(), err)
}
func (t wrapErrWrite) Value() (interface{}, error) {
	v, err := t.WriteTxn.Value()
	return v, wrapStoreErr(t.ID(), err)
}
func (t wrapErrWrite) Create(v interface{}) error { return wrapStoreErr(t.ID(), t.WriteTxn.Create(v)) }
func (t wrapErrWrite) Update(v interface{}) error { return wrapStoreErr(t.ID(), t.WriteTxn.Update(v)) }
func (t wrapErrWrite) Delete() error              { return wrapStoreErr(t.ID(), t.WriteTxn.Delete()) }
