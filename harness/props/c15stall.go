package props

import (
	"encoding/json"
	"fmt"
	"strings"
	"sync"
	"sync/atomic"
	"time"

	res "github.com/jirenius/go-res"
	nats "github.com/nats-io/nats.go"

	"verif/harness/internal/core"
	"verif/harness/internal/natsenv"
)

// c15StalledLink: the link from the NATS server to the service stalls around the expiry of
// a query event. A query request sent while the event was active sits in the stalled link;
// the event expires meanwhile and the service asks for its subscription to be drained, but
// the server's acknowledgement is stalled as well. When the link recovers, the request is
// delivered: it was sent in time, so it gets exactly one response and the callback sees it
// before its final nil call. The stall lasts `stall` after the expiry; nothing in the
// verdict depends on how long anything took.
func c15StalledLink(c *core.Ctx, stall time.Duration) {
	rigInstall()
	ne, err := natsenv.Start()
	if err != nil {
		c.Inconclusive("environment: " + err.Error())
		return
	}
	defer ne.Shutdown()
	px, err := ne.NewProxy()
	if err != nil {
		c.Inconclusive("proxy: " + err.Error())
		return
	}
	defer px.Close()
	nc, err := nats.Connect(px.URL(), nats.Name("service"), nats.MaxReconnects(-1), nats.ReconnectWait(20*time.Millisecond))
	if err != nil {
		c.Inconclusive("connect through proxy: " + err.Error())
		return
	}
	const dur = 300 * time.Millisecond
	svc := res.NewService("svc")
	svc.SetLogger(&cntLogger{})
	svc.SetQueryEventDuration(dur)
	svc.Handle("qc.$id", res.Collection, res.GetResource(func(r res.GetRequest) { r.NotFound() }))
	served := make(chan struct{})
	serveR := make(chan error, 1)
	svc.SetOnServe(func(*res.Service) { close(served) })
	go func() { serveR <- svc.Serve(nc) }()
	select {
	case <-served:
		nc.Flush()
	case err := <-serveR:
		c.Inconclusive(fmt.Sprintf("Serve returned: %v", err))
		return
	case <-time.After(10 * time.Second):
		c.Inconclusive("service did not start")
		return
	}
	defer func() {
		px.Release()
		svc.Shutdown()
		select {
		case <-serveR:
		case <-time.After(5 * time.Second):
		}
	}()
	var mu sync.Mutex
	var calls []string
	nilCalled := make(chan struct{})
	w0 := ne.WireLen()
	err = svc.With("svc.qc.1", func(r res.Resource) {
		r.QueryEvent(func(qr res.QueryRequest) {
			mu.Lock()
			defer mu.Unlock()
			if qr == nil {
				calls = append(calls, "nil")
				if len(calls) > 0 && calls[len(calls)-1] == "nil" {
					select {
					case <-nilCalled:
					default:
						close(nilCalled)
					}
				}
				return
			}
			calls = append(calls, "req:"+qr.Query())
			qr.AddEvent("x", 0)
		})
	})
	if err != nil {
		c.Inconclusive("With: " + err.Error())
		return
	}
	// the query event on the wire carries the subject for query requests
	var qsubj string
	ok := ne.WaitWire(func(w []natsenv.WireMsg) bool {
		for _, m := range w[w0:] {
			if m.Subject == "event.svc.qc.1.query" {
				var p struct {
					Subject string `json:"subject"`
				}
				json.Unmarshal(m.Data, &p)
				qsubj = p.Subject
				return qsubj != ""
			}
		}
		return false
	}, 5*time.Second)
	if !ok {
		c.Inconclusive("stalled-link: query event not seen on the wire")
		return
	}
	// stall the link, then send the request: the event is active (a few ms of its 300 ms)
	px.Hold()
	inbox := nats.NewInbox()
	rsub, err := ne.GW.SubscribeSync(inbox)
	if err != nil {
		c.Inconclusive("gateway subscribe: " + err.Error())
		return
	}
	ne.GW.PublishRequest(qsubj, inbox, []byte(`{"query":"a=1"}`))
	ne.GW.Flush()
	select {
	case <-nilCalled:
		// the event has ended while the link still holds the request
	case <-time.After(dur + stall):
	}
	time.Sleep(50 * time.Millisecond)
	held := px.HeldBytes()
	px.Release()
	c.Eval(1)
	c.Obs("stalled_link_cases", 1)
	c.Obs("stalled_link_held_bytes", held)
	if held == 0 {
		c.Inconclusive("stalled-link: nothing was held back by the proxy")
		return
	}
	var resp []string
	if m, err := rsub.NextMsg(15 * time.Second); err == nil {
		resp = append(resp, string(m.Data))
		for {
			m, err := rsub.NextMsg(300 * time.Millisecond)
			if err != nil {
				break
			}
			resp = append(resp, string(m.Data))
		}
	}
	// the final nil call follows the delivered request
	select {
	case <-nilCalled:
	case <-time.After(15 * time.Second):
	}
	mu.Lock()
	got := append([]string(nil), calls...)
	mu.Unlock()
	desc := map[string]interface{}{"query_event_duration_ms": dur.Milliseconds(), "link_stalled_for_ms_after_expiry": stall.Milliseconds(), "bytes_held": held, "callback_calls": got, "responses": resp,
		"scenario": "query request sent while the event is active, held in a stalled server-to-service link across the expiry, delivered when the link recovers"}
	c.Distinct(fmt.Sprintf("stalled-link/%v", stall))
	if len(resp) != 1 {
		c.Violation("C15/stalled-link:responses", fmt.Sprintf("a query request sent while the query event was active got %d responses after the stalled link recovered (callback calls %v)", len(resp), got), desc)
		return
	}
	if !strings.Contains(resp[0], `"events"`) {
		c.Violation("C15/stalled-link:response-content", "the delayed query request was not answered with the callback's events: "+short(resp[0], 200), desc)
	}
	if strings.Join(got, ",") != "req:a=1,nil" {
		c.Violation("C15/stalled-link:callback-calls", fmt.Sprintf("callback calls %v, want [req:a=1 nil]", got), desc)
	}
}

// c15FreshSubjects: query events are sent from sixteen resources of sixteen groups at the
// same time, round after round. Every query event announces a subject no other query event
// of the run has announced.
func c15FreshSubjects(c *core.Ctx, rounds int) {
	rigInstall()
	const nres = 16
	var nils int64
	rg := newRig("svc", func(s *res.Service) {
		s.SetQueryEventDuration(5 * time.Millisecond)
		s.SetWorkerCount(nres)
		s.Handle("fs.$id", res.GetCollection(func(r res.CollectionRequest) { r.NotFound() }))
	})
	rg.C.NoGoID = true
	if err := rg.start(); err != nil {
		c.Inconclusive("start: " + err.Error())
		return
	}
	defer rg.stop()
	seen := map[string]string{}
	total := 0
	for round := 0; round < rounds; round++ {
		pos := rg.C.Len()
		want := atomic.LoadInt64(&nils) + nres*8
		start := make(chan struct{})
		var wg sync.WaitGroup
		for i := 0; i < nres; i++ {
			wg.Add(1)
			go func(i int) {
				defer wg.Done()
				<-start
				for k := 0; k < 8; k++ {
					rg.S.With(fmt.Sprintf("svc.fs.%d", i), func(r res.Resource) {
						r.QueryEvent(func(qr res.QueryRequest) {
							if qr == nil {
								atomic.AddInt64(&nils, 1)
							}
						})
					})
				}
			}(i)
		}
		close(start)
		wg.Wait()
		for t := 0; t < 4000 && atomic.LoadInt64(&nils) < want; t++ {
			time.Sleep(time.Millisecond)
		}
		if atomic.LoadInt64(&nils) < want {
			c.Inconclusive("fresh-subjects: query events did not end")
			return
		}
		for _, m := range rg.C.Since(pos) {
			if !strings.HasPrefix(m.Subject, "event.svc.fs.") || !strings.HasSuffix(m.Subject, ".query") {
				continue
			}
			var qe struct {
				Subject string `json:"subject"`
			}
			json.Unmarshal(m.Data, &qe)
			total++
			c.Eval(1)
			if first, dup := seen[qe.Subject]; dup || qe.Subject == "" {
				c.Violation("C15/subject-not-fresh", fmt.Sprintf("the query event on %s announces the subject %q, which the query event on %s announced before (%d query events so far, sent from %d groups at the same time)", m.Subject, qe.Subject, first, total, nres),
					map[string]interface{}{"subject": qe.Subject, "first": first, "second": m.Subject, "query_events": total})
				return
			}
			seen[qe.Subject] = m.Subject
		}
	}
	c.Obs("query_event_subjects_compared", int64(total))
	c.Distinct(fmt.Sprintf("fresh-subjects/%d", rounds))
}
