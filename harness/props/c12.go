package props

import (
	"bufio"
	"encoding/json"
	"fmt"
	"math/rand"
	"os"
	"os/exec"
	"path/filepath"
	"sort"
	"strings"
	"syscall"
	"time"

	"github.com/dgraph-io/badger"
	"github.com/jirenius/go-res/store/badgerstore"

	"verif/harness/internal/core"
	"verif/harness/internal/sched"
)

// C12 - Acknowledged store writes survive a crash; Init seeds once; indexes rebuild.

type c12Cfg struct {
	Typed   bool   `json:"typed"`
	Prefix  string `json:"prefix"`
	Indexes bool   `json:"indexes"`
	Seed    int64  `json:"seed"`
	Steps   int    `json:"steps"`
	// Prologue: how the history starts. "" (a failed Init, seed2 created and updated by the
	// application, then Init) | "all-precreated" (the application creates every seed id itself
	// before the first Init, which therefore adds nothing; a seed deleted afterwards stays
	// deleted) | "empty-first-init" (the first Init has no seeds at all: the store is
	// initialized from then on and a later Init with seeds adds nothing)
	Prologue string `json:"prologue,omitempty"`
}

type c12Params struct {
	Kind   string   `json:"kind"` // enum | random | double
	Cfg    c12Cfg   `json:"cfg"`
	Points []string `json:"points,omitempty"`
	N      int      `json:"n"`
}

// c12Work is the configuration of one workload process.
type c12Work struct {
	Cfg       c12Cfg `json:"cfg"`
	Dir       string `json:"dir"`
	AckFile   string `json:"ack_file"`
	CountFile string `json:"count_file"`
	KillPoint string `json:"kill_point"`
	KillN     int64  `json:"kill_n"`
	Phase     string `json:"phase"` // work | recover
	// KillAfterUS > 0: SIGKILL self that many microseconds after the database was opened
	KillAfterUS int64 `json:"kill_after_us,omitempty"`
}

var c12Points = []string{"create.committed", "update.committed", "delete.committed", "init.seeded", "init.notified", "init.returned", "index.begin", "index.committed", "index.end"}

func init() {
	core.Register(&core.Prop{
		ID:    "C12",
		Level: "fault_enumeration",
		Rule: "a case is one SIGKILL of a workload process (Init with seeds, creates, updates, deletes, deletion of seeds, re-Init, Flush on a real badgerstore Store + QueryStore) followed by reopening the database directory, comparing every id and the init marker with the state after the last acknowledged operation or after the in-flight one (acknowledgement records are written with one write(2) after each call returned), running Init again and counting seed creations, then RebuildIndexes and a query battery against a reference over the stored values. " +
			"fault list: a counting run records how often each kill point fires; every (kill point, occurrence) pair is executed once (exhaustive for that list), plus kills at seed-determined random times from outside (inside Badger's commit path) and double crashes (kill during recovery-time Init / RebuildIndexes). distinct non-trivial = distinct (configuration, kill point, occurrence) or (configuration, random kill index) cases in which at least one operation had been acknowledged",
		Assumptions: []string{
			"process kill only: power loss / lost page cache cannot be produced in this sandbox",
			"the database is reopened WithTruncate(true) as the repository's examples do",
		},
		Parallel: 8,
		Batches: func(seed int64, tier core.Tier) []core.Batch {
			var bs []core.Batch
			cfgs := []c12Cfg{{false, "pfx", true, seed, 0, ""}, {true, "", true, seed + 1, 0, ""}, {false, "", false, seed + 2, 0, ""}, {true, "p2", false, seed + 3, 0, ""}}
			cfgs[0].Prologue, cfgs[1].Prologue, cfgs[2].Prologue = "", "all-precreated", "empty-first-init"
			for i, cf := range cfgs {
				cf.Steps = tierPick(tier, 10, 40)
				// split the point list over batches to use the cores
				for j := 0; j < len(c12Points); j += 3 {
					bs = append(bs, core.Batch{Name: fmt.Sprintf("enum-%d-%d", i, j/3), TimeoutS: 900, Params: core.Params(c12Params{Kind: "enum", Cfg: cf, Points: c12Points[j:minInt(j+3, len(c12Points))]})})
				}
				bs = append(bs, core.Batch{Name: fmt.Sprintf("random-%d", i), TimeoutS: 900, Params: core.Params(c12Params{Kind: "random", Cfg: cf, N: tierPick(tier, 8, 400)})})
				bs = append(bs, core.Batch{Name: fmt.Sprintf("double-%d", i), TimeoutS: 900, Params: core.Params(c12Params{Kind: "double", Cfg: cf, N: tierPick(tier, 4, 120)})})
			}
			return bs
		},
		Exhaustive:     func(core.Tier) bool { return false },
		MinEvaluations: func(t core.Tier) int64 { return 60 },
		Run:            c12Run,
	})
}

type c12Op struct {
	Kind string `json:"kind"` // init create update delete flush
	ID   string `json:"id,omitempty"`
	U    string `json:"u,omitempty"`
	K    string `json:"k,omitempty"`
	// Bad: the written value cannot be encoded (create/update), or one of the
	// seeds cannot (kind init-bad): the call must fail and change nothing.
	Bad bool `json:"bad,omitempty"`
}

var c12Seeds = map[string][2]string{"seed1": {"s1", "a"}, "seed2": {"s2", "ab"}, "seed3": {"s3", ""}}
var c12IDs = []string{"seed1", "seed2", "seed3", "x1", "x2", "x3"}

// c12Ops derives the deterministic operation list of a configuration.
func c12Ops(cfg c12Cfg) []c12Op {
	r := rand.New(rand.NewSource(cfg.Seed))
	// seed2 is created (and updated) by the application before the first successful Init:
	// Init must keep the acknowledged value and only add the missing seeds
	ops := []c12Op{{Kind: "init-bad", Bad: true, U: "nan"}, {Kind: "init-bad", Bad: true, U: []string{"emptyid", "dup", "wrongtype"}[int(cfg.Seed%3+3)%3]}, {Kind: "create", ID: "seed2", U: "own2", K: "b"}, {Kind: "update", ID: "seed2", U: "own2b", K: "ba"}, {Kind: "init"}, {Kind: "create", ID: "x1", U: "first", K: "ab"}, {Kind: "update", ID: "x1", U: "second", K: "b"},
		{Kind: "create", ID: "x3", U: "nan1", K: "a", Bad: true}, {Kind: "update", ID: "x1", U: "nan2", K: "a", Bad: true},
		{Kind: "update", ID: "seed1", U: "s1b", K: "z"}, {Kind: "delete", ID: "x1"}, {Kind: "create", ID: "x2", U: "third", K: ""}}
	switch cfg.Prologue {
	case "all-precreated":
		ops = []c12Op{{Kind: "init-bad", Bad: true, U: "dup"}, {Kind: "create", ID: "seed1", U: "own1", K: "c"}, {Kind: "create", ID: "seed2", U: "own2", K: "b"}, {Kind: "create", ID: "seed3", U: "own3", K: ""}, {Kind: "update", ID: "seed3", U: "own3b", K: "ab"},
			{Kind: "init"}, {Kind: "delete", ID: "seed1"}, {Kind: "init"}, {Kind: "create", ID: "x1", U: "first", K: "ab"}, {Kind: "flush"}, {Kind: "delete", ID: "seed3"}, {Kind: "init"}}
	case "empty-first-init":
		ops = []c12Op{{Kind: "init-bad", Bad: true, U: "emptyid"}, {Kind: "init-bad", Bad: true, U: "wrongtype"}, {Kind: "init-empty"}, {Kind: "create", ID: "x1", U: "first", K: "ab"}, {Kind: "init"}, {Kind: "create", ID: "seed1", U: "own1", K: "c"}, {Kind: "init"}, {Kind: "update", ID: "x1", U: "second", K: "b"}}
	}
	for i := 0; i < cfg.Steps; i++ {
		id := c12IDs[r.Intn(len(c12IDs))]
		k := idxKeys[r.Intn(6)]
		if r.Intn(5) == 0 {
			k = ""
		}
		switch v := r.Intn(14); {
		case v >= 12:
			ops = append(ops, c12Op{Kind: []string{"create", "update"}[v-12], ID: id, U: fmt.Sprintf("nan%d", i), K: k, Bad: true})
		case v < 4:
			ops = append(ops, c12Op{Kind: "create", ID: id, U: fmt.Sprintf("u%d", i), K: k})
		case v < 8:
			ops = append(ops, c12Op{Kind: "update", ID: id, U: fmt.Sprintf("u%d", i), K: k})
		case v < 10:
			ops = append(ops, c12Op{Kind: "delete", ID: id})
		case v < 11:
			ops = append(ops, c12Op{Kind: "init"})
		default:
			ops = append(ops, c12Op{Kind: "flush"})
		}
	}
	ops = append(ops, c12Op{Kind: "delete", ID: "seed2"}, c12Op{Kind: "init"}, c12Op{Kind: "flush"})
	return ops
}

type c12Store struct {
	db *badger.DB
	st *badgerstore.Store
	qs *badgerstore.QueryStore
}

func c12Open(dir string, cfg c12Cfg) (*c12Store, error) {
	db, err := openBadger(dir)
	if err != nil {
		return nil, err
	}
	s := &c12Store{db: db}
	s.st = badgerstore.NewStore(db).SetPrefix(cfg.Prefix)
	if cfg.Typed {
		s.st.SetType(tItem{})
	}
	if cfg.Prefix != "" {
		// a second store shares the database (what SetPrefix is for); its prefix sorts after
		// this store's and its values look like this store's. They are none of this store's
		// business: not in its queries, not in its index after a rebuild
		other := badgerstore.NewStore(db).SetPrefix("zzother")
		if cfg.Typed {
			other.SetType(tItem{})
		}
		for i, k := range []string{"a", "ab", "b"} {
			wt := other.Write(fmt.Sprintf("foreign%d", i))
			if !wt.Exists() {
				if err := wt.Create(mkValue2(cfg.Typed, fmt.Sprintf("foreign.u%d", i), k, "")); err != nil {
					wt.Close()
					db.Close()
					return nil, fmt.Errorf("second store in the same database: %v", err)
				}
			}
			wt.Close()
		}
	}
	if cfg.Indexes {
		s.qs = badgerstore.NewQueryStore(s.st, idxIQ).
			AddIndex(badgerstore.Index{Name: "k", Key: idxKey("k", nil)}).
			AddIndex(badgerstore.Index{Name: "x2", Key: idxKey("k2", nil)})
	}
	return s, nil
}

func (s *c12Store) init(typed bool) (created int, err error) {
	return s.initSeeds(typed, "")
}

// initSeeds runs Init; bad says what is wrong with the seed set: "nan" (the second seed
// cannot be encoded), "emptyid" / "dup" / "wrongtype" (the second seed has an empty id,
// the id of the first one, a value of another type; the callback itself returns nil).
func (s *c12Store) initSeeds(typed bool, bad string) (created int, err error) {
	cb := func(id string, before, after interface{}) {
		if before == nil {
			created++
		}
	}
	s.st.OnChange(cb)
	err = s.st.Init(func(add func(id string, v interface{})) error {
		ids := make([]string, 0, len(c12Seeds))
		for id := range c12Seeds {
			ids = append(ids, id)
		}
		sort.Strings(ids)
		for i, id := range ids {
			if bad != "" && i == 1 {
				switch bad {
				case "nan":
					add(id, mkUnencodable(typed, c12Seeds[id][0], c12Seeds[id][1]))
				case "emptyid":
					add("", mkValue2(typed, c12Seeds[id][0], c12Seeds[id][1], ""))
				case "dup":
					add(ids[0], mkValue2(typed, c12Seeds[id][0], c12Seeds[id][1], ""))
				case "wrongtype":
					add(id, mkValue2(!typed, c12Seeds[id][0], c12Seeds[id][1], ""))
				}
				continue
			}
			add(id, mkValue2(typed, c12Seeds[id][0], c12Seeds[id][1], ""))
		}
		return nil
	})
	return created, err
}

func (s *c12Store) apply(op c12Op, typed bool) error {
	switch op.Kind {
	case "init":
		_, err := s.init(typed)
		return err
	case "init-bad":
		_, err := s.initSeeds(typed, op.U)
		return err
	case "init-empty":
		return s.st.Init(func(add func(id string, v interface{})) error { return nil })
	case "flush":
		if s.qs != nil {
			s.qs.Flush()
		}
		return nil
	}
	wt := s.st.Write(op.ID)
	defer wt.Close()
	v := mkValue2(typed, op.U, op.K, "")
	if op.Bad {
		v = mkUnencodable(typed, op.U, op.K)
	}
	switch op.Kind {
	case "create":
		return wt.Create(v)
	case "update":
		return wt.Update(v)
	case "delete":
		return wt.Delete()
	}
	return nil
}

// C12WorkMain is the entry point of the workload process (rvmon c12work <file>).
func C12WorkMain(file string) int {
	var w c12Work
	b, err := os.ReadFile(file)
	if err != nil || json.Unmarshal(b, &w) != nil {
		fmt.Fprintln(os.Stderr, "c12work: bad config")
		return 2
	}
	sched.Install()
	ack, err := os.OpenFile(w.AckFile, os.O_CREATE|os.O_WRONLY|os.O_APPEND, 0o644)
	if err != nil {
		fmt.Fprintln(os.Stderr, err)
		return 2
	}
	line := func(format string, a ...interface{}) { ack.Write([]byte(fmt.Sprintf(format, a...) + "\n")) }
	s, err := c12Open(w.Dir, w.Cfg)
	if err != nil {
		line("OPENFAIL %s", err)
		return 3
	}
	line("OPENED")
	base := sched.Counts() // hook hits of opening (the second store's values) are not kill candidates
	if w.KillPoint != "" {
		sched.KillAtHit(w.KillPoint, w.KillN)
	}
	t0 := time.Now()
	if w.KillAfterUS > 0 {
		time.AfterFunc(time.Duration(w.KillAfterUS)*time.Microsecond, func() {
			syscall.Kill(syscall.Getpid(), syscall.SIGKILL)
		})
	}
	if w.Phase == "recover" {
		line("B 0 {\"kind\":\"init\"}")
		_, err := s.init(w.Cfg.Typed)
		line("A 0 %v", err == nil)
		if s.qs != nil {
			line("B 1 {\"kind\":\"rebuild\"}")
			err = s.qs.RebuildIndexes()
			line("A 1 %v", err == nil)
		}
	} else {
		for i, op := range c12Ops(w.Cfg) {
			ob, _ := json.Marshal(op)
			line("B %d %s", i, ob)
			err := s.apply(op, w.Cfg.Typed)
			line("A %d %v", i, err == nil)
		}
	}
	if s.qs != nil {
		s.qs.Flush()
	}
	s.db.Close()
	cm := sched.Counts()
	for k, v := range base {
		cm[k] -= v
	}
	cm["elapsed_us"] = int64(time.Since(t0) / time.Microsecond)
	cb, _ := json.Marshal(cm)
	os.WriteFile(w.CountFile, cb, 0o644)
	line("DONE")
	return 0
}

type c12Ack struct {
	N     int
	Op    c12Op
	Acked bool
	OK    bool
}

func c12ReadAcks(file string) (acks []c12Ack, opened, done bool) {
	f, err := os.Open(file)
	if err != nil {
		return nil, false, false
	}
	defer f.Close()
	sc := bufio.NewScanner(f)
	for sc.Scan() {
		ln := sc.Text()
		switch {
		case ln == "OPENED":
			opened = true
		case ln == "DONE":
			done = true
		case strings.HasPrefix(ln, "B "):
			parts := strings.SplitN(ln, " ", 3)
			var a c12Ack
			fmt.Sscan(parts[1], &a.N)
			if len(parts) == 3 {
				json.Unmarshal([]byte(parts[2]), &a.Op)
			}
			acks = append(acks, a)
		case strings.HasPrefix(ln, "A "):
			parts := strings.Fields(ln)
			if len(acks) > 0 && len(parts) == 3 {
				acks[len(acks)-1].Acked = true
				acks[len(acks)-1].OK = parts[2] == "true"
			}
		}
	}
	return
}

// c12Model is the reference state: id -> (uid,key), and the init marker.
type c12Model struct {
	Vals   map[string][2]string
	Inited bool
}

func (m c12Model) clone() c12Model {
	n := c12Model{Vals: map[string][2]string{}, Inited: m.Inited}
	for k, v := range m.Vals {
		n.Vals[k] = v
	}
	return n
}

// applyModel applies op to the model; returns whether the op succeeds.
func (m *c12Model) applyModel(op c12Op) bool {
	if op.Bad {
		return false // an unencodable value can never be applied
	}
	switch op.Kind {
	case "init-empty":
		// an Init without seeds initializes the store all the same
		m.Inited = true
		return true
	case "init":
		if !m.Inited {
			for id, s := range c12Seeds {
				if _, ok := m.Vals[id]; !ok {
					m.Vals[id] = s
				}
			}
			m.Inited = true
		}
		return true
	case "create":
		if _, ok := m.Vals[op.ID]; ok {
			return false
		}
		m.Vals[op.ID] = [2]string{op.U, op.K}
		return true
	case "update":
		if _, ok := m.Vals[op.ID]; !ok {
			return false
		}
		m.Vals[op.ID] = [2]string{op.U, op.K}
		return true
	case "delete":
		if _, ok := m.Vals[op.ID]; !ok {
			return false
		}
		delete(m.Vals, op.ID)
		return true
	}
	return true
}

func (m c12Model) String() string {
	ids := make([]string, 0, len(m.Vals))
	for id := range m.Vals {
		ids = append(ids, id)
	}
	sort.Strings(ids)
	var sb strings.Builder
	fmt.Fprintf(&sb, "inited=%v", m.Inited)
	for _, id := range ids {
		fmt.Fprintf(&sb, " %s=%s/%s", id, m.Vals[id][0], m.Vals[id][1])
	}
	return sb.String()
}

// c12ReadBack reads the database content into a model.
func c12ReadBack(s *c12Store, cfg c12Cfg) (c12Model, error) {
	m := c12Model{Vals: map[string][2]string{}}
	for _, id := range c12IDs {
		v, err := s.st.Get(id)
		if err != nil {
			if errClass(err) == "notfound" {
				continue
			}
			return m, fmt.Errorf("reading %s: %v", id, err)
		}
		k, _ := valKey(v, "k")
		m.Vals[id] = [2]string{valUID(v), k}
	}
	pfx := ""
	if cfg.Prefix != "" {
		pfx = cfg.Prefix + "."
	}
	err := s.db.View(func(txn *badger.Txn) error {
		_, err := txn.Get([]byte("$" + pfx + "init"))
		if err == nil {
			m.Inited = true
		} else if err != badger.ErrKeyNotFound {
			return err
		}
		return nil
	})
	return m, err
}

func c12RunWork(c *core.Ctx, w c12Work, killAfter time.Duration) (exit int, killed bool) {
	cfgFile := filepath.Join(filepath.Dir(w.AckFile), "work.json")
	b, _ := json.Marshal(w)
	os.WriteFile(cfgFile, b, 0o644)
	exe, _ := os.Executable()
	cmd := exec.Command(exe, "c12work", cfgFile)
	logf, _ := os.OpenFile(filepath.Join(filepath.Dir(w.AckFile), "work.log"), os.O_CREATE|os.O_WRONLY|os.O_APPEND, 0o644)
	cmd.Stdout, cmd.Stderr = logf, logf
	defer logf.Close()
	if err := cmd.Start(); err != nil {
		return -1, false
	}
	done := make(chan error, 1)
	go func() { done <- cmd.Wait() }()
	var timer <-chan time.Time
	if killAfter > 0 {
		timer = time.After(killAfter)
	}
	select {
	case err := <-done:
		if err != nil {
			if ee, ok := err.(*exec.ExitError); ok {
				if ws, ok := ee.Sys().(syscall.WaitStatus); ok && ws.Signaled() {
					return -1, true
				}
				return ee.ExitCode(), false
			}
			return -1, false
		}
		return 0, false
	case <-timer:
		cmd.Process.Kill()
		<-done
		return -1, true
	case <-time.After(120 * time.Second):
		cmd.Process.Kill()
		<-done
		return -2, false
	}
}

// c12Verify reopens the database after a kill and checks all conditions.
func c12Verify(c *core.Ctx, cfg c12Cfg, dir, ackFile string, desc map[string]interface{}, recoverKill string, recoverN int64) bool {
	acks, opened, _ := c12ReadAcks(ackFile)
	if !opened {
		c.Inconclusive("workload did not open the database")
		return false
	}
	// candidate states
	A := c12Model{Vals: map[string][2]string{}}
	var inflight *c12Op
	nAcked := 0
	for _, a := range acks {
		if a.Acked {
			if a.OK {
				// what the store acknowledged must be present - also when it
				// acknowledged a value it cannot have stored
				op := a.Op
				if op.Bad {
					c.Obs("acknowledged_unencodable_values", 1)
					op.Bad = false
					if op.Kind == "init-bad" {
						op.Kind = "init"
					}
				}
				A.applyModel(op)
			} else if a.Op.Bad {
				c.Obs("unencodable_values_refused", 1)
			}
			nAcked++
		} else {
			op := a.Op
			inflight = &op
		}
	}
	B := A.clone()
	if inflight != nil {
		B.applyModel(*inflight)
		desc["in_flight"] = *inflight
	}
	desc["acked_ops"] = nAcked
	sigCfg := fmt.Sprintf("prefix=%v/typed=%v/indexes=%v", cfg.Prefix != "", cfg.Typed, cfg.Indexes)

	if recoverKill != "" {
		// double crash: the recovery itself runs in a process that is killed
		w := c12Work{Cfg: cfg, Dir: dir, AckFile: ackFile + ".rec", CountFile: ackFile + ".rec.count", KillPoint: recoverKill, KillN: recoverN, Phase: "recover"}
		_, killed := c12RunWork(c, w, 0)
		desc["recovery_killed"] = killed
		c.Obs("recovery_kills", 1)
	}

	s, err := c12Open(dir, cfg)
	if err != nil {
		c.Violation("C12/reopen-failed:"+sigCfg, "database could not be reopened after the kill: "+err.Error(), desc)
		return true
	}
	defer s.db.Close()
	got, err := c12ReadBack(s, cfg)
	if err != nil {
		c.Violation("C12/readback-failed:"+sigCfg, "reading the database after the kill failed: "+err.Error(), desc)
		return true
	}
	desc["db_after_kill"], desc["state_acked"], desc["state_with_in_flight"] = got.String(), A.String(), B.String()
	c.Eval(1)
	seedsApplied := got.Inited
	if recoverKill == "" {
		switch got.String() {
		case A.String(), B.String():
		default:
			kind := "lost-or-partial"
			if inflight != nil && inflight.Kind == "init" {
				kind = "half-seeded"
			}
			c.Violation("C12/"+kind+":"+sigCfg, fmt.Sprintf("after SIGKILL the database holds [%s]; acknowledged state is [%s], with the in-flight operation [%s]", got, A, B), desc)
			return true
		}
	} else {
		// after a (possibly killed) recovery Init: acked state, in-flight applied, either with seeds applied once
		ok := false
		for _, base := range []c12Model{A, B} {
			wi := base.clone()
			wi.applyModel(c12Op{Kind: "init"})
			if got.String() == base.String() || got.String() == wi.String() {
				ok = true
			}
		}
		if !ok {
			c.Violation("C12/double-crash-state:"+sigCfg, fmt.Sprintf("after a crash during recovery the database holds [%s]; acknowledged state [%s] / [%s] (each with or without the seeds)", got, A, B), desc)
			return true
		}
	}
	// recovery: Init again as an application would
	before := got.clone()
	created, err := s.init(cfg.Typed)
	if err != nil {
		c.Violation("C12/init-failed-after-crash:"+sigCfg, "Init after reopening failed: "+err.Error(), desc)
		return true
	}
	after, _ := c12ReadBack(s, cfg)
	want := before.clone()
	want.applyModel(c12Op{Kind: "init"})
	wantCreated := 0
	if !seedsApplied {
		for id := range c12Seeds {
			if _, ok := before.Vals[id]; !ok {
				wantCreated++
			}
		}
	}
	desc["db_after_init"], desc["seeds_created_by_recovery_init"] = after.String(), created
	if after.String() != want.String() || created != wantCreated {
		kind := "seeds-duplicated-or-resurrected"
		if !seedsApplied {
			kind = "seeds-not-applied"
		}
		c.Violation("C12/"+kind+":"+sigCfg, fmt.Sprintf("Init after restart created %d seeds (want %d) and left [%s] (want [%s])", created, wantCreated, after, want), desc)
		return true
	}
	if c2, _ := s.init(cfg.Typed); c2 != 0 {
		c.Violation("C12/init-not-idempotent:"+sigCfg, fmt.Sprintf("a further Init created %d seeds", c2), desc)
	}
	// indexes
	if s.qs != nil {
		// the application goes on after the recovery: a dozen more values with keys of every
		// kind (prefixes of each other, 0xFF bytes, separators in odd places), so that the
		// queries after the rebuild run over more than the handful of ids of the crash history
		for i, k := range []string{"a<FF>", "a<FF><FF>", "b", "ba", "abc", "z", "<FF>", "ab<FF>c", "a", "ab", "Ab", "a b", "a<FF>b", "abcd", "zz<00>q", "zz<00>q"} {
			id, u := fmt.Sprintf("bulk%02d", i), fmt.Sprintf("bulk.u%d", i)
			wt := s.st.Write(id)
			if err := wt.Create(mkValue2(cfg.Typed, u, k, "")); err == nil {
				after.Vals[id] = [2]string{u, k}
			}
			wt.Close()
		}
		s.qs.Flush()
		if err := s.qs.RebuildIndexes(); err != nil {
			c.Violation("C12/rebuild-failed:"+sigCfg, "RebuildIndexes failed: "+err.Error(), desc)
			return true
		}
		model := map[string]interface{}{}
		for id, v := range after.Vals {
			model[id] = mkValue2(cfg.Typed, v[0], v[1], "")
		}
		r := newRand(7)
		for _, q := range idxBattery(r, len(model)) {
			res, err := s.qs.Query(q.values())
			got, _ := res.([]string)
			want := refQuery(model, q)
			c.Obs("index_queries", 1)
			if err != nil || strings.Join(got, ",") != strings.Join(want, ",") {
				d := copyDesc(desc)
				d["query"], d["got"], d["want"] = q, got, want
				c.Violation("C12/index-after-rebuild:"+sigCfg, fmt.Sprintf("after RebuildIndexes query %+v returns %v, stored values give %v", q, got, want), d)
				break
			}
		}
	}
	return true
}

func c12Run(c *core.Ctx, b core.Batch) {
	var p c12Params
	json.Unmarshal(b.Params, &p)
	base, err := os.MkdirTemp("", "rvmon-c12-")
	if err != nil {
		c.Inconclusive(err.Error())
		return
	}
	defer os.RemoveAll(base)
	n := 0
	newCase := func() (dir, ack string) {
		n++
		d := filepath.Join(base, fmt.Sprintf("case%d", n))
		os.MkdirAll(filepath.Join(d, "db"), 0o755)
		return filepath.Join(d, "db"), filepath.Join(d, "ack")
	}
	// counting run
	dir, ack := newCase()
	w := c12Work{Cfg: p.Cfg, Dir: dir, AckFile: ack, CountFile: ack + ".count", Phase: "work"}
	if ex, _ := c12RunWork(c, w, 0); ex != 0 {
		c.Inconclusive(fmt.Sprintf("counting run failed (exit %d)", ex))
		return
	}
	counts := map[string]int64{}
	cb, _ := os.ReadFile(ack + ".count")
	json.Unmarshal(cb, &counts)
	// the complete run must verify too
	c12Verify(c, p.Cfg, dir, ack, map[string]interface{}{"config": p.Cfg, "kill": "none (complete run)"}, "", 0)
	os.RemoveAll(filepath.Dir(dir))
	r := c.Rand
	switch p.Kind {
	case "enum":
		for _, pt := range p.Points {
			if counts[pt] == 0 {
				if (strings.HasPrefix(pt, "index.") && !p.Cfg.Indexes) || pt == "rebuild.dropped" {
					continue
				}
				c.Inconclusive("kill point never reached by the workload: " + pt)
				continue
			}
			for occ := int64(1); occ <= counts[pt]; occ++ {
				dir, ack := newCase()
				w := c12Work{Cfg: p.Cfg, Dir: dir, AckFile: ack, CountFile: ack + ".count", KillPoint: pt, KillN: occ, Phase: "work"}
				_, killed := c12RunWork(c, w, 0)
				desc := map[string]interface{}{"config": p.Cfg, "kill_point": pt, "occurrence": occ}
				if !killed {
					c.Inconclusive(fmt.Sprintf("workload was not killed at %s#%d", pt, occ))
				} else {
					c.Obs("kills", 1)
					c.Obs("kills:"+pt, 1)
					c12Verify(c, p.Cfg, dir, ack, desc, "", 0)
					c.Distinct(fmt.Sprintf("%s/%s#%d", c.Batch.Name, pt, occ))
				}
				if occ == 1 && pt == p.Points[0] {
					acks, _, _ := c12ReadAcks(ack)
					var ops []c12Op
					for _, a := range acks {
						ops = append(ops, a.Op)
					}
					c.Sample(map[string]interface{}{"config": p.Cfg, "kill_point": pt, "occurrence": occ, "operations_before_kill": ops})
				}
				os.RemoveAll(filepath.Dir(dir))
			}
		}
	case "random":
		for i := 0; i < p.N; i++ {
			dir, ack := newCase()
			el := counts["elapsed_us"]
			if el < 1000 {
				el = 1000
			}
			delay := 1 + r.Int63n(el)
			w := c12Work{Cfg: p.Cfg, Dir: dir, AckFile: ack, CountFile: ack + ".count", Phase: "work", KillAfterUS: delay}
			_, killed := c12RunWork(c, w, 0)
			desc := map[string]interface{}{"config": p.Cfg, "kill": fmt.Sprintf("random time (%d us after open)", delay)}
			if killed {
				c.Obs("kills", 1)
				c.Obs("kills:random-time", 1)
				acks, opened, _ := c12ReadAcks(ack)
				if opened {
					c12Verify(c, p.Cfg, dir, ack, desc, "", 0)
					if len(acks) > 0 {
						c.Distinct(fmt.Sprintf("%s/random#%d", c.Batch.Name, i))
					}
				} else {
					c.Obs("killed_before_open", 1)
				}
			} else {
				c.Obs("completed_before_random_kill", 1)
				c12Verify(c, p.Cfg, dir, ack, desc, "", 0)
			}
			os.RemoveAll(filepath.Dir(dir))
		}
	case "double":
		pts := []string{"init.seeded", "init.notified", "init.returned", "rebuild.dropped"}
		first := []string{"init.seeded", "init.notified", "create.committed", "update.committed", "delete.committed", "index.committed"}
		for i := 0; i < p.N; i++ {
			pt := first[i%len(first)]
			if counts[pt] == 0 {
				continue
			}
			occ := 1 + int64(r.Intn(int(counts[pt])))
			dir, ack := newCase()
			w := c12Work{Cfg: p.Cfg, Dir: dir, AckFile: ack, CountFile: ack + ".count", KillPoint: pt, KillN: occ, Phase: "work"}
			_, killed := c12RunWork(c, w, 0)
			if !killed {
				c.Inconclusive(fmt.Sprintf("workload was not killed at %s#%d", pt, occ))
				continue
			}
			rp := pts[(i/len(first))%len(pts)]
			desc := map[string]interface{}{"config": p.Cfg, "kill_point": pt, "occurrence": occ, "second_kill_during_recovery_at": rp}
			c.Obs("kills", 1)
			c12Verify(c, p.Cfg, dir, ack, desc, rp, 1)
			c.Distinct(fmt.Sprintf("%s/%s#%d+%s", c.Batch.Name, pt, occ, rp))
			os.RemoveAll(filepath.Dir(dir))
		}
	}
}
