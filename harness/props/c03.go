package props

import (
	"encoding/json"
	"fmt"
	"runtime"
	"strings"
	"sync"
	"sync/atomic"
	"time"

	res "github.com/jirenius/go-res"

	nats "github.com/nats-io/nats.go"
	"verif/harness/internal/core"
	"verif/harness/internal/mon"
	"verif/harness/internal/natsenv"
	"verif/harness/internal/sched"
	"verif/harness/internal/vconn"
)

// C03 - Shutdown always completes, drains in-flight work, and allows restart.

type c03Params struct {
	Kind    string `json:"kind"` // stress | directed
	Workers int    `json:"workers"`
	Cycles  int    `json:"cycles"`
	Rounds  int    `json:"rounds"`
	Gate    string `json:"gate,omitempty"`
	Perturb int    `json:"perturb"`
}

func init() {
	core.Register(&core.Prop{
		ID:    "C03",
		Level: "exploration",
		Rule: "a case is one Shutdown of a real started Service racing with 8 producer goroutines (With/WithResource/WithGroup, request delivery, Reset, ResetAll, TokenEvent, TokenEventWithID, TokenReset, resource events emitted from foreign goroutines, query events near expiry) at a seed-determined moment, or one directed gate scenario (G1 submission parked between the started-check and the lock while Shutdown is parked before waking the workers; G2 the same released after the workers were woken; G3 a publishing call parked before it reads the connection until Shutdown returned; G4 callback in flight; G5 two Shutdowns; G6 Serve while stopping); " +
			"oracles: bounded progress decided on state (Shutdown parked in WaitGroup.Wait while every remaining worker is parked in Cond.Wait with nobody left to signal, observed on 3 samples), recovered panics per API call, global sequence numbers of callback entry/exit against the return of Shutdown, goroutine probe for surviving workers, Close count, Serve return, and a reduced exactly-once/occupancy workload after restart on a fresh connection; " +
			"distinct non-trivial = distinct (scenario, worker count, round) cases in which at least one producer call overlapped the Shutdown call",
		Assumptions: []string{
			"liveness is restated as bounded progress: a hang is reported only for the stable deadlock pattern; anything else after the 30 s watchdog is inconclusive",
			"a callback accepted but not reached before Shutdown began may be dropped (C02 allows it)",
			"Shutdown is called from outside a callback",
		},
		Parallel: 8,
		Batches: func(seed int64, tier core.Tier) []core.Batch {
			var bs []core.Batch
			for rep := 0; rep < tierPick(tier, 2, 30); rep++ {
				for _, w := range []int{1, 2, 8, 32} {
					bs = append(bs, core.Batch{Name: fmt.Sprintf("stress-w%d-r%d", w, rep), TimeoutS: 300,
						Params: core.Params(c03Params{Kind: "stress", Workers: w, Cycles: tierPick(tier, 15, 40), Perturb: 1 + rep%2})})
				}
				for _, w := range []int{2, 8} {
					if tier == core.Thorough || w == 2 {
						bs = append(bs, core.Batch{Name: fmt.Sprintf("stress-race-w%d-r%d", w, rep), TimeoutS: 600, Race: true,
							Params: core.Params(c03Params{Kind: "stress", Workers: w, Cycles: tierPick(tier, 8, 20), Perturb: 1})})
					}
				}
			}
			for _, w := range []int{1, 4} {
				for rep := 0; rep < tierPick(tier, 1, 6); rep++ {
					bs = append(bs, core.Batch{Name: fmt.Sprintf("multishutdown-w%d-r%d", w, rep), TimeoutS: 300,
						Params: core.Params(c03Params{Kind: "multishutdown", Workers: w, Cycles: tierPick(tier, 150, 500)})})
				}
			}
			for _, w := range []int{1, 3, 32} {
				bs = append(bs, core.Batch{Name: fmt.Sprintf("startup-fault-w%d", w), TimeoutS: 300,
					Params: core.Params(c03Params{Kind: "startup-fault", Workers: w, Cycles: tierPick(tier, 8, 30)})})
			}
			for rep := 0; rep < tierPick(tier, 1, 4); rep++ {
				bs = append(bs, core.Batch{Name: fmt.Sprintf("oversubscribed-%d", rep), TimeoutS: 300,
					Params: core.Params(c03Params{Kind: "oversub", Workers: 4, Cycles: tierPick(tier, 250, 1500)})})
			}
			for _, w := range []int{1, 8} {
				bs = append(bs, core.Batch{Name: fmt.Sprintf("immediate-restart-w%d", w), TimeoutS: 300,
					Params: core.Params(c03Params{Kind: "immediate-restart", Workers: w, Cycles: tierPick(tier, 40000, 400000)})})
			}
			bs = append(bs, core.Batch{Name: "directed-G7-race", TimeoutS: 600, Race: true,
				Params: core.Params(c03Params{Kind: "directed", Gate: "G7", Workers: 1, Rounds: tierPick(tier, 150, 1500)})})
			bs = append(bs, core.Batch{Name: "first-start-race", TimeoutS: 600, Race: true,
				Params: core.Params(c03Params{Kind: "first-start", Workers: 2, Cycles: tierPick(tier, 60, 400)})})
			bs = append(bs, core.Batch{Name: "restart-during-subscribe", TimeoutS: 300,
				Params: core.Params(c03Params{Kind: "restart-during-subscribe", Workers: 3, Cycles: tierPick(tier, 10, 80)})})
			bs = append(bs, core.Batch{Name: "api-while-stopping", TimeoutS: 300,
				Params: core.Params(c03Params{Kind: "api-while-stopping", Workers: 4, Cycles: tierPick(tier, 20, 200)})})
			bs = append(bs, core.Batch{Name: "listen-and-serve", TimeoutS: 300,
				Params: core.Params(c03Params{Kind: "listen", Workers: 4, Cycles: tierPick(tier, 12, 60)})})
			for _, g := range []string{"G1", "G2", "G3-token", "G3-reset", "G3-event", "G3-reply", "G4", "G5", "G6", "G7", "control"} {
				for _, w := range []int{1, 3, 8} {
					bs = append(bs, core.Batch{Name: fmt.Sprintf("directed-%s-w%d", g, w), TimeoutS: 300,
						Params: core.Params(c03Params{Kind: "directed", Gate: g, Workers: w, Rounds: tierPick(tier, 12, 150)})})
				}
			}
			return bs
		},
		MinEvaluations: func(t core.Tier) int64 { return 100 },
		Run:            c03Run,
	})
}

func c03Run(c *core.Ctx, b core.Batch) {
	var p c03Params
	json.Unmarshal(b.Params, &p)
	rigInstall()
	if p.Kind == "immediate-restart" {
		c03ImmediateRestart(c, p)
		return
	}
	if p.Kind == "oversub" {
		c03Oversubscribed(c, p)
		return
	}
	if p.Kind == "first-start" {
		for cy := 0; cy < p.Cycles; cy++ {
			s := newC03Svc(c, p.Workers)
			c.Eval(1)
			if err := s.startWithRacingCalls(s.rig.start); err != nil {
				c.Inconclusive("start: " + err.Error())
				return
			}
			c.Obs("first_starts_with_racing_api_calls", 1)
			c.Distinct(fmt.Sprintf("first-start/%d/%d", p.Workers, cy))
			if !s.shutdownAndCheck(map[string]interface{}{"scenario": "first start of a Service racing with API calls", "cycle": cy}, p.Workers, nil) {
				return
			}
		}
		return
	}
	if p.Kind == "startup-fault" {
		c03StartupFault(c, p)
		return
	}
	if p.Kind == "listen" {
		c03Listen(c, p)
		return
	}
	if p.Kind == "multishutdown" {
		c03MultiShutdown(c, p)
		return
	}
	if p.Kind == "api-while-stopping" {
		c03APIWhileStopping(c, p)
		return
	}
	if p.Kind == "restart-during-subscribe" {
		c03RestartDuringSubscribe(c, p)
		return
	}
	if p.Kind == "stress" {
		c03Stress(c, p)
	} else {
		c03Directed(c, p)
	}
	for k, v := range sched.Counts() {
		c.Obs("hook:"+k, v)
	}
}

// c03Svc is a service with instrumented callbacks.
type c03Svc struct {
	c     *core.Ctx
	rig   *rig
	mu    sync.Mutex
	execs []concExec
	n     int64
	block chan struct{} // when non-nil, callbacks of group "blk" wait on it
	// shutdownCallers > 1: that many goroutines call Shutdown at the same instant
	shutdownCallers int
}

func newC03Svc(c *core.Ctx, workers int) *c03Svc {
	s := &c03Svc{c: c}
	s.rig = newRig("svc", func(sv *res.Service) {
		sv.SetWorkerCount(workers)
		sv.SetQueryEventDuration(3 * time.Millisecond)
		sv.Handle("m.$id",
			res.Access(func(r res.AccessRequest) { s.body("req:"+r.Query(), r.Group()); r.AccessGranted() }),
			res.GetModel(func(r res.ModelRequest) {
				if _, ok := r.(*res.Request); ok {
					s.body("req:"+r.Query(), r.Group())
				}
				r.Model(map[string]int{"a": 1})
			}),
			res.Call("do", func(r res.CallRequest) { s.body("req:"+r.Query(), r.Group()); r.OK(nil) }),
		)
		sv.Handle("c.$id", res.GetCollection(func(r res.CollectionRequest) { r.Collection([]int{1}) }))
	})
	s.rig.C.NoGoID = true
	return s
}

func (s *c03Svc) body(id, group string) {
	start := mon.Seq()
	if strings.HasPrefix(id, "blk") {
		s.mu.Lock()
		ch := s.block
		s.mu.Unlock()
		if ch != nil {
			<-ch
		}
	}
	atomic.AddInt64(&s.n, 1)
	end := mon.Seq()
	s.mu.Lock()
	s.execs = append(s.execs, concExec{ID: id, Group: group, Start: start, End: end})
	s.mu.Unlock()
}

// apiCall runs one public API call, recovering and reporting panics.
func (s *c03Svc) apiCall(name string, f func()) {
	if pn, stack := tryStack(f); pn != nil {
		msg := fmt.Sprint(pn)
		sig := "C03/panic:" + name + ":" + short(msg, 80)
		s.c.Violation(sig, fmt.Sprintf("%s panicked while racing with Shutdown: %v", name, pn), map[string]interface{}{"call": name, "panic": msg, "stack": short(stack, 2500)})
	}
}

var c03Calls = []string{"With", "WithResource", "WithGroup", "request", "Reset", "ResetAll", "TokenEvent", "TokenEventWithID", "TokenReset", "foreign-change", "foreign-create", "foreign-add", "query", "Conn"}

func (s *c03Svc) randomCall(r interface{ Intn(int) int }, p, n int) string {
	sv := s.rig.S
	name := c03Calls[r.Intn(len(c03Calls))]
	id := fmt.Sprintf("p%dn%d", p, n)
	rid := fmt.Sprintf("svc.m.%d", r.Intn(4))
	s.apiCall(name, func() {
		switch name {
		case "With":
			sv.With(rid, func(rs res.Resource) { s.body("with:"+id, rs.Group()) })
		case "WithResource":
			if rs, err := sv.Resource(rid); err == nil {
				sv.WithResource(rs, func() { s.body("withres:"+id, rid) })
			}
		case "WithGroup":
			sv.WithGroup("grp", func(*res.Service) { s.body("withgroup:"+id, "grp") })
		case "request":
			pl, _ := json.Marshal(map[string]string{"query": id})
			s.rig.C.Deliver([]string{"call." + rid + ".do", "get." + rid, "access." + rid}[r.Intn(3)], newInbox(), pl)
		case "Reset":
			sv.Reset([]string{"svc.m.>"}, nil)
		case "ResetAll":
			sv.ResetAll()
		case "TokenEvent":
			sv.TokenEvent("cid1", map[string]int{"u": 1})
		case "TokenEventWithID":
			sv.TokenEventWithID("cid1", "tid", nil)
		case "TokenReset":
			sv.TokenReset("auth.svc.m.1.relogin", "tid")
		case "foreign-change":
			if rs, err := sv.Resource(rid); err == nil {
				rs.ChangeEvent(map[string]interface{}{"a": n})
			}
		case "foreign-create":
			if rs, err := sv.Resource(rid); err == nil {
				if n%2 == 0 {
					rs.CreateEvent(map[string]int{"a": 1})
				} else {
					rs.DeleteEvent()
				}
			}
		case "foreign-add":
			if rs, err := sv.Resource("svc.c.1"); err == nil {
				rs.AddEvent(n, 0)
				rs.ReaccessEvent()
			}
		case "query":
			sv.With(rid, func(rs res.Resource) {
				s.body("with:"+id, rs.Group())
				rs.QueryEvent(func(qr res.QueryRequest) {
					if qr == nil {
						s.body("qnil:"+id, rs.Group())
					}
				})
			})
		case "Conn":
			_ = sv.Conn()
		}
	})
	return name
}

// shutdownAndCheck calls Shutdown, decides on a hang by state, and checks the
// drain conditions. Returns false when the service is unusable afterwards.
func (s *c03Svc) shutdownAndCheck(what interface{}, workers int, producersDone func() bool) bool {
	c := s.c
	sv := s.rig.S
	conn := s.rig.C
	ret := make(chan error, 1)
	callSeq := mon.Seq()
	// one or several goroutines call Shutdown at the same instant (spin barrier):
	// exactly one of them stops the service, the others are refused as not started
	callers := s.shutdownCallers
	if callers < 1 {
		callers = 1
	}
	var nilSeq int64 // sequence number at which the successful Shutdown returned
	{
		type sdRes struct {
			err error
			seq int64
		}
		results := make(chan sdRes, callers)
		var ready, goFlag int32
		for i := 0; i < callers; i++ {
			go func() {
				atomic.AddInt32(&ready, 1)
				for atomic.LoadInt32(&goFlag) == 0 {
					runtime.Gosched()
				}
				var err error
				if pn, stack := tryStack(func() { err = sv.Shutdown() }); pn != nil {
					err = fmt.Errorf("panic: %v", pn)
					c.Violation("C03/panic:Shutdown:"+short(fmt.Sprint(pn), 80), fmt.Sprintf("Shutdown (one of %d concurrent calls) panicked: %v", callers, pn), map[string]interface{}{"stack": short(stack, 2500), "scenario": what, "concurrent_shutdown_calls": callers})
				}
				results <- sdRes{err, mon.Seq()}
			}()
		}
		for atomic.LoadInt32(&ready) < int32(callers) {
			runtime.Gosched()
		}
		atomic.StoreInt32(&goFlag, 1)
		go func() {
			nils := 0
			var firstErr error
			for i := 0; i < callers; i++ {
				r := <-results
				if r.err == nil {
					nils++
					if nilSeq == 0 || r.seq < nilSeq {
						nilSeq = r.seq
					}
				} else if firstErr == nil {
					firstErr = r.err
				}
			}
			if callers > 1 {
				c.Obs("concurrent_shutdown_cycles", 1)
				if nils != 1 {
					c.Violation("C03/shutdown-not-single", fmt.Sprintf("%d concurrent Shutdown calls on one started service: %d returned nil, want exactly 1 (the others refused as not started)", callers, nils), map[string]interface{}{"scenario": what, "concurrent_shutdown_calls": callers})
				}
			}
			if nils > 0 {
				ret <- nil
			} else {
				ret <- firstErr
			}
		}()
	}
	var R int64
	deadline := time.Now().Add(30 * time.Second)
	stable, lockStable := 0, 0
wait:
	for {
		select {
		case err := <-ret:
			R = mon.Seq()
			if nilSeq != 0 && callers > 1 {
				R = nilSeq
			}
			if err != nil {
				c.Violation("C03/shutdown-error", "Shutdown of a started service returned: "+err.Error(), what)
			}
			break wait
		case <-time.After(300 * time.Millisecond):
		}
		// a second stable pattern: Shutdown waits for the workers while goroutines (workers in a
		// callback, producers) are blocked on the lock of the service's connection - the lock is
		// only ever held for a few instructions, unless the waiting Shutdown itself holds it
		if mon.CountGoroutines("go-res.(*Service).Shutdown", "sync.(*WaitGroup).Wait") == 1 {
			if n := mon.CountGoroutines("go-res.(*Service).Conn", "sync.(*RWMutex).RLock"); n > 0 {
				lockStable++
				if lockStable >= 6 {
					c.Violation("C03/shutdown-hang:connection-lock", fmt.Sprintf("Shutdown never returns: it waits in WaitGroup.Wait while %d goroutines using the connection (publishing callbacks, Conn() callers) have been blocked on the service's connection lock for more than 2 s", n),
						map[string]interface{}{"scenario": what, "goroutines_blocked_on_the_connection_lock": n})
					c.Abort()
					return false
				}
				continue
			}
		}
		lockStable = 0
		if producersDone != nil && !producersDone() {
			if time.Now().After(deadline) {
				c.Inconclusive("Shutdown did not return within the watchdog while producers were still running")
				return false
			}
			continue
		}
		// all producers have returned; is this the stable deadlock pattern?
		state, qnil, queued, groups := sv.VerifState()
		inWait := mon.CountGoroutines("go-res.(*Service).Shutdown", "sync.(*WaitGroup).Wait")
		workersLeft := mon.CountGoroutines("go-res.(*Service).startWorker")
		parked := mon.CountGoroutines("go-res.(*Service).startWorker", "sync.(*Cond).Wait")
		if inWait == 1 && workersLeft > 0 && parked == workersLeft && state == 3 {
			stable++
			if stable >= 3 {
				c.Violation("C03/shutdown-hang", fmt.Sprintf("Shutdown never returns: it waits in WaitGroup.Wait while the %d remaining workers are parked in Cond.Wait and no goroutine is left to wake them (state=stopping, queue nil=%v, queued=%d, groups=%d)", workersLeft, qnil, queued, groups),
					map[string]interface{}{"scenario": what, "workers_left": workersLeft, "queue_nil": qnil, "queued": queued, "groups": groups})
				c.Abort()
				return false
			}
			time.Sleep(700 * time.Millisecond)
			continue
		}
		stable = 0
		if time.Now().After(deadline) {
			c.Inconclusive(fmt.Sprintf("Shutdown did not return within the watchdog, but not in the stable deadlock pattern (state=%d inWait=%d workers=%d parked=%d)", state, inWait, workersLeft, parked))
			return false
		}
	}
	c.Eval(1)
	// Serve must return
	select {
	case <-s.rig.serveRet:
	case <-time.After(20 * time.Second):
		c.Violation("C03/serve-did-not-return", "Serve did not return after Shutdown returned", what)
		return false
	}
	// no worker survives
	gone := false
	for i := 0; i < 200; i++ {
		if mon.CountGoroutines("go-res.(*Service).startWorker") == 0 {
			gone = true
			break
		}
		time.Sleep(5 * time.Millisecond)
	}
	if !gone {
		n := mon.CountGoroutines("go-res.(*Service).startWorker", "sync.(*Cond).Wait")
		if n > 0 {
			c.Violation("C03/worker-survived", fmt.Sprintf("%d worker goroutines are still parked in Cond.Wait after Shutdown returned", n), what)
		} else {
			c.Inconclusive("worker goroutines still present but not parked")
		}
	}
	if n := conn.Closes(); n != 1 {
		c.Violation("C03/close-count", fmt.Sprintf("connection Close was called %d times for one start/stop cycle", n), what)
	}
	// grace period, then check callback entries against R
	time.Sleep(3 * time.Millisecond)
	s.mu.Lock()
	for _, x := range s.execs {
		if x.Start > R {
			c.Violation("C03/callback-after-shutdown:"+kindOfID(x.ID), fmt.Sprintf("callback %s started (seq %d) after Shutdown had returned (seq %d)", x.ID, x.Start, R), what)
			break
		}
		if x.Start < R && x.End > R {
			c.Violation("C03/callback-running-at-return:"+kindOfID(x.ID), fmt.Sprintf("callback %s was still running when Shutdown returned", x.ID), what)
			break
		}
	}
	overl := false
	for _, x := range s.execs {
		if x.End > callSeq {
			overl = true
		}
	}
	s.execs = s.execs[:0]
	s.mu.Unlock()
	_ = overl
	if sv.Conn() != nil {
		c.Violation("C03/conn-not-cleared", "Conn() is not nil after Shutdown returned", what)
	}
	return true
}

func kindOfID(id string) string {
	if i := strings.IndexByte(id, ':'); i >= 0 {
		return id[:i]
	}
	return id
}

// restartCheck serves the stopped service again and runs a reduced
// exactly-once workload.
func (s *c03Svc) restartCheck(what interface{}) bool {
	c := s.c
	err := s.startWithRacingCalls(s.rig.restart)
	c.Obs("restarts_with_racing_api_calls", 1)
	if err != nil {
		c.Violation("C03/restart-failed", "a stopped service could not be served again: "+err.Error(), what)
		return false
	}
	return s.restartWorkload(what)
}

// startWithRacingCalls runs start (rig.start or rig.restart) while three other
// goroutines call the API: each call is refused as not started or takes effect, and the
// race batches watch the start-up phase.
func (s *c03Svc) startWithRacingCalls(start func() error) error {
	stopEarly := make(chan struct{})
	var early sync.WaitGroup
	for g := 0; g < 3; g++ {
		early.Add(1)
		go func(g int) {
			defer early.Done()
			sv := s.rig.S
			for n := 0; ; n++ {
				select {
				case <-stopEarly:
					return
				default:
				}
				name := []string{"ResetAll", "Reset", "TokenEvent", "With", "Conn", "TokenReset", "WithQueryEvent"}[(n+g)%7]
				s.apiCall(name+":during-start", func() {
					switch name {
					case "ResetAll":
						sv.ResetAll()
					case "Reset":
						sv.Reset([]string{"svc.m.>"}, nil)
					case "TokenEvent":
						sv.TokenEvent("cid1", nil)
					case "With":
						sv.With("svc.m.9", func(rs res.Resource) {})
					case "Conn":
						_ = sv.Conn()
					case "TokenReset":
						sv.TokenReset("auth.svc.m.1.relogin", "tid")
					case "WithQueryEvent":
						// accepted as soon as the service counts as started, i.e. possibly while it is
						// still making its subscriptions
						sv.With("svc.m.8", func(rs res.Resource) { rs.QueryEvent(func(res.QueryRequest) {}) })
					}
				})
				if n%8 == 7 {
					runtime.Gosched()
				}
			}
		}(g)
	}
	// subscriptions that take a moment each, as on a real connection
	s.rig.C.FailSubscribe = func(string, int) error { time.Sleep(150 * time.Microsecond); return nil }
	err := start()
	close(stopEarly)
	early.Wait()
	return err
}

// restartWorkload: after a restart an exactly-once workload must run.
func (s *c03Svc) restartWorkload(what interface{}) bool {
	c := s.c
	before := atomic.LoadInt64(&s.n)
	const k = 30
	for i := 0; i < k; i++ {
		id := fmt.Sprintf("r%d", i)
		if i%2 == 0 {
			if err := s.rig.S.With("svc.m.1", func(rs res.Resource) { s.body("with:"+id, rs.Group()) }); err != nil {
				c.Violation("C03/restart-with-error", "With failed after restart: "+err.Error(), what)
			}
		} else {
			pl, _ := json.Marshal(map[string]string{"query": id})
			s.rig.C.Deliver("call.svc.m.1.do", newInbox(), pl)
		}
	}
	deadline := time.Now().Add(15 * time.Second)
	for atomic.LoadInt64(&s.n) < before+k {
		if time.Now().After(deadline) {
			c.Violation("C03/restart-lost-callbacks", fmt.Sprintf("after restart only %d of %d callbacks ran", atomic.LoadInt64(&s.n)-before, k), what)
			return false
		}
		time.Sleep(200 * time.Microsecond)
	}
	// replies of the requests
	if !s.rig.C.WaitFor(func(log []vconn.Msg) bool {
		n := 0
		for _, m := range log {
			if strings.HasPrefix(m.Subject, "_INBOX.") {
				n++
			}
		}
		return n >= k/2
	}, 10*time.Second) {
		c.Violation("C03/restart-no-replies", "requests after restart were not answered", what)
	}
	return true
}

func c03Stress(c *core.Ctx, p c03Params) {
	s := newC03Svc(c, p.Workers)
	if err := s.rig.start(); err != nil {
		c.Inconclusive("start: " + err.Error())
		return
	}
	sched.SetPerturb(c.Batch.Seed, p.Perturb)
	defer sched.SetPerturb(0, 0)
	r := c.Rand
	for cy := 0; cy < p.Cycles; cy++ {
		var wg sync.WaitGroup
		var running int32
		stop := make(chan struct{})
		var calls int64
		const producers = 8
		atomic.StoreInt32(&running, producers)
		for pi := 0; pi < producers; pi++ {
			wg.Add(1)
			go func(pi int) {
				defer wg.Done()
				defer atomic.AddInt32(&running, -1)
				pr := newRand(core.SubSeed(c.Batch.Seed, fmt.Sprintf("%s/%d/%d", c.Batch.Name, cy, pi)))
				for n := 0; ; n++ {
					select {
					case <-stop:
						// a few more calls after Shutdown was invoked
						for k := 0; k < 20; k++ {
							c.SetAdd("calls_racing", s.randomCall(pr, pi, n+k))
							atomic.AddInt64(&calls, 1)
						}
						return
					default:
					}
					s.randomCall(pr, pi, n)
					atomic.AddInt64(&calls, 1)
				}
			}(pi)
		}
		time.Sleep(time.Duration(200+r.Intn(3000)) * time.Microsecond)
		what := map[string]interface{}{"scenario": "stress", "cycle": cy, "workers": p.Workers}
		close(stop)
		s.shutdownCallers = 1
		if cy%3 == 2 {
			s.shutdownCallers = 2 + cy%3
			what["concurrent_shutdown_calls"] = s.shutdownCallers
		}
		ok := s.shutdownAndCheck(what, p.Workers, func() bool { return atomic.LoadInt32(&running) == 0 })
		s.shutdownCallers = 1
		wg.Wait()
		c.Obs("api_calls", atomic.LoadInt64(&calls))
		c.Distinct(fmt.Sprintf("%s/%d", c.Batch.Name, cy))
		if !ok {
			return
		}
		if !s.restartCheck(what) {
			return
		}
	}
	s.shutdownAndCheck("final", p.Workers, nil)
	c.Sample(map[string]interface{}{"scenario": "stress", "workers": p.Workers, "cycles": p.Cycles, "producers": 8, "calls": c03Calls})
}

// c03MultiShutdown: many start/stop cycles in which several goroutines call
// Shutdown at the same instant (a signal handler racing a supervisor, a user
// Shutdown racing the closed-connection handler) while a few callbacks are in flight.
func c03MultiShutdown(c *core.Ctx, p c03Params) {
	s := newC03Svc(c, p.Workers)
	if err := s.rig.start(); err != nil {
		c.Inconclusive("start: " + err.Error())
		return
	}
	for cy := 0; cy < p.Cycles; cy++ {
		for k := 0; k < 4; k++ {
			s.randomCall(c.Rand, 0, cy*4+k)
		}
		s.shutdownCallers = 2 + cy%5
		what := map[string]interface{}{"scenario": "concurrent Shutdown calls", "cycle": cy, "workers": p.Workers, "concurrent_shutdown_calls": s.shutdownCallers}
		ok := s.shutdownAndCheck(what, p.Workers, nil)
		s.shutdownCallers = 1
		c.Distinct(fmt.Sprintf("%s/%d", c.Batch.Name, cy))
		if !ok || !s.restartCheck(what) {
			return
		}
	}
	s.shutdownAndCheck("final", p.Workers, nil)
	c.Sample(map[string]interface{}{"scenario": "concurrent Shutdown calls", "workers": p.Workers, "cycles": p.Cycles})
}

// c03NullConn is a connection without any locking or bookkeeping (the start/stop
// cycles below are meant to be as short as the library allows).
type c03NullConn struct{ closes *int64 }

func (c03NullConn) Publish(string, []byte) error                { return nil }
func (c03NullConn) PublishRequest(string, string, []byte) error { return nil }
func (c03NullConn) ChanSubscribe(s string, ch chan *nats.Msg) (*nats.Subscription, error) {
	return &nats.Subscription{Subject: s}, nil
}
func (c03NullConn) ChanQueueSubscribe(s, q string, ch chan *nats.Msg) (*nats.Subscription, error) {
	return &nats.Subscription{Subject: s}, nil
}
func (n c03NullConn) Close() { atomic.AddInt64(n.closes, 1) }

// c03ImmediateRestart: a supervisor goroutine calls Serve in a tight loop (refused while
// the service is not stopped) and is accepted the instant a Shutdown, called from the
// main goroutine, has stopped the service - while the Serve call of the previous run
// may still be returning. Nothing panics, every run starts, every connection is closed once.
func c03ImmediateRestart(c *core.Ctx, p c03Params) {
	rigInstall()
	svc := res.NewService("svc")
	svc.SetLogger(nil)
	svc.SetWorkerCount(p.Workers)
	svc.Handle("m.$id", res.GetModel(func(r res.ModelRequest) { r.Model(nil) }))
	var served, closes, ran int64
	svc.SetOnServe(func(*res.Service) { atomic.AddInt64(&served, 1) })
	var panicked int32
	serveLoop := func(until int64) {
		pn, stack := tryStack(func() {
			for {
				err := svc.Serve(c03NullConn{&closes})
				if err == nil || atomic.LoadInt64(&served) > until || atomic.LoadInt32(&panicked) != 0 {
					return
				}
			}
		})
		if pn != nil {
			c.Violation("C03/panic:Serve:"+short(fmt.Sprint(pn), 70), fmt.Sprintf("Serve panicked while the service was being served again by a supervisor loop right after a Shutdown: %v", pn), map[string]interface{}{"stack": short(stack, 2500), "workers": p.Workers, "runs_so_far": atomic.LoadInt64(&served)})
			atomic.StoreInt32(&panicked, 1) // after the report: the main goroutine ends the batch when it sees this
		}
	}
	go serveLoop(0)
	waitServed := func(n int64) bool {
		deadline := time.Now().Add(10 * time.Second)
		for atomic.LoadInt64(&served) < n {
			if atomic.LoadInt32(&panicked) != 0 || time.Now().After(deadline) {
				return false
			}
			time.Sleep(20 * time.Microsecond)
		}
		return true
	}
	if !waitServed(1) {
		c.Inconclusive("immediate-restart: first start failed")
		return
	}
	for cy := 0; cy < p.Cycles; cy++ {
		n := atomic.LoadInt64(&served)
		if cy%4 == 0 {
			svc.With("svc.m.1", func(res.Resource) { atomic.AddInt64(&ran, 1) })
		}
		go serveLoop(n)
		if pn := try(func() { svc.Shutdown() }); pn != nil {
			c.Violation("C03/panic:Shutdown:"+short(fmt.Sprint(pn), 70), fmt.Sprintf("Shutdown panicked: %v", pn), nil)
			return
		}
		c.Eval(1)
		if !waitServed(n + 1) {
			if atomic.LoadInt32(&panicked) == 0 {
				c.Violation("C03/restart-failed", "the supervisor loop was not accepted within 10 s after Shutdown returned", map[string]interface{}{"cycle": cy, "workers": p.Workers})
			}
			return
		}
		c.Distinct(fmt.Sprintf("%s/%d", c.Batch.Name, cy%500))
	}
	svc.Shutdown()
	time.Sleep(5 * time.Millisecond)
	runs := atomic.LoadInt64(&served)
	if cl := atomic.LoadInt64(&closes); cl != runs {
		c.Violation("C03/close-count", fmt.Sprintf("%d runs but %d Close calls on their connections", runs, cl), nil)
	}
	c.Obs("immediate_restarts", runs-1)
	c.Obs("immediate_restart_callbacks", atomic.LoadInt64(&ran))
}

// c03Oversubscribed: far more caller goroutines than processors (GOMAXPROCS raised
// to 4 x NumCPU, 128 callers) keep calling the publishing API while the service goes
// through start/stop cycles and stays stopped for a moment in each: callers are
// preempted in the middle of a call often enough that a complete Shutdown fits
// between two of their steps. Every call is refused or takes effect, none panics.
func c03Oversubscribed(c *core.Ctx, p c03Params) {
	old := runtime.GOMAXPROCS(4 * runtime.NumCPU())
	defer runtime.GOMAXPROCS(old)
	s := newC03Svc(c, p.Workers)
	if err := s.rig.start(); err != nil {
		c.Inconclusive("start: " + err.Error())
		return
	}
	stop := make(chan struct{})
	var wg sync.WaitGroup
	var calls int64
	for g := 0; g < 128; g++ {
		wg.Add(1)
		go func(g int) {
			defer wg.Done()
			for n := 0; ; n++ {
				select {
				case <-stop:
					return
				default:
				}
				name := []string{"TokenEvent", "Reset", "ResetAll", "TokenEventWithID", "TokenReset", "foreign-change"}[(n+g)%6]
				sv := s.rig.S
				s.apiCall(name, func() {
					switch name {
					case "TokenEvent":
						sv.TokenEvent("cid1", nil)
					case "Reset":
						sv.Reset([]string{"svc.m.>"}, nil)
					case "ResetAll":
						sv.ResetAll()
					case "TokenEventWithID":
						sv.TokenEventWithID("cid1", "tid", nil)
					case "TokenReset":
						sv.TokenReset("auth.svc.m.1.relogin", "tid")
					case "foreign-change":
						if rs, err := sv.Resource("svc.m.1"); err == nil {
							rs.ChangeEvent(map[string]interface{}{"a": n})
						}
					}
				})
				atomic.AddInt64(&calls, 1)
			}
		}(g)
	}
	ok := true
	for cy := 0; cy < p.Cycles && ok && c.Violations() == 0; cy++ {
		time.Sleep(time.Duration(200+cy%7*150) * time.Microsecond)
		what := map[string]interface{}{"scenario": "128 callers on an oversubscribed scheduler", "cycle": cy}
		if err := s.rig.stop(); err != nil {
			c.Violation("C03/shutdown-error", "Shutdown of a started service returned: "+err.Error(), what)
			ok = false
			break
		}
		c.Eval(1)
		time.Sleep(time.Duration(1+cy%3) * time.Millisecond) // stays stopped for a moment
		if err := s.rig.restart(); err != nil {
			c.Violation("C03/restart-failed", "a stopped service could not be served again: "+err.Error(), what)
			ok = false
			break
		}
		c.Distinct(fmt.Sprintf("%s/%d", c.Batch.Name, cy))
	}
	close(stop)
	wg.Wait()
	c.Obs("oversubscribed_api_calls", atomic.LoadInt64(&calls))
	s.rig.stop()
	c.Sample(map[string]interface{}{"scenario": "128 callers, GOMAXPROCS = 4 x NumCPU, start/stop cycles", "cycles": p.Cycles, "api_calls": atomic.LoadInt64(&calls)})
}

// c03StartupFault: the n-th subscription fails while the service starts. The blocked
// Serve call must return in bounded time, no worker may survive, the connection is
// closed once, and the same Service can then be served on a healthy connection.
func c03StartupFault(c *core.Ctx, p c03Params) {
	for cy := 0; cy < p.Cycles; cy++ {
		s := newC03Svc(c, p.Workers)
		failNth := 1 + cy%6
		var nsub int32
		// odd cycles: instead of failing, the n-th subscription is held until a Shutdown
		// called from another goroutine has completed (Shutdown during the start-up phase)
		shutdownDuring := cy%2 == 1
		arrived, shutdownDone := make(chan struct{}), make(chan struct{})
		s.rig.C.FailSubscribe = func(subject string, nth int) error {
			if int(atomic.AddInt32(&nsub, 1)) == failNth {
				if shutdownDuring {
					close(arrived)
					waitCh(shutdownDone, 20*time.Second)
					return nil
				}
				return fmt.Errorf("injected subscribe failure")
			}
			return nil
		}
		scen := "subscription failure during start"
		if shutdownDuring {
			scen = "Shutdown completing while Serve is still subscribing"
		}
		what := map[string]interface{}{"scenario": scen, "subscription": failNth, "workers": p.Workers, "cycle": cy}
		conn := s.rig.C
		ret := make(chan error, 1)
		go func() {
			var err error
			if pn, stack := tryStack(func() { err = s.rig.S.Serve(conn) }); pn != nil {
				c.Violation("C03/panic:Serve:"+short(fmt.Sprint(pn), 60), fmt.Sprintf("Serve panicked (%s): %v", scen, pn), map[string]interface{}{"scenario": what, "stack": short(stack, 2500)})
			}
			ret <- err
		}()
		var gateMu sync.Mutex
		var lateGate *sched.Gate
		releaseLate := func() {
			gateMu.Lock()
			if lateGate != nil {
				lateGate.Release()
				lateGate = nil
			}
			gateMu.Unlock()
		}
		if shutdownDuring {
			go func() {
				if !waitCh(arrived, 10*time.Second) {
					close(shutdownDone)
					return
				}
				s.apiCall("Shutdown", func() { s.rig.S.Shutdown() })
				// whatever Shutdown call the library itself makes from now on is held at its entry
				gateMu.Lock()
				lateGate = sched.Arm("shutdown.enter", nil)
				gateMu.Unlock()
				close(shutdownDone)
			}()
		}
		c.Eval(1)
		// a Shutdown call made by Serve itself (synchronously) is parked at the same point:
		// if Serve has not returned shortly after a call arrived there, it is Serve's own
		serveRet := false
		for waited := 0; waited < 500 && !serveRet; waited++ {
			select {
			case <-ret:
				serveRet = true
			case <-time.After(20 * time.Millisecond):
				gateMu.Lock()
				lg := lateGate
				gateMu.Unlock()
				if lg != nil && lg.WaitArrived(0) {
					select {
					case <-ret:
						serveRet = true
					case <-time.After(40 * time.Millisecond):
						releaseLate()
					}
				}
			}
		}
		if !serveRet {
			releaseLate()
			if int(atomic.LoadInt32(&nsub)) < failNth {
				c.Inconclusive("startup-fault: the service made fewer subscriptions than the one to fail")
				s.rig.S.Shutdown()
				return
			}
			st, qnil, queued, groups := s.rig.S.VerifState()
			parked := mon.CountGoroutines("go-res.(*Service).startWorker", "sync.(*Cond).Wait")
			c.Violation("C03/serve-did-not-return:startup-fault", fmt.Sprintf("Serve did not return within 10 s after subscription %d failed during start (state=%d, %d workers parked, queue nil=%v queued=%d groups=%d)", failNth, st, parked, qnil, queued, groups), what)
			return
		}
		c.Obs("startup_fault_cycles", 1)
		// A Shutdown call that the failed start left behind on a goroutine of its own may
		// still be on its way (it is parked at its entry now): it belongs to the run that
		// is over and must not stop the next run.
		gateMu.Lock()
		lg := lateGate
		gateMu.Unlock()
		stray := false
		if lg != nil {
			stray = lg.WaitArrived(30 * time.Millisecond)
		}
		if !stray {
			releaseLate()
		}
		stopped := false
		for i := 0; i < 400; i++ {
			if st, _, _, _ := s.rig.S.VerifState(); st == 0 && mon.CountGoroutines("go-res.(*Service).startWorker") == 0 {
				stopped = true
				break
			}
			time.Sleep(5 * time.Millisecond)
		}
		if !stopped {
			st, _, _, _ := s.rig.S.VerifState()
			c.Violation("C03/not-stopped-after-cycle:startup-fault", fmt.Sprintf("2 s after Serve returned from a failed start: state=%d, %d worker goroutines alive", st, mon.CountGoroutines("go-res.(*Service).startWorker")), what)
			return
		}
		if n := conn.Closes(); n != 1 {
			c.Violation("C03/close-count", fmt.Sprintf("connection Close was called %d times (%s)", n, scen), what)
		}
		// the same Service on a healthy connection
		if !s.restartCheck(what) {
			releaseLate()
			return
		}
		if stray {
			c.Obs("stray_shutdown_calls_held", 1)
			releaseLate() // the left-over Shutdown call of the previous run proceeds now
			time.Sleep(5 * time.Millisecond)
			w2 := map[string]interface{}{"scenario": scen + "; the Shutdown call that the failed start issued on a goroutine of its own arrives after the service has been served again", "workers": p.Workers, "cycle": cy}
			if st, _, _, _ := s.rig.S.VerifState(); st != 2 {
				c.Violation("C03/stray-shutdown-stops-next-run", fmt.Sprintf("the service was served again, then a Shutdown call left over from the previous (failed) start stopped the new run (state=%d)", st), w2)
				return
			}
			if !s.restartWorkload(w2) {
				return
			}
		}
		if !s.shutdownAndCheck(what, p.Workers, nil) {
			return
		}
		c.Distinct(fmt.Sprintf("startup-fault/w%d/%d", p.Workers, failNth))
	}
}

// c03RestartDuringSubscribe: Serve is still making its last subscription (the call is held
// on the connection) when Shutdown is called - the service counts as started by then, so
// the call is accepted and completes - and the service is served again on a new connection
// before the held subscription returns. The first Serve call then returns, the second run
// keeps exactly its own workers, stays started and works, and stops like any other.
func c03RestartDuringSubscribe(c *core.Ctx, p c03Params) {
	lastOf := map[bool]int{}
	for _, noQueue := range []bool{false, true} {
		probe := newC03Svc(c, p.Workers)
		if noQueue {
			probe.rig.S.SetQueueGroup("")
		}
		if err := probe.rig.start(); err != nil {
			c.Inconclusive("start: " + err.Error())
			return
		}
		lastOf[noQueue] = len(probe.rig.C.Subs())
		probe.rig.stop()
	}
	for cy := 0; cy < p.Cycles; cy++ {
		workers := []int{p.Workers, 1, 8}[cy%3]
		s := newC03Svc(c, workers)
		// half of the cycles without queue group (plain subscriptions)
		noQueue := cy%4 >= 2
		if noQueue {
			s.rig.S.SetQueueGroup("")
		}
		last := lastOf[noQueue]
		// the held subscription is the last one (the first Serve then finishes its start-up
		// normally) or the one before it (its last subscription then fails on the closed
		// connection, and the start-up is given up: that concerns the first run only)
		held := last - cy%2
		what := map[string]interface{}{"scenario": "Shutdown and a new Serve while the first Serve is still inside a subscription", "workers": workers, "cycle": cy, "subscriptions": last, "held_subscription": held, "queue_group": map[bool]string{false: "<default>", true: ""}[noQueue]}
		var nsub int32
		arrived, release := make(chan struct{}), make(chan struct{})
		conn1 := s.rig.C
		conn1.FailSubscribe = func(string, int) error {
			if int(atomic.AddInt32(&nsub, 1)) == held {
				close(arrived)
				waitCh(release, 30*time.Second)
			}
			return nil
		}
		ret1 := make(chan error, 1)
		go func() {
			var err error
			if pn, stack := tryStack(func() { err = s.rig.S.Serve(conn1) }); pn != nil {
				c.Violation("C03/panic:Serve:"+short(fmt.Sprint(pn), 60), fmt.Sprintf("Serve panicked: %v", pn), map[string]interface{}{"scenario": what, "stack": short(stack, 2500)})
			}
			ret1 <- err
		}()
		if !waitCh(arrived, 10*time.Second) {
			close(release)
			c.Inconclusive("restart-during-subscribe: the last subscription was never made")
			return
		}
		c.Eval(1)
		sd := make(chan struct{})
		go func() { s.apiCall("Shutdown", func() { s.rig.S.Shutdown() }); close(sd) }()
		if !waitCh(sd, 10*time.Second) {
			close(release)
			c.Violation("C03/shutdown-did-not-return:during-subscribe", "Shutdown called while Serve was making its last subscription did not return within 10 s", what)
			return
		}
		if err := s.rig.restart(); err != nil {
			close(release)
			c.Violation("C03/restart-failed", "a stopped service (its first Serve call still inside a subscription) could not be served again: "+err.Error(), what)
			return
		}
		close(release)
		select {
		case <-ret1:
		case <-time.After(10 * time.Second):
			n := mon.CountGoroutines("go-res.(*Service).startWorker")
			c.Violation("C03/serve-did-not-return:restart-during-subscribe", fmt.Sprintf("the Serve call of the run that was shut down had not returned 10 s after its held subscription completed (the service is being served again; %d worker goroutines, %d configured)", n, workers), what)
			s.rig.S.Shutdown()
			return
		}
		time.Sleep(3 * time.Millisecond)
		if st, _, _, _ := s.rig.S.VerifState(); st != 2 {
			c.Violation("C03/previous-run-stops-next-run", fmt.Sprintf("the tail of the first Serve call left the second run in state %d", st), what)
			return
		}
		if n := mon.CountGoroutines("go-res.(*Service).startWorker"); n != workers {
			c.Violation("C03/worker-count-after-restart", fmt.Sprintf("the run served during the first run's last subscription has %d worker goroutines, %d are configured", n, workers), what)
			s.rig.S.Shutdown()
			return
		}
		if n := len(s.rig.C.Subs()); n != last {
			c.Violation("C03/subscriptions-after-restart", fmt.Sprintf("the connection of the second run carries %d subscriptions, a run makes %d: the first Serve call went on subscribing after it had been shut down and the service served again", n, last),
				map[string]interface{}{"scenario": what, "subscriptions": subjectsOf(s.rig.C.Subs())})
			s.rig.S.Shutdown()
			return
		}
		c.Obs("restarts_during_subscribe", 1)
		c.Distinct(fmt.Sprintf("restart-during-subscribe/w%d/%d", workers, cy%4))
		if !s.restartWorkload(what) {
			return
		}
		if !s.shutdownAndCheck(what, workers, nil) {
			return
		}
	}
}

// c03APIWhileStopping: Shutdown has closed the connection and waits for a callback that is
// still in flight (and blocked, so it publishes nothing). Every service-level call made
// in that state - Reset, ResetAll, TokenEvent, TokenEventWithID, TokenReset - is refused
// as not-started: it cannot take effect any more (the connection is closed), so nothing
// may be published by it, and it does not panic or block.
func c03APIWhileStopping(c *core.Ctx, p c03Params) {
	for cy := 0; cy < p.Cycles; cy++ {
		workers := []int{1, 2, p.Workers, 32}[cy%4]
		rg := newRig("svc", func(s *res.Service) {
			s.SetWorkerCount(workers)
			s.Handle("m.$id", res.Access(res.AccessGranted), res.GetModel(func(r res.ModelRequest) { r.Model(map[string]int{"a": 1}) }),
				res.Auth("login", func(r res.AuthRequest) { r.OK(nil) }))
		})
		if err := rg.start(); err != nil {
			c.Inconclusive("start: " + err.Error())
			return
		}
		inside, release := make(chan struct{}), make(chan struct{})
		if err := rg.S.With("svc.m.1", func(res.Resource) { close(inside); <-release }); err != nil || !waitCh(inside, 10*time.Second) {
			close(release)
			c.Inconclusive("in-flight callback did not start")
			return
		}
		sdone := make(chan struct{})
		go func() { rg.S.Shutdown(); close(sdone) }()
		closed := false
		for i := 0; i < 5000 && !closed; i++ {
			st, _, _, _ := rg.S.VerifState()
			closed = rg.C.Closes() >= 1 && st != 2
			if !closed {
				time.Sleep(time.Millisecond)
			}
		}
		if !closed {
			close(release)
			c.Inconclusive("Shutdown did not reach the draining state")
			return
		}
		st, _, _, _ := rg.S.VerifState()
		what := map[string]interface{}{"scenario": "service-level calls while Shutdown waits for an in-flight callback", "cycle": cy, "workers": workers, "state": st}
		pos := rg.C.Len()
		calls := []struct {
			name string
			f    func()
		}{
			{"Reset", func() { rg.S.Reset([]string{"svc.>"}, []string{"svc.>"}) }},
			{"ResetAll", func() { rg.S.ResetAll() }},
			{"TokenEvent", func() { rg.S.TokenEvent("cid1", map[string]string{"user": "x"}) }},
			{"TokenEventWithID", func() { rg.S.TokenEventWithID("cid1", "tid1", nil) }},
			{"TokenReset", func() { rg.S.TokenReset("auth.svc.m.1.login", "tid1", "tid2") }},
		}
		for k := range calls {
			call := calls[(k+cy)%len(calls)]
			var pn interface{}
			cdone := make(chan struct{})
			go func() { defer close(cdone); pn = try(call.f) }()
			c.Eval(1)
			if !waitCh(cdone, 10*time.Second) {
				close(release)
				c.Violation("C03/call-while-stopping-blocks:"+call.name, fmt.Sprintf("%s called while Shutdown was waiting for an in-flight callback did not return within 10 s", call.name), what)
				return
			}
			if pn != nil {
				c.Violation("C03/panic:"+call.name+":while-stopping", fmt.Sprintf("%s called while Shutdown was waiting for an in-flight callback panicked: %v", call.name, pn), what)
			}
			if msgs := rg.C.Since(pos); len(msgs) > 0 {
				what["published"] = msgs[0].Subject
				c.Violation("C03/call-while-stopping-published:"+call.name, fmt.Sprintf("%s called after Shutdown had closed the connection (state %d) was not refused as not-started: it published %s on the closed connection", call.name, st, msgs[0].Subject), what)
				pos = rg.C.Len()
			}
		}
		c.Obs("api_calls_while_stopping", int64(len(calls)))
		c.Distinct(fmt.Sprintf("api-while-stopping/w%d/%d", workers, cy%5))
		close(release)
		if !waitCh(sdone, 20*time.Second) {
			c.Violation("C03/shutdown-did-not-return:api-while-stopping", "Shutdown did not return within 20 s after the in-flight callback had finished", what)
			return
		}
		select {
		case <-rg.serveRet:
		case <-time.After(20 * time.Second):
			c.Violation("C03/serve-did-not-return:api-while-stopping", "Serve did not return within 20 s after Shutdown", what)
			return
		}
		// the service is stopped: events sent through a resource obtained from it (as a store's
		// change callbacks on foreign goroutines do) are refused, none of them panics, a query
		// event ends with its single nil call, nothing reaches the closed connection
		pos2 := rg.C.Len()
		rs, rerr := rg.S.Resource(fmt.Sprintf("svc.m.%d", cy))
		if rerr != nil {
			c.Inconclusive("Service.Resource on the stopped service: " + rerr.Error())
			continue
		}
		var qnil int32
		stopped := []struct {
			name string
			f    func()
		}{
			{"Event", func() { rs.Event("ping", nil) }},
			{"ChangeEvent", func() { rs.ChangeEvent(map[string]interface{}{"a": 1}) }},
			{"ReaccessEvent", func() { rs.ReaccessEvent() }},
			{"QueryEvent", func() {
				rs.QueryEvent(func(qr res.QueryRequest) {
					if qr == nil {
						atomic.AddInt32(&qnil, 1)
					}
				})
			}},
		}
		for _, call := range stopped {
			call := call
			ret := make(chan interface{}, 1)
			go func() { ret <- try(call.f) }()
			select {
			case pn := <-ret:
				if pn != nil {
					c.Violation("C03/panic:"+call.name+":after-shutdown", fmt.Sprintf("%s on a resource of the stopped service panicked: %v", call.name, pn), what)
				}
			case <-time.After(10 * time.Second):
				c.Violation("C03/hang:"+call.name+":after-shutdown", call.name+" on a resource of the stopped service did not return", what)
				return
			}
		}
		c.Obs("events_on_the_stopped_service", int64(len(stopped)))
		for t := 0; t < 2000 && atomic.LoadInt32(&qnil) == 0; t++ {
			time.Sleep(time.Millisecond)
		}
		if n := atomic.LoadInt32(&qnil); n != 1 && c.Violations() == 0 {
			c.Violation("C03/query-event-after-shutdown", fmt.Sprintf("QueryEvent on a resource of the stopped service: callback called %d times with nil, want once", n), what)
		}
		if msgs := rg.C.Since(pos2); len(msgs) > 0 {
			c.Violation("C03/published-after-shutdown", fmt.Sprintf("an event sent on the stopped service was published: %s", msgs[0].Subject), what)
		}
	}
}

// c03Listen: the same Service value goes through cycles of ListenAndServe on an
// embedded NATS server. A cycle ends either with Shutdown (racing requests and
// With calls) or with the connection being closed under the service (which the
// library turns into a Shutdown): the blocked ListenAndServe call must return,
// all workers must be gone and the service must be servable again.
func c03Listen(c *core.Ctx, p c03Params) {
	rigInstall()
	ne, err := natsenv.Start()
	if err != nil {
		c.Inconclusive("nats: " + err.Error())
		return
	}
	defer ne.Shutdown()
	var executed int64
	svc := res.NewService("svc")
	svc.SetLogger(&cntLogger{})
	svc.SetWorkerCount(p.Workers)
	svc.Handle("m.$id", res.Access(res.AccessGranted), res.GetModel(func(r res.ModelRequest) {
		atomic.AddInt64(&executed, 1)
		r.Model(map[string]string{"id": r.PathParam("id")})
	}))
	var staleGate *sched.Gate // holds a Shutdown call that the previous run's closed-connection handler makes
	for cy := 0; cy < p.Cycles; cy++ {
		how := []string{"shutdown", "connection-closed", "shutdown"}[cy%3]
		what := map[string]interface{}{"scenario": "ListenAndServe cycle", "cycle": cy, "ended_by": how}
		served := make(chan struct{})
		var once sync.Once
		svc.SetOnServe(func(*res.Service) { once.Do(func() { close(served) }) })
		ret := make(chan error, 1)
		// every sixth cycle (one that follows a held closed handler) is served on a connection
		// of another type than *nats.Conn: the left-over call belongs to that run even less
		otherConn := cy%6 == 3
		if otherConn {
			what["served_on"] = "a res.Conn that is not a *nats.Conn"
			go func() { ret <- svc.Serve(vconn.New()) }()
		} else {
			go func() { ret <- svc.ListenAndServe(ne.URL, nats.ReconnectWait(20*time.Millisecond)) }()
		}
		select {
		case <-served:
			if staleGate != nil {
				// NATS runs the closed handler of the previous run's connection on a goroutine of
				// its own; its Shutdown call (held at its entry) arrives only now. It belongs to
				// the run that is over and must not stop this one.
				held := staleGate.WaitArrived(0)
				staleGate.Release()
				staleGate = nil
				if held {
					c.Obs("stale_closed_handler_calls_held", 1)
					time.Sleep(5 * time.Millisecond)
					if st, _, _, _ := svc.VerifState(); st != 2 {
						c.Violation("C03/stale-closed-handler-stops-next-run", fmt.Sprintf("the closed handler of the previous run's connection ran after the service had been served again and stopped the new run (state=%d)", st), what)
						return
					}
				}
			}
		case err := <-ret:
			if staleGate != nil {
				staleGate.Release()
				staleGate = nil
			}
			c.Violation("C03/listen-failed", fmt.Sprintf("ListenAndServe returned %v before serving (cycle %d)", err, cy), what)
			return
		case <-time.After(20 * time.Second):
			c.Inconclusive("ListenAndServe did not start serving")
			return
		}
		// traffic: requests over the server and With calls, still going on when the cycle ends
		stop := make(chan struct{})
		var wg sync.WaitGroup
		var answered int64
		for g := 0; g < 3; g++ {
			wg.Add(1)
			go func(g int) {
				defer wg.Done()
				for n := 0; ; n++ {
					select {
					case <-stop:
						return
					default:
					}
					if g == 0 {
						if pn := try(func() { svc.With(fmt.Sprintf("svc.m.%d", n%5), func(res.Resource) { atomic.AddInt64(&executed, 1) }) }); pn != nil {
							c.Violation("C03/panic:With", fmt.Sprintf("With panicked during a ListenAndServe cycle: %v", pn), what)
						}
						continue
					}
					if m, err := ne.GW.Request(fmt.Sprintf("get.svc.m.%d", n%7), nil, 50*time.Millisecond); err == nil && len(m.Data) > 0 {
						atomic.AddInt64(&answered, 1)
					}
				}
			}(g)
		}
		time.Sleep(time.Duration(1+cy%4) * time.Millisecond)
		if how == "shutdown" && cy%2 == 0 {
			// this cycle is ended by our own Shutdown call; the Shutdown call that the library's
			// closed-connection handler makes afterwards (on a goroutine NATS starts) is held
			staleGate = sched.Arm("shutdown.enter", func(interface{}) bool {
				buf := make([]byte, 4096)
				return strings.Contains(string(buf[:runtime.Stack(buf, false)]), "handleClosed")
			})
		}
		switch how {
		case "shutdown":
			if staleGate == nil {
				// a callback is in flight when Shutdown is called, and it stays in flight until the
				// closed handler that NATS runs for the connection Shutdown closes has come and gone:
				// that call finds the service stopping on its own connection and must leave it alone
				what["in_flight_callback"] = true
				hg := sched.Arm("shutdown.enter", fromClosedConnCallback)
				started := make(chan struct{})
				if err := svc.With("svc.m.inflight", func(res.Resource) {
					close(started)
					if hg.WaitArrived(300 * time.Millisecond) {
						c.Obs("closed_handler_during_drain", 1)
					}
					hg.Release()
					time.Sleep(3 * time.Millisecond)
					atomic.AddInt64(&executed, 1)
				}); err != nil || !waitCh(started, 10*time.Second) {
					hg.Release()
					c.Inconclusive("in-flight callback did not start")
					close(stop)
					return
				}
			}
			var serr error
			var pn interface{}
			sdone := make(chan struct{})
			go func() { defer close(sdone); pn = try(func() { serr = svc.Shutdown() }) }()
			if !waitCh(sdone, 20*time.Second) {
				close(stop)
				c.Violation("C03/shutdown-did-not-return:listen", "Shutdown of a service started with ListenAndServe did not return within 20 s (a callback was in flight when it was called)", what)
				return
			}
			if pn != nil {
				c.Violation("C03/panic:Shutdown:listen", fmt.Sprintf("Shutdown panicked: %v", pn), what)
			} else if serr != nil {
				c.Violation("C03/shutdown-error", "Shutdown of a service started with ListenAndServe returned: "+serr.Error(), what)
			}
		case "connection-closed":
			if nc, ok := svc.Conn().(*nats.Conn); ok && nc != nil {
				nc.Close()
			}
		}
		select {
		case <-ret:
		case <-time.After(20 * time.Second):
			close(stop)
			c.Violation("C03/serve-did-not-return:listen:"+how, fmt.Sprintf("ListenAndServe did not return within 20 s after the cycle was ended by %s", how), what)
			return
		}
		close(stop)
		wg.Wait()
		c.Eval(1)
		c.Obs("listen_cycles", 1)

		c.Obs("listen_answered_requests", atomic.LoadInt64(&answered))
		// all workers gone, state stopped (servable again in the next cycle)
		gone := false
		for i := 0; i < 400; i++ {
			if st, _, _, _ := svc.VerifState(); mon.CountGoroutines("go-res.(*Service).startWorker") == 0 && st == 0 {
				gone = true
				break
			}
			time.Sleep(5 * time.Millisecond)
		}
		if !gone {
			st, qnil, queued, groups := svc.VerifState()
			n := mon.CountGoroutines("go-res.(*Service).startWorker", "sync.(*Cond).Wait")
			if n > 0 || st != 0 {
				c.Violation("C03/not-stopped-after-cycle:"+how, fmt.Sprintf("2 s after ListenAndServe returned (%s): state=%d, %d workers parked, queue nil=%v queued=%d groups=%d", how, st, n, qnil, queued, groups), what)
				return
			}
			c.Inconclusive("worker goroutines still present but not parked")
			return
		}
		if svc.Conn() != nil {
			c.Violation("C03/conn-not-cleared", "Conn() is not nil after the ListenAndServe cycle ended", what)
		}
		if staleGate != nil {
			// give the closed handler of the connection that was just closed time to arrive
			staleGate.WaitArrived(50 * time.Millisecond)
		}
		c.Distinct(fmt.Sprintf("listen/%s/%d", how, cy))
	}
	c.Sample(map[string]interface{}{"scenario": "ListenAndServe cycles on an embedded NATS server", "cycles": p.Cycles, "executed_callbacks": atomic.LoadInt64(&executed)})
}

func c03Directed(c *core.Ctx, p c03Params) {
	for round := 0; round < p.Rounds; round++ {
		s := newC03Svc(c, p.Workers)
		if err := s.rig.start(); err != nil {
			c.Inconclusive("start: " + err.Error())
			return
		}
		sv := s.rig.S
		what := map[string]interface{}{"scenario": p.Gate, "workers": p.Workers, "round": round}
		ok := true
		var producers sync.WaitGroup
		var running int32
		spawn := func(name string, f func()) {
			producers.Add(1)
			atomic.AddInt32(&running, 1)
			go func() {
				defer producers.Done()
				defer atomic.AddInt32(&running, -1)
				s.apiCall(name, f)
			}()
		}
		done := func() bool { return atomic.LoadInt32(&running) == 0 }
		switch p.Gate {
		case "control":
			// same calls, no gate
			spawn("With", func() { sv.With("svc.m.1", func(rs res.Resource) { s.body("with:a", rs.Group()) }) })
			spawn("TokenEvent", func() { sv.TokenEvent("cid", nil) })
			producers.Wait()
			ok = s.shutdownAndCheck(what, p.Workers, done)
		case "G1", "G2":
			// submission parked between the started-check and the lock
			gate := sched.Arm("runWith.checked", func(arg interface{}) bool { g, _ := arg.(string); return g == "svc.m.gate" })
			spawn("With", func() { sv.With("svc.m.gate", func(rs res.Resource) { s.body("with:gated", rs.Group()) }) })
			if !gate.WaitArrived(10 * time.Second) {
				gate.Release()
				c.Inconclusive("gate runWith.checked never reached")
				return
			}
			point := "close.flagged"
			if p.Gate == "G2" {
				point = "close.woken"
			}
			sgate := sched.Arm(point, nil) // park Shutdown itself there
			go func() {
				if sgate.WaitArrived(10 * time.Second) {
					gate.Release() // the submission now appends to the queue that was just nil-ed
					// give the woken worker the chance to process it, then let Shutdown go on
					time.Sleep(2 * time.Millisecond)
				} else {
					gate.Release()
				}
				sgate.Release()
			}()
			ok = s.shutdownAndCheck(what, p.Workers, done)
			c.Obs("gates_parked", 1)
		case "G3-token", "G3-reset", "G3-event", "G3-reply":
			// a publishing call parked before it reads the connection, released after Shutdown returned
			var subjPrefix string
			switch p.Gate {
			case "G3-token":
				subjPrefix = "conn."
			case "G3-reset":
				subjPrefix = "system.reset"
			case "G3-event":
				subjPrefix = "event.svc.m.7."
			case "G3-reply":
				subjPrefix = "_INBOX.g3"
			}
			gate := sched.Arm("publish.enter", func(arg interface{}) bool { sj, _ := arg.(string); return strings.HasPrefix(sj, subjPrefix) })
			switch p.Gate {
			case "G3-token":
				spawn("TokenEvent", func() { sv.TokenEvent("cid", map[string]int{"a": 1}) })
			case "G3-reset":
				spawn("Reset", func() { sv.Reset([]string{"svc.m.1"}, nil) })
			case "G3-event":
				spawn("foreign-change", func() {
					if rs, err := sv.Resource("svc.m.7"); err == nil {
						rs.ChangeEvent(map[string]interface{}{"a": 1})
					}
				})
			case "G3-reply":
				// a handler replying: parked inside the callback, so Shutdown must wait for it
				s.rig.C.Deliver("call.svc.m.9.do", "_INBOX.g3", []byte(`{"query":"g3"}`))
			}
			if !gate.WaitArrived(10 * time.Second) {
				gate.Release()
				c.Inconclusive("gate publish.enter never reached")
				return
			}
			if p.Gate == "G3-reply" {
				// in-flight callback: Shutdown must not return before it finished
				go func() { time.Sleep(20 * time.Millisecond); gate.Release() }()
				ok = s.shutdownAndCheck(what, p.Workers, done)
			} else {
				ok = s.shutdownAndCheck(what, p.Workers, func() bool { return false })
				gate.Release()
				producers.Wait()
			}
			c.Obs("gates_parked", 1)
		case "G4":
			// callback in flight (blocked in the harness) during Shutdown
			s.mu.Lock()
			s.block = make(chan struct{})
			blk := s.block
			s.mu.Unlock()
			started := make(chan struct{})
			sv.With("svc.m.4", func(rs res.Resource) { close(started); s.body("blk:inflight", rs.Group()) })
			sv.With("svc.m.5", func(rs res.Resource) { s.body("with:queued-behind", rs.Group()) })
			<-started
			go func() { time.Sleep(30 * time.Millisecond); close(blk) }()
			ok = s.shutdownAndCheck(what, p.Workers, done)
		case "G5":
			// Shutdown from two goroutines
			var errs [2]error
			var wg sync.WaitGroup
			for i := 0; i < 2; i++ {
				wg.Add(1)
				go func(i int) {
					defer wg.Done()
					s.apiCall("Shutdown", func() { errs[i] = sv.Shutdown() })
				}(i)
			}
			wg.Wait()
			c.Eval(1)
			if (errs[0] == nil) == (errs[1] == nil) {
				c.Violation("C03/double-shutdown", fmt.Sprintf("two concurrent Shutdown calls returned %v and %v; exactly one should stop the service", errs[0], errs[1]), what)
			}
			select {
			case <-s.rig.serveRet:
			case <-time.After(20 * time.Second):
				c.Violation("C03/serve-did-not-return", "Serve did not return after Shutdown returned", what)
			}
			if n := s.rig.C.Closes(); n != 1 {
				c.Violation("C03/close-count", fmt.Sprintf("connection Close was called %d times", n), what)
			}
		case "G7":
			// a submission parked between the started-check and the lock survives the whole
			// Shutdown and is released at the moment the service is served again: it reads the
			// worker queue under the lock while serve sets it up (watched by the race batch)
			gate := sched.Arm("runWith.checked", func(arg interface{}) bool { g, _ := arg.(string); return g == "svc.m.gate" })
			spawn("With", func() { sv.With("svc.m.gate", func(rs res.Resource) { s.body("with:gated", rs.Group()) }) })
			if !gate.WaitArrived(10 * time.Second) {
				gate.Release()
				c.Inconclusive("gate runWith.checked never reached")
				return
			}
			if err := s.rig.stop(); err != nil {
				gate.Release()
				c.Violation("C03/shutdown-error", "Shutdown returned: "+err.Error(), what)
				return
			}
			go func() {
				for i := 0; i < 50; i++ {
					runtime.Gosched()
				}
				gate.Release()
			}()
			if err := s.rig.restart(); err != nil {
				c.Violation("C03/restart-failed", "a stopped service could not be served again: "+err.Error(), what)
				return
			}
			producers.Wait()
			c.Eval(1)
			c.Obs("gates_parked", 1)
			// the served-again service serialises the group of the late submission like any other:
			// callbacks submitted now (and the late one, if it is accepted) never run two at a time
			var inGroup, maxInGroup int32
			var awg sync.WaitGroup
			for k := 0; k < 8; k++ {
				awg.Add(1)
				if err := sv.With("svc.m.gate", func(rs res.Resource) {
					defer awg.Done()
					if n := atomic.AddInt32(&inGroup, 1); n > atomic.LoadInt32(&maxInGroup) {
						atomic.StoreInt32(&maxInGroup, n)
					}
					time.Sleep(300 * time.Microsecond)
					atomic.AddInt32(&inGroup, -1)
				}); err != nil {
					awg.Done()
				}
			}
			adone := make(chan struct{})
			go func() { awg.Wait(); close(adone) }()
			if !waitCh(adone, 10*time.Second) {
				c.Inconclusive("callbacks submitted after the restart did not all run")
				return
			}
			if m := atomic.LoadInt32(&maxInGroup); m > 1 {
				c.Violation("C03/overlap-after-restart:G7", fmt.Sprintf("after Shutdown and a new Serve (with a With call of the previous run released during the new Serve) %d callbacks of group svc.m.gate ran at the same time", m), what)
			}
			ok = s.shutdownAndCheck(what, p.Workers, done)
		case "G6":
			// Serve on a service that is being stopped
			sgate := sched.Arm("close.flagged", nil)
			ret := make(chan error, 1)
			go func() { ret <- sv.Shutdown() }()
			if !sgate.WaitArrived(10 * time.Second) {
				sgate.Release()
				c.Inconclusive("gate close.flagged never reached")
				return
			}
			var serr error
			s.apiCall("Serve", func() { serr = sv.Serve(vconn.New()) })
			if serr == nil {
				c.Violation("C03/serve-while-stopping", "Serve on a service being stopped returned nil", what)
			}
			sgate.Release()
			select {
			case <-ret:
			case <-time.After(20 * time.Second):
				c.Inconclusive("Shutdown did not return in G6")
				return
			}
			<-s.rig.serveRet
			c.Eval(1)
		}
		c.Distinct(fmt.Sprintf("%s/w%d/%d", p.Gate, p.Workers, round))
		if !ok {
			return
		}
		if !s.restartCheck(what) {
			return
		}
		if !s.shutdownAndCheck("after-restart", p.Workers, nil) {
			return
		}
	}
	c.Sample(map[string]interface{}{"scenario": p.Gate, "workers": p.Workers, "rounds": p.Rounds})
}
