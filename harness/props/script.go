package props

import (
	"errors"
	"fmt"
	"math"
	"math/rand"
	"time"

	res "github.com/jirenius/go-res"
)

// A script is a handler behaviour: a sequence of actions executed by a
// harness-supplied handler on the real request object.
type act struct {
	Op string `json:"op"`          // reply | timeout | event | value | panic | meta | token
	K  string `json:"k,omitempty"` // variant
	V  string `json:"v,omitempty"` // value kind
}

type script []act

func (s script) String() string {
	out := ""
	for i, a := range s {
		if i > 0 {
			out += ";"
		}
		out += a.Op
		if a.K != "" {
			out += ":" + a.K
		}
		if a.V != "" {
			out += "(" + a.V + ")"
		}
	}
	if out == "" {
		return "<return>"
	}
	return out
}

type badMarshaler struct{}

func (badMarshaler) MarshalJSON() ([]byte, error) { return nil, errors.New("refusing to marshal") }

type invalidMarshaler struct{}

func (invalidMarshaler) MarshalJSON() ([]byte, error) { return []byte(`{"a":`), nil }

// marshalers failing with an error that is, wraps, or is a typed nil *res.Error:
// still "a value that cannot be marshalled" => system.internalError
type resErrMarshaler struct{}

func (resErrMarshaler) MarshalJSON() ([]byte, error) { return nil, res.ErrNotFound }

type wrappedResErrMarshaler struct{}

func (wrappedResErrMarshaler) MarshalJSON() ([]byte, error) {
	return nil, fmt.Errorf("wrapped: %w", &res.Error{Code: "inventory.outOfStock", Message: "Out of stock"})
}

type nilResErrMarshaler struct{}

func (nilResErrMarshaler) MarshalJSON() ([]byte, error) {
	var e *res.Error
	return nil, e
}

type panicMarshaler struct{}

func (panicMarshaler) MarshalJSON() ([]byte, error) { panic("marshal panics") }

var unmarshalableKinds = map[string]bool{"chan": true, "func": true, "nan": true, "badmarshaler": true, "invalidmarshaler": true, "nestedchan": true,
	"marshaler-reserr": true, "marshaler-wrapped-reserr": true, "marshaler-nil-reserr": true}

var marshalableKinds = []string{"nil", "int", "str", "stresc", "map", "nested", "datavalue", "ref", "softref", "list", "emptymap", "bool"}
var unmarshalableList = []string{"chan", "func", "nan", "badmarshaler", "invalidmarshaler", "nestedchan", "marshaler-reserr", "marshaler-wrapped-reserr", "marshaler-nil-reserr"}

func scriptValue(kind string) interface{} {
	switch kind {
	case "nil":
		return nil
	case "int":
		return 42
	case "bool":
		return true
	case "str":
		return "plain"
	case "stresc":
		return "q\"uote\\ \n\t\u0001 <tag> é € 😀  "
	case "map":
		return map[string]interface{}{"a": 1, "b": "two"}
	case "emptymap":
		return map[string]interface{}{}
	case "nested":
		return map[string]interface{}{"a": map[string]interface{}{"b": []interface{}{1, "x", nil}}, "r": res.Ref("svc.m.1")}
	case "datavalue":
		return res.DataValue[[]int]{Data: []int{1, 2, 3}}
	case "ref":
		return res.Ref("svc.m.7")
	case "softref":
		return res.SoftRef("svc.m.8")
	case "list":
		return []interface{}{1, "a", res.Ref("svc.m.2"), nil}
	case "chan":
		return make(chan int)
	case "func":
		return func() {}
	case "nan":
		return math.NaN()
	case "badmarshaler":
		return badMarshaler{}
	case "invalidmarshaler":
		return invalidMarshaler{}
	case "nestedchan":
		return map[string]interface{}{"ok": 1, "bad": []interface{}{make(chan int)}}
	case "marshaler-reserr":
		return resErrMarshaler{}
	case "marshaler-wrapped-reserr":
		return map[string]interface{}{"x": wrappedResErrMarshaler{}}
	case "marshaler-nil-reserr":
		return nilResErrMarshaler{}
	}
	return kind
}

// scriptModel returns a value for model-like replies: a map when marshalable.
func scriptModelValue(kind string) interface{} {
	if unmarshalableKinds[kind] {
		return scriptValue(kind)
	}
	return map[string]interface{}{"v": scriptValue(kind)}
}

func scriptCollectionValue(kind string) interface{} {
	if unmarshalableKinds[kind] {
		return scriptValue(kind)
	}
	return []interface{}{scriptValue(kind), 1}
}

// scriptEscRID is a valid resource id whose JSON encoding needs escapes: quote
// and backslash are legal in name tokens, the query part is free text.
const scriptEscRID = `svc.m."q"\x.back\slash?path=C:\dir\"file"&nl=` + "a\nb\t<é>\x01\"},\"error\":{\"code\":\"x\"}"

var errPlain = errors.New("plain failure")
var errRes = &res.Error{Code: "custom.code", Message: "Custom \"message\"", Data: map[string]interface{}{"k": []int{1}}}

type typedNilErr struct{}

func (*typedNilErr) Error() string { return "typed nil" }

func scriptError(kind string) error {
	switch kind {
	case "reserr":
		return errRes
	case "plain":
		return errPlain
	case "notfound":
		return res.ErrNotFound
	case "reserr-baddata":
		return &res.Error{Code: "custom.bad", Message: "bad data", Data: make(chan int)}
	case "reserr-empty":
		return &res.Error{}
	case "reserr-nomsg":
		// a code but no message: the message member is still a (empty) string
		return &res.Error{Code: "custom.nomsg"}
	case "reserr-nocode":
		return &res.Error{Message: "no code"}
	case "reserr-nil":
		// a nil *res.Error in the error interface (a function returning *res.Error
		// that had nothing to report, passed on unchecked)
		return (*res.Error)(nil)
	case "wrapped-reserr":
		return fmt.Errorf("wrapped: %w", errRes)
	// the library's exported predefined error values, used as they are
	case "predef-invalidquery":
		return res.ErrInvalidQuery
	case "predef-notfound":
		return res.ErrNotFound
	case "predef-invalidparams":
		return res.ErrInvalidParams
	case "predef-accessdenied":
		return res.ErrAccessDenied
	case "predef-methodnotfound":
		return res.ErrMethodNotFound
	case "predef-timeout":
		return res.ErrTimeout
	case "predef-internal":
		return res.ErrInternalError
	}
	return errors.New(kind)
}

// scriptEnv is what the interpreter needs besides the request.
type scriptEnv struct {
	rtype     string // access get call auth new | with | query
	getScript script // script of the resource's get handler (for Value())
	onAct     func(a act)
}

// runScript executes the script on the request. It does not recover: panics
// propagate into the library like in user code.
func runScript(rq interface{}, sc script, env *scriptEnv) {
	r, _ := rq.(*res.Request)
	var rs res.Resource
	if r != nil {
		rs = r
	} else {
		rs, _ = rq.(res.Resource)
	}
	for _, a := range sc {
		if env.onAct != nil {
			env.onAct(a)
		}
		switch a.Op {
		case "reply":
			scriptReply(r, rq, env.rtype, a)
		case "timeout":
			d := 1500 * time.Millisecond
			switch a.K {
			case "neg":
				d = -time.Second
			case "zero":
				d = 0
			case "big":
				d = 3 * time.Hour
			case "max":
				d = time.Duration(math.MaxInt64) // the usual "for ever"
			case "max-1":
				d = time.Duration(math.MaxInt64 - 1)
			case "submilli":
				d = 999 * time.Microsecond
			case "odd":
				d = 1500*time.Millisecond + 1
			}
			if r != nil {
				r.Timeout(d)
			} else if t, ok := rq.(interface{ Timeout(time.Duration) }); ok {
				t.Timeout(d)
			}
		case "event":
			scriptEvent(rs, a)
		case "value":
			if a.K == "require" {
				rs.RequireValue()
			} else {
				rs.Value()
			}
		case "panic":
			switch a.K {
			case "reserr":
				panic(errRes)
			case "reserr-baddata":
				panic(scriptError("reserr-baddata"))
			case "err":
				panic(errPlain)
			case "str":
				panic("string panic")
			case "int":
				panic(42)
			case "nil-typed-err":
				var e *typedNilErr
				panic(error(e))
			case "runtime":
				var m map[string]int
				m["x"] = 1
			case "index":
				var s []int
				_ = s[len(sc)]
			case "reserr-nil":
				var e *res.Error
				panic(e)
			case "untyped-nil":
				panic(nil)
			}
		case "meta":
			switch a.K {
			case "status":
				r.SetResponseStatus(303)
			case "status0":
				r.SetResponseStatus(0)
			case "header":
				r.ResponseHeader().Set("Location", "/elsewhere")
				r.ResponseHeader().Add("Set-Cookie", "a=b")
				r.ResponseHeader().Add("Set-Cookie", "c=\"d\"")
			case "header-empty":
				r.ResponseHeader()
			}
		case "token":
			if a.K == "unmarshalable" {
				r.TokenEvent(make(chan int))
			} else {
				r.TokenEvent(map[string]interface{}{"user": "x"})
			}
		}
	}
}

func scriptReply(r *res.Request, rq interface{}, rtype string, a act) {
	if r == nil {
		// getRequest (Value() path) or query request
		switch g := rq.(type) {
		case res.GetRequest:
			switch a.K {
			case "model":
				g.Model(scriptModelValue(a.V))
			case "querymodel":
				g.QueryModel(scriptModelValue(a.V), "q=1")
			case "collection":
				g.Collection(scriptCollectionValue(a.V))
			case "querycollection":
				g.QueryCollection(scriptCollectionValue(a.V), "q=1")
			case "notfound":
				g.NotFound()
			case "invalidquery":
				g.InvalidQuery(a.V)
			case "error":
				g.Error(scriptError(a.V))
			}
		}
		return
	}
	switch a.K {
	case "access":
		switch a.V {
		case "full":
			r.Access(true, "*")
		case "none":
			r.Access(false, "")
		case "get":
			r.Access(true, "")
		case "call":
			r.Access(false, "set,foo")
		}
	case "denied":
		r.AccessDenied()
	case "granted":
		r.AccessGranted()
	case "notfound":
		r.NotFound()
	case "methodnotfound":
		r.MethodNotFound()
	case "invalidparams":
		r.InvalidParams(a.V)
	case "invalidquery":
		r.InvalidQuery(a.V)
	case "error":
		r.Error(scriptError(a.V))
	case "model":
		r.Model(scriptModelValue(a.V))
	case "querymodel":
		r.QueryModel(scriptModelValue(a.V), "q=1")
	case "collection":
		r.Collection(scriptCollectionValue(a.V))
	case "querycollection":
		r.QueryCollection(scriptCollectionValue(a.V), "q=1")
	case "ok":
		r.OK(scriptValue(a.V))
	case "resource":
		rid := "svc.m.created"
		if a.V == "invalid" {
			rid = "svc..bad rid"
		} else if a.V == "query" {
			rid = "svc.m.created?foo=bar"
		} else if a.V == "escapes" {
			rid = scriptEscRID
		}
		r.Resource(rid)
	case "new":
		rid := res.Ref("svc.m.created")
		if a.V == "invalid" {
			rid = "svc.*"
		}
		r.New(rid)
	}
}

func scriptEvent(rs res.Resource, a act) {
	switch a.K {
	case "change":
		switch a.V {
		case "empty":
			rs.ChangeEvent(map[string]interface{}{})
		case "nil":
			rs.ChangeEvent(nil)
		case "delete":
			rs.ChangeEvent(map[string]interface{}{"gone": res.DeleteAction, "a": 1})
		case "unmarshalable":
			rs.ChangeEvent(map[string]interface{}{"c": make(chan int)})
		default:
			rs.ChangeEvent(map[string]interface{}{"a": 1, "s": "x\"y", "r": res.Ref("svc.m.2")})
		}
	case "add":
		switch a.V {
		case "neg":
			rs.AddEvent("v", -1)
		case "unmarshalable":
			rs.AddEvent(make(chan int), 0)
		default:
			rs.AddEvent(res.Ref("svc.m.3"), 2)
		}
	case "remove":
		if a.V == "neg" {
			rs.RemoveEvent(-1)
		} else {
			rs.RemoveEvent(1)
		}
	case "create":
		if a.V == "unmarshalable" {
			rs.CreateEvent(make(chan int))
		} else {
			rs.CreateEvent(map[string]interface{}{"a": 1})
		}
	case "delete":
		rs.DeleteEvent()
	case "reaccess":
		rs.ReaccessEvent()
	case "reset":
		rs.ResetEvent()
	case "custom":
		switch a.V {
		case "reserved-change", "reserved-delete", "reserved-add", "reserved-remove", "reserved-patch", "reserved-reaccess", "reserved-unsubscribe", "reserved-query":
			rs.Event(a.V[len("reserved-"):], nil)
		case "reserved-query-payload":
			rs.Event("query", map[string]interface{}{"x": 1})
		case "invalid-dot":
			rs.Event("a.b", nil)
		case "invalid-empty":
			rs.Event("", nil)
		case "invalid-space":
			rs.Event("a b", nil)
		case "invalid-wild":
			rs.Event("a*", nil)
		case "nilpayload":
			rs.Event("ping", nil)
		case "unmarshalable":
			rs.Event("bad", make(chan int))
		default:
			rs.Event("custom", map[string]interface{}{"x": []int{1, 2}})
		}
	case "query":
		rs.QueryEvent(func(qr res.QueryRequest) {})
	}
}

// Alphabets ------------------------------------------------------------------

func replyAlphabet(rtype string, htype res.ResourceType) []act {
	var out []act
	add := func(k string, vs ...string) {
		if len(vs) == 0 {
			out = append(out, act{Op: "reply", K: k})
		}
		for _, v := range vs {
			out = append(out, act{Op: "reply", K: k, V: v})
		}
	}
	common := func() {
		add("notfound")
		add("invalidquery", "", "bad query")
		add("error", "reserr", "plain", "reserr-baddata", "reserr-empty", "reserr-nomsg", "reserr-nocode", "reserr-nil")
	}
	switch rtype {
	case "access":
		add("access", "full", "none", "get", "call")
		add("denied")
		add("granted")
		common()
	case "get":
		if htype != res.TypeCollection {
			add("model", "map", "nested", "chan", "badmarshaler", "marshaler-reserr", "marshaler-wrapped-reserr")
			add("querymodel", "map")
		}
		if htype != res.TypeModel {
			add("collection", "list", "nan", "marshaler-nil-reserr", "marshaler-reserr")
			add("querycollection", "list")
		}
		common()
	case "call", "auth":
		add("ok", "nil", "map", "stresc", "chan", "invalidmarshaler", "nestedchan", "datavalue", "marshaler-reserr", "marshaler-wrapped-reserr", "marshaler-nil-reserr")
		add("resource", "valid", "invalid", "query", "escapes")
		add("methodnotfound")
		add("invalidparams", "", "bad params")
		common()
	case "new":
		add("new", "valid", "invalid")
		add("methodnotfound")
		add("invalidparams", "")
		common()
	}
	return out
}

func otherAlphabet(rtype string) []act {
	out := []act{
		{Op: "timeout", K: "ok"}, {Op: "timeout", K: "neg"}, {Op: "timeout", K: "zero"}, {Op: "timeout", K: "max"}, {Op: "timeout", K: "max-1"}, {Op: "timeout", K: "submilli"}, {Op: "timeout", K: "odd"},
		{Op: "event", K: "change", V: "ok"}, {Op: "event", K: "change", V: "empty"}, {Op: "event", K: "change", V: "unmarshalable"},
		{Op: "event", K: "add", V: "ok"}, {Op: "event", K: "add", V: "neg"},
		{Op: "event", K: "remove", V: "ok"},
		{Op: "event", K: "create", V: "ok"}, {Op: "event", K: "delete"}, {Op: "event", K: "reaccess"}, {Op: "event", K: "reset"},
		{Op: "event", K: "custom", V: "ok"}, {Op: "event", K: "custom", V: "reserved-change"}, {Op: "event", K: "custom", V: "reserved-query"}, {Op: "event", K: "custom", V: "reserved-query-payload"}, {Op: "event", K: "custom", V: "reserved-delete"},
		{Op: "event", K: "custom", V: "reserved-add"}, {Op: "event", K: "custom", V: "reserved-remove"}, {Op: "event", K: "custom", V: "reserved-patch"}, {Op: "event", K: "custom", V: "reserved-reaccess"}, {Op: "event", K: "custom", V: "reserved-unsubscribe"},
		{Op: "event", K: "custom", V: "invalid-dot"}, {Op: "event", K: "custom", V: "unmarshalable"},
		{Op: "panic", K: "reserr"}, {Op: "panic", K: "err"}, {Op: "panic", K: "str"}, {Op: "panic", K: "int"}, {Op: "panic", K: "runtime"},
		{Op: "panic", K: "reserr-baddata"}, {Op: "panic", K: "nil-typed-err"}, {Op: "panic", K: "reserr-nil"}, {Op: "panic", K: "untyped-nil"},
	}
	if rtype != "get" {
		out = append(out, act{Op: "value", K: "value"}, act{Op: "value", K: "require"})
	}
	if rtype == "access" || rtype == "call" || rtype == "auth" {
		out = append(out, act{Op: "meta", K: "status"}, act{Op: "meta", K: "header"})
	}
	if rtype == "auth" {
		out = append(out, act{Op: "token", K: "ok"}, act{Op: "token", K: "unmarshalable"})
	}
	return out
}

func getScriptAlphabet() []script {
	return []script{
		{{Op: "reply", K: "model", V: "map"}},
		{{Op: "reply", K: "notfound"}},
		{{Op: "reply", K: "error", V: "plain"}},
		{{Op: "panic", K: "str"}},
		{{Op: "panic", K: "reserr"}},
		{},
		{{Op: "reply", K: "model", V: "map"}, {Op: "reply", K: "model", V: "map"}},
		{{Op: "reply", K: "model", V: "chan"}},
		// what a get handler may do when it is run for Value(): ask for the value itself
		// (documented to panic), extend a timeout, answer with a query model, an invalid-query
		// or a nil *res.Error, panic with nil values
		{{Op: "value"}},
		{{Op: "value", K: "require"}},
		{{Op: "timeout"}, {Op: "reply", K: "model", V: "map"}},
		{{Op: "reply", K: "invalidquery", V: ""}},
		{{Op: "reply", K: "invalidquery", V: "bad query"}},
		{{Op: "reply", K: "error", V: "reserr-nil"}},
		{{Op: "reply", K: "querymodel", V: "map"}},
		{{Op: "panic", K: "reserr-nil"}},
		{{Op: "panic", K: "untyped-nil"}},
		{{Op: "panic", K: "int"}},
		{{Op: "reply", K: "error", V: "reserr-nomsg"}},
	}
}

func randScript(r *rand.Rand, rtype string, htype res.ResourceType, maxLen int) script {
	ra := replyAlphabet(rtype, htype)
	oa := otherAlphabet(rtype)
	n := r.Intn(maxLen + 1)
	var sc script
	for i := 0; i < n; i++ {
		if r.Intn(5) < 2 {
			sc = append(sc, ra[r.Intn(len(ra))])
		} else {
			sc = append(sc, oa[r.Intn(len(oa))])
		}
	}
	return sc
}

func enumScripts(rtype string, htype res.ResourceType, maxLen int) []script {
	all := append(append([]act{}, replyAlphabet(rtype, htype)...), otherAlphabet(rtype)...)
	out := []script{{}}
	var rec func(cur script)
	rec = func(cur script) {
		if len(cur) > 0 {
			out = append(out, append(script(nil), cur...))
		}
		if len(cur) == maxLen {
			return
		}
		for _, a := range all {
			rec(append(cur, a))
		}
	}
	rec(nil)
	return out
}

func fmtScript(s script) string { return fmt.Sprint(s.String()) }
