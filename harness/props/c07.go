package props

import (
	"encoding/json"
	"fmt"
	"github.com/jirenius/go-res/store"
	"github.com/jirenius/go-res/store/mockstore"
	"net/url"
	"strconv"
	"strings"
	"time"

	res "github.com/jirenius/go-res"

	"verif/harness/internal/core"
	"verif/harness/internal/ref"
	"verif/harness/internal/sched"
	"verif/harness/internal/vconn"
)

// C07 - Everything the service publishes is protocol-conformant.
//
// The independent validator (internal/ref/protocol.go) is attached to every
// message published by the C04 workloads (all request types, behaviour
// scripts, payloads) and to an own generator of service-level events and
// hostile values.

func init() {
	core.Register(&core.Prop{
		ID:    "C07",
		Level: "exploration",
		Rule: "a case is one message published by the real Service on the recording connection (subject + payload) checked by an independent validator written from the protocol document; workloads: all C04 request/behaviour-script workloads (every script of <=2 actions, random scripts, concurrent load) plus a generator of service-level events (Reset, TokenEvent, TokenEventWithID, TokenReset, resource events with hostile values, every connection-id character class, query events and query responses); " +
			"distinct non-trivial = distinct (message kind, payload) pairs other than the static probe replies",
		Assumptions: []string{
			"resource names and connection ids are protocol-conformant (as the quantifier says); token events on requests without cid are skipped",
			"value-level rules the library does not control (model must be an object, collection values) are not asserted",
			"create/delete/reaccess events carry no payload (RES service protocol v1.2)",
		},
		Batches: func(seed int64, tier core.Tier) []core.Batch {
			var bs []core.Batch
			for _, rt := range []string{"access", "get", "call", "auth", "new"} {
				bs = append(bs, core.Batch{Name: "scripts-" + rt, TimeoutS: 600,
					Params: core.Params(c04Params{Kind: "enum", RType: rt, Shard: 0, Shards: 1})})
			}
			for s := 0; s < tierPick(tier, 4, 16); s++ {
				bs = append(bs, core.Batch{Name: fmt.Sprintf("random-%d", s), TimeoutS: 600,
					Params: core.Params(c04Params{Kind: "random", Shard: s, N: tierPick(tier, 5000, 40000)})})
			}
			bs = append(bs, core.Batch{Name: "concurrent", TimeoutS: 600, Params: core.Params(c04Params{Kind: "concurrent", Workers: 8, N: tierPick(tier, 4000, 20000)})})
			for s := 0; s < tierPick(tier, 2, 8); s++ {
				bs = append(bs, core.Batch{Name: fmt.Sprintf("service-events-%d", s), TimeoutS: 600,
					Params: core.Params(c04Params{Kind: "service-events", Shard: s, N: tierPick(tier, 4000, 30000)})})
			}
			for i := 0; i < 4; i++ {
				bs = append(bs, core.Batch{Name: fmt.Sprintf("store-handler-%d", i), TimeoutS: 600,
					Params: core.Params(c04Params{Kind: "store-handler", Shard: i, N: tierPick(tier, 300, 3000)})})
			}
			return bs
		},
		MinEvaluations: func(t core.Tier) int64 { return 3000 },
		Run: func(c *core.Ctx, b core.Batch) {
			var p c04Params
			json.Unmarshal(b.Params, &p)
			defer checkPredefinedErrors(c, "C07")
			if p.Kind == "service-events" {
				c07ServiceEvents(c, p)
				return
			}
			if p.Kind == "store-handler" {
				c07StoreHandler(c, p)
				return
			}
			c04Run(c, b)
		},
		Post: func(a *core.Aggregate) {
			// every documented message form must have been observed
			for _, k := range []string{"response", "pre-response", "event:change", "event:add", "event:remove", "event:create", "event:delete", "event:reaccess", "event:custom", "event:query", "system.reset", "system.tokenReset", "conn.token"} {
				if _, ok := a.Sets["message_kinds"][k]; !ok {
					a.Inconclusive = append(a.Inconclusive, "message kind never observed: "+k)
					a.Counters["inconclusive"]++
				}
			}
		},
	})
}

// c07StoreHandler: events that store.Handler builds itself from stored values (all
// valid RES values: primitives, references, data values wrapping objects and arrays)
// must have the documented shape, including RES values in change and add events.
func c07StoreHandler(c *core.Ctx, p c04Params) {
	rigInstall()
	defer closeSharedBadger()
	cfg := []c10Cfg{{Type: "model", Trans: "none", Store: "mock"}, {Type: "collection", Trans: "id", Store: "mock"}, {Type: "model", Trans: "id-proj", Default: true, Store: "mock"}, {Type: "collection", Trans: "none", Store: "badger"}}[p.Shard%4]
	env, err := newC10Env(c, cfg)
	if err != nil {
		c.Inconclusive("env: " + err.Error())
		return
	}
	defer env.rig.stop()
	r := c.Rand
	pos := 0
	for i := 0; i < p.N; i++ {
		before := c10RandValue(r, cfg, true)
		after := c10RandValue(r, cfg, true)
		if r.Intn(3) == 0 {
			after = c10Perturb(r, before, cfg)
		}
		// the coherence oracle is C10's business here: only the messages are judged
		c.SuppressFunctional = true
		ok := env.oneCase(fmt.Sprintf("x%d", r.Intn(3)), before, after, "c07")
		c.SuppressFunctional = false
		if !ok {
			return
		}
		log := env.rig.C.Since(pos)
		pos += len(log)
		for _, m := range log {
			kind, probs := ref.ValidateMessage(m.Subject, m.Data, ref.MsgCtx{Inboxes: func(s string) (bool, bool) { return false, strings.HasPrefix(s, "_INBOX.") }})
			c.SetAdd("message_kinds", kind)
			if strings.HasPrefix(m.Subject, "event.") {
				ev := m.Subject[strings.LastIndexByte(m.Subject, '.')+1:]
				probs = append(probs, ref.ValidateEventValues(ev, m.Data)...)
				c.Obs("store_handler_events_validated", 1)
			}
			if strings.HasPrefix(m.Subject, "_INBOX.") {
				// every request of this workload is a get: the result the handler builds from the
				// stored (or default) value has the shape of its resource type
				probs = append(probs, ref.ValidateGetResult(m.Data, cfg.Type)...)
				c.Obs("store_handler_get_results_validated", 1)
			}
			for _, pr := range probs {
				c.Violation("C07/store-handler:"+kind+":"+c07ProbClass(pr), fmt.Sprintf("store.Handler published %s %s: %s", m.Subject, short(m.Payload, 200), pr),
					map[string]interface{}{"config": cfg, "subject": m.Subject, "payload": m.Payload, "before": before, "after": after})
			}
		}
		if canon(before) != canon(after) {
			c.Distinct(fmt.Sprintf("store/%d/%s>%s", p.Shard, canon(before), canon(after)))
		}
	}
	c.Sample(map[string]interface{}{"scenario": "events generated by store.Handler", "config": cfg, "mutations": p.N})
	if p.Shard == 0 {
		c07QueryHandlerPatterns(c)
		c07QueryHandlerNilResults(c)
	}
}

// c07QueryHandlerNilResults: a query store written the usual way (var ids []string, append the
// hits) hands a nil slice to the handler when nothing matches. With an id-to-reference
// transformer the library builds the served value from it: that is a collection, a JSON
// array, on ordinary and on query resources. (Without transformer the store's value is
// served as it is; the requests are made, their results are the store's business.)
func c07QueryHandlerNilResults(c *core.Ctx) {
	for _, withTrans := range []bool{false, true} {
		for _, queryRes := range []bool{false, true} {
			qs := mockstore.NewQueryStore(func(q url.Values) (interface{}, error) {
				var ids []string
				if q.Get("hits") != "0" {
					ids = append(ids, "a", "b")
				}
				return ids, nil
			})
			qh := store.QueryHandler{QueryStore: qs}
			if withTrans {
				qh.Transformer = store.IDToRIDCollectionTransformer(func(id string) string { return "svc.item." + id })
			}
			if queryRes {
				qh.QueryRequestHandler = func(rname string, pp map[string]string, q url.Values) (url.Values, string, error) {
					return url.Values{"hits": {q.Get("hits")}}, "hits=" + q.Get("hits"), nil
				}
			} else {
				qh.RequestHandler = func(rname string, pp map[string]string) (url.Values, error) {
					return url.Values{"hits": {rname[len(rname)-1:]}}, nil
				}
			}
			// (patterns without placeholders: the handler has no AffectedResources callback)
			rg := newRig("svc", func(s *res.Service) {
				s.Handle("found.2", res.Collection, qh)
				s.Handle("found.0", res.Collection, qh)
			})
			if err := rg.start(); err != nil {
				c.Inconclusive("start: " + err.Error())
				return
			}
			for _, hits := range []string{"2", "0"} {
				var pl []byte
				if queryRes {
					pl, _ = json.Marshal(map[string]string{"query": "hits=" + hits})
				}
				start := rg.C.Len()
				inbox, done, n := rg.send("get.svc.found."+hits, pl)
				c.Eval(1)
				c.Obs("query_handler_gets", 1)
				if n != 1 || !waitCh(done, 10*time.Second) {
					c.Inconclusive("get not processed")
					continue
				}
				resp, _ := replies(rg.C.Since(start), inbox)
				if len(resp) != 1 {
					continue
				}
				if !withTrans {
					// without transformer the store's own value is served as it is: a nil slice is
					// the query store's doing (it is served as null), not a value the library built
					continue
				}
				for _, pr := range ref.ValidateGetResult(resp[0].Data, "collection") {
					c.Violation("C07/query-handler:get-result:"+c07ProbClass(pr), fmt.Sprintf("store.QueryHandler (id-to-reference transformer: %v, query resource: %v) over a query store that returns a nil slice for no hits answered with %s: %s", withTrans, queryRes, resp[0].Payload, pr),
						map[string]interface{}{"transformer": withTrans, "query_resource": queryRes, "hits": hits, "response": resp[0].Payload})
				}
				c.Distinct(fmt.Sprintf("nil-results/%v/%v/%s", withTrans, queryRes, hits))
			}
			rg.stop()
		}
	}
}

// c07QueryHandlerPatterns: a store.QueryHandler without AffectedResources callback
// publishes its events on its own pattern, so it may only be registered on a pattern
// without wildcards. Whatever registration accepts, every subject published after a
// query store change must be a valid event subject.
func c07QueryHandlerPatterns(c *core.Ctx) {
	for _, name := range []string{"", "svc"} {
		for _, pattern := range []string{"*.items", ">", "$t.items", "items.$id", "items.*", "items", "a.>"} {
			env, err := newIdxEnv(false, "")
			if err != nil {
				c.Inconclusive("open: " + err.Error())
				return
			}
			c.Eval(1)
			trans := store.IDToRIDCollectionTransformer(func(id string) string { return "x.item." + id })
			rg := newRig(name, nil)
			pn := try(func() {
				qh := store.QueryHandler{QueryStore: env.qs, Transformer: trans,
					RequestHandler: func(rname string, pp map[string]string) (url.Values, error) {
						return idxQuery{Index: "k", Prefix: "", Limit: -1}.values(), nil
					}}
				if len(pattern)%2 == 1 || strings.ContainsAny(pattern, "*>$") {
					// a query resource: its changes are announced with query events on the resource itself
					qh = store.QueryHandler{QueryStore: env.qs, Transformer: trans,
						QueryRequestHandler: func(rname string, pp map[string]string, q url.Values) (url.Values, string, error) {
							lim, err := strconv.Atoi(q.Get("limit"))
							if err != nil {
								lim = -1
							}
							return idxQuery{Index: "k", Prefix: q.Get("prefix"), Limit: lim}.values(), fmt.Sprintf("prefix=%s&limit=%d", q.Get("prefix"), lim), nil
						}}
					if name == "" {
						qh.Transformer = nil // the store's ids served as they are
					}
				}
				rg.S.Handle(pattern, res.Collection, qh)
			})
			desc := map[string]interface{}{"service_name": name, "pattern": pattern, "registration_refused": pn != nil}
			if pn == nil {
				if err := rg.start(); err == nil {
					r := newRand(int64(len(pattern)))
					for k := 0; k < 6; k++ {
						env.mutate(r, []string{"a", "b"}, k)
					}
					env.qs.Flush()
					time.Sleep(5 * time.Millisecond)
					// get requests, among them windows that are empty (limit 0, a prefix nothing has):
					// the served collection is an array in every case
					rname := mergeDots(name, c17Instantiate(newRand(7), pattern, false))
					getInboxes := map[string]bool{}
					for _, q := range []string{"", "prefix=&limit=1", "prefix=&limit=0", "prefix=zzz", "prefix=zzz&limit=0"} {
						pl, _ := json.Marshal(map[string]string{"query": q})
						start := rg.C.Len()
						inbox, done, n := rg.send("get."+rname, pl)
						getInboxes[inbox] = true
						if n != 1 || !waitCh(done, 10*time.Second) {
							continue
						}
						c.Obs("query_handler_gets", 1)
						if resp, _ := replies(rg.C.Since(start), inbox); len(resp) == 1 {
							for _, pr := range ref.ValidateGetResult(resp[0].Data, "collection") {
								d := copyDesc(desc)
								d["subject"], d["query"], d["response"] = "get."+rname, q, resp[0].Payload
								c.Violation("C07/query-handler:get-result:"+c07ProbClass(pr), fmt.Sprintf("store.QueryHandler on %q answered get.%s (query %q) with %s: %s", pattern, rname, q, resp[0].Payload, pr), d)
							}
						}
					}
					for _, m := range rg.C.Log() {
						kind, probs := ref.ValidateMessage(m.Subject, m.Data, ref.MsgCtx{Inboxes: func(s string) (bool, bool) { return false, getInboxes[s] }})
						c.Obs("query_handler_messages_validated", 1)
						for _, pr := range probs {
							d := copyDesc(desc)
							d["subject"], d["payload"] = m.Subject, m.Payload
							c.Violation("C07/query-handler:"+kind+":"+c07ProbClass(pr), fmt.Sprintf("store.QueryHandler registered on %q (service %q) published %s: %s", pattern, name, m.Subject, pr), d)
						}
					}
					rg.stop()
				}
			}
			c.Distinct("qh/" + name + "/" + pattern)
			env.close()
		}
	}
}

// c07ProbClass turns a validator message into a signature part without payload details.
func c07ProbClass(pr string) string {
	if i := strings.Index(pr, ":"); i > 0 {
		pr = pr[:i]
	}
	if i := strings.IndexByte(pr, '"'); i > 0 {
		if j := strings.LastIndexByte(pr, '"'); j > i {
			pr = pr[:i] + "<key>" + pr[j+1:]
		}
	}
	return short(pr, 60)
}

// c07ServiceEvents drives service-level publishing APIs with hostile values.
func c07ServiceEvents(c *core.Ctx, p c04Params) {
	r := c.Rand
	inboxes := map[string]bool{}
	rg := newRig("svc", func(s *res.Service) {
		s.SetQueryEventDuration(30 * 1e6)
		s.Handle("m.$id", res.GetModel(func(r res.ModelRequest) { r.Model(map[string]int{"a": 1}) }))
		s.Handle("c.$id", res.GetCollection(func(r res.CollectionRequest) { r.Collection([]int{1}) }))
		s.Handle("deep.$a.$b.>", res.GetResource(func(r res.GetRequest) { r.NotFound() }))
	})
	if err := rg.start(); err != nil {
		c.Inconclusive("service failed to start: " + err.Error())
		return
	}
	defer rg.stop()
	cidChars := "abcxyzABC019-_:;,!#%&()[]{}|~^`'\"@=+/\\$"
	badCIDs := []string{"a b", " ", "a.b", "a*", ">", "a?b", "", "a\tb", "a\x7f", "é", "a\nb"}
	randCID := func() string {
		n := 1 + r.Intn(12)
		b := make([]byte, n)
		for i := range b {
			b[i] = cidChars[r.Intn(len(cidChars))]
		}
		return string(b)
	}
	values := append(append([]string{}, marshalableKinds...), unmarshalableList...)
	pos := 0
	flush := func(what interface{}) {
		log := rg.C.Since(pos)
		pos += len(log)
		validateMsgs(c, log, func(s string) (bool, bool) { h, ok := inboxes[s]; return h, ok }, what)
		for _, m := range log {
			c.Distinct(m.Subject + "|" + m.Payload)
		}
	}
	for i := 0; i < p.N; i++ {
		c.Eval(1)
		vk := values[r.Intn(len(values))]
		var what string
		switch k := r.Intn(14); k {
		case 0:
			cid := randCID()
			if r.Intn(4) == 0 {
				cid = badCIDs[r.Intn(len(badCIDs))]
				var pn interface{}
				if r.Intn(2) == 0 {
					pn = try(func() { rg.S.TokenEvent(cid, nil) })
				} else {
					pn = try(func() { rg.S.TokenEventWithID(cid, "tid", nil) })
				}
				what = fmt.Sprintf("TokenEvent(%q) with a non-conformant connection id", cid)
				if pn == nil {
					c.Violation("C07/tokenevent-accepts-invalid-cid", fmt.Sprintf("TokenEvent(%q) did not refuse a connection id that is not a valid subject token", cid), what)
				}
				break
			}
			what = "TokenEvent(" + cid + "," + vk + ")"
			s := rg.S
			if pn := try(func() { s.TokenEvent(cid, scriptValue(vk)) }); pn != nil && ref.ValidNamePart(cid) {
				c.Violation("C07/tokenevent-panics", fmt.Sprintf("TokenEvent(%q) panicked on a valid connection id: %v", cid, pn), what)
			}
		case 1:
			cid := randCID()
			what = "TokenEventWithID(" + cid + ")"
			try(func() { rg.S.TokenEventWithID(cid, []string{"", "tid1", "t\"x"}[r.Intn(3)], scriptValue(vk)) })
		case 2:
			// also subjects a token reset cannot be sent on (empty, wildcards, empty tokens, a space): refused
			subj := []string{"auth.svc.m.1.relogin", "svc.x", "a", "", "auth.svc.*", "auth.>", "auth..x", "auth.svc x", ".", "auth.svc."}[r.Intn(10)]
			tids := [][]string{{"a"}, {"a", "b\"c"}, {}, nil, {""}}[r.Intn(5)]
			what = fmt.Sprintf("TokenReset(%s,%v)", subj, tids)
			try(func() { rg.S.TokenReset(subj, tids...) })
		case 3:
			rs := [][]string{nil, {}, {"svc.m.*"}, {"svc.>", "svc.c.1"}}[r.Intn(4)]
			as := [][]string{nil, {}, {"svc.>"}}[r.Intn(3)]
			what = fmt.Sprintf("Reset(%v,%v)", rs, as)
			rg.S.Reset(rs, as)
		case 4:
			what = "ResetAll"
			rg.S.ResetAll()
		default:
			// resource events from a With callback (panics recovered by the harness)
			rid := []string{"svc.m.1", "svc.c.1", "svc.deep.x.y.z.w", "svc.m.a-b_c", "svc.m.1?q=1"}[r.Intn(5)]
			evs := []act{
				{Op: "event", K: "change", V: "ok"}, {Op: "event", K: "change", V: "delete"}, {Op: "event", K: "change", V: "unmarshalable"}, {Op: "event", K: "change", V: "empty"},
				{Op: "event", K: "add", V: "ok"}, {Op: "event", K: "add", V: "unmarshalable"}, {Op: "event", K: "remove", V: "ok"},
				{Op: "event", K: "create", V: "ok"}, {Op: "event", K: "create", V: "unmarshalable"}, {Op: "event", K: "delete"}, {Op: "event", K: "reaccess"}, {Op: "event", K: "reset"},
				{Op: "event", K: "custom", V: "ok"}, {Op: "event", K: "custom", V: "nilpayload"}, {Op: "event", K: "custom", V: "unmarshalable"}, {Op: "event", K: "query"},
				{Op: "event", K: "custom", V: "invalid-space"}, {Op: "event", K: "custom", V: "invalid-wild"}, {Op: "event", K: "custom", V: "invalid-dot"}, {Op: "event", K: "custom", V: "invalid-empty"},
			}
			a := evs[r.Intn(len(evs))]
			what = rid + " " + script{a}.String()
			done := make(chan struct{})
			err := rg.S.With(rid, func(rs res.Resource) {
				defer close(done)
				try(func() { scriptEvent(rs, a) })
			})
			if err != nil {
				c.Violation("C07/with-error", "With failed for a registered resource: "+err.Error(), what)
				continue
			}
			if !waitCh(done, 10e9) {
				c.Inconclusive("With callback did not run")
				return
			}
			if a.K == "query" {
				// answer the query event with a query request and validate the response
				log := rg.C.Since(pos)
				for _, m := range log {
					if strings.HasSuffix(m.Subject, ".query") && strings.HasPrefix(m.Subject, "event.") {
						var qe struct {
							Subject string `json:"subject"`
						}
						json.Unmarshal(m.Data, &qe)
						inbox := newInbox()
						inboxes[inbox] = false
						qd := make(chan struct{})
						qdoneMap.Store(inbox, qd)
						pl := []string{`{"query":"a=1"}`, `{}`, `{"query":`, ``}[r.Intn(4)]
						if rg.C.Deliver(qe.Subject, inbox, []byte(pl)) == 1 {
							waitCh(qd, 5e9)
						}
					}
				}
			}
		}
		flush(what)
		if i == 3 {
			c.Sample(map[string]interface{}{"call": what})
		}
	}
	for k, v := range sched.Counts() {
		c.Obs("hook:"+k, v)
	}
	_ = vconn.New
}
