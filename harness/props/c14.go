package props

import (
	"fmt"
	"math/rand"
	"strings"
	"sync"

	"github.com/jirenius/go-res/store"

	"verif/harness/internal/core"
	"verif/harness/internal/mon"
)

// C14 - Query subscribers are always told when their result may have changed.
// Store level: OnQueryChange log versus the mutation log, Events(q) versus
// reference before/after results. Service level: see c14svc.go.

type qcRec struct {
	ID            string
	Before, After string // uids
	Seq           int64
	IndexOK       bool // the index already reflected the mutation inside the callback
	IndexNote     string
	EventsBad     []string
}

func init() {
	core.Register(&core.Prop{
		ID:    "C14",
		Level: "exploration",
		Rule: "store level: a case is one mutation of a real badgerstore QueryStore (2 indexes; creates, key-changing/key-keeping updates, nil keys, deletes): the OnQueryChange log is compared with the mutation log using independently computed keys (exactly one callback iff some index key changed, in mutation order per id), inside the callback the index must already show the new key and not the old one, and for every query of a battery QueryChange.Events(q) is compared with reference before/after results (result changed => reported affected; neither old nor new key matches => unaffected); " +
			"events level: store.QueryHandler (collection and model typed, ordinary and query resources, id-to-reference transformers) over the shipped mockstore.QueryStore whose QueryChange.Events describes each change of a result as add/remove events or asks for a reset: the gateway model applies the published events / query responses and must hold what a fresh get returns, which must be the transformed reference result; " +
			"service level: store.QueryHandler over the same QueryStore (ordinary and query resources, with/without path params and AffectedResources) serving a gateway model that holds results, answers query events with query requests, applies events / replaces results and compares with a fresh get after every Flush. distinct non-trivial = distinct (history, mutation) pairs that changed an index key, plus distinct (history, query) pairs whose result changed",
		Assumptions: []string{
			"between 'result changed' and 'neither key matches' the reset flag may be either (the statement leaves it open)",
			"Events is evaluated inside the callback, i.e. at the point a subscriber would call it",
		},
		Parallel: 8,
		Batches: func(seed int64, tier core.Tier) []core.Batch {
			var bs []core.Batch
			i := 0
			for _, typed := range []bool{false, true} {
				for _, pfx := range []string{"", "q"} {
					for s := 0; s < tierPick(tier, 1, 6); s++ {
						bs = append(bs, core.Batch{Name: fmt.Sprintf("store-%d-%d", i, s), TimeoutS: 600,
							Params: core.Params(idxParams{Kind: "history", Typed: typed, Prefix: pfx, Histories: tierPick(tier, 30, 250), Shard: s})})
					}
					i++
				}
			}
			for s := 0; s < tierPick(tier, 4, 16); s++ {
				bs = append(bs, core.Batch{Name: fmt.Sprintf("service-%d", s), TimeoutS: 600,
					Params: core.Params(idxParams{Kind: "service", Typed: s%2 == 0, Prefix: []string{"", "sv"}[s/2%2], Histories: tierPick(tier, 15, 120), Shard: s})})
			}
			for s := 0; s < tierPick(tier, 2, 8); s++ {
				bs = append(bs, core.Batch{Name: fmt.Sprintf("events-store-%d", s), TimeoutS: 600,
					Params: core.Params(idxParams{Kind: "events", Histories: tierPick(tier, 10, 80), Shard: s})})
			}
			return bs
		},
		MinEvaluations: func(t core.Tier) int64 { return 2000 },
		Run: func(c *core.Ctx, b core.Batch) {
			if strings.HasPrefix(b.Name, "events-store-") {
				c14EventsRun(c, b)
				return
			}
			if strings.HasPrefix(b.Name, "service-") {
				c14ServiceRun(c, b)
				return
			}
			idxRun(c, b, "C14")
		},
	})
}

func c14History(c *core.Ctx, env *idxEnv, r *rand.Rand, h int) {
	ids := idxIDs(h)
	var mu sync.Mutex
	var recs []qcRec
	// the battery of queries used for Events(); fixed per history
	bat := idxBattery(r, 6)
	if len(bat) > 60 {
		r.Shuffle(len(bat), func(i, j int) { bat[i], bat[j] = bat[j], bat[i] })
		bat = bat[:60]
	}
	var pendingBefore map[string]interface{} // model before the mutation being indexed (mutations are flushed one by one)
	multi := false                           // a multi-mutation transaction is being indexed: only the callback sequence is checked
	env.qs.OnQueryChange(func(qc store.QueryChange) {
		rec := qcRec{ID: qc.ID(), Before: valUID(qc.Before()), After: valUID(qc.After()), Seq: mon.Seq(), IndexOK: true}
		if multi {
			mu.Lock()
			recs = append(recs, rec)
			mu.Unlock()
			return
		}
		// after the index reflects the mutation: the new key finds the id, the old key does not
		for _, idx := range []struct{ name, field string }{{"k", "k"}, {"x2", "k2"}} {
			nk, nok := "", false
			if qc.After() != nil {
				nk, nok = idxKeyOf(qc.After(), idx.field)
			}
			ok2, okok := "", false
			if qc.Before() != nil {
				ok2, okok = idxKeyOf(qc.Before(), idx.field)
			}
			if nok {
				res, err := env.qs.Query(idxQuery{Index: idx.name, Prefix: nk, Limit: -1}.values())
				if l, _ := res.([]string); err != nil || !contains(l, qc.ID()) {
					rec.IndexOK = false
					rec.IndexNote = fmt.Sprintf("index %s does not yet list %s under its new key %q", idx.name, qc.ID(), nk)
				}
			}
			if okok && (!nok || nk != ok2) {
				res, _ := env.qs.Query(idxQuery{Index: idx.name, Prefix: ok2, Limit: -1}.values())
				l, _ := res.([]string)
				// the id may legitimately still appear if the new key has the old key as prefix
				if contains(l, qc.ID()) && !(nok && strings.HasPrefix(nk, ok2)) {
					rec.IndexOK = false
					rec.IndexNote = fmt.Sprintf("index %s still lists %s under its old key %q", idx.name, qc.ID(), ok2)
				}
			}
		}
		// Events(q) versus reference before/after
		after := env.modelAfterLocked()
		for _, q := range bat {
			_, reset, err := qc.Events(q.values())
			if err != nil {
				rec.EventsBad = append(rec.EventsBad, fmt.Sprintf("Events(%+v) failed: %v", q, err))
				continue
			}
			rb := refQuery(pendingBefore, q)
			ra := refQuery(after, q)
			changed := strings.Join(rb, "\x1f") != strings.Join(ra, "\x1f")
			field := "k"
			if q.Index == "x2" {
				field = "k2"
			}
			match := func(v interface{}) bool {
				if v == nil {
					return false
				}
				k, ok := idxKeyOf(v, field)
				if !ok || !strings.HasPrefix(k, q.Prefix) {
					return false
				}
				return q.Filter == "" || idxFilters[q.Filter]([]byte(k))
			}
			neither := !match(qc.Before()) && !match(qc.After())
			if changed && !reset {
				rec.EventsBad = append(rec.EventsBad, fmt.Sprintf("missed: query %+v result changed %v -> %v but Events reports it unaffected", q, rb, ra))
			}
			if neither && reset {
				rec.EventsBad = append(rec.EventsBad, fmt.Sprintf("spurious: neither old nor new key matches query %+v but Events reports it affected", q))
			}
		}
		mu.Lock()
		recs = append(recs, rec)
		mu.Unlock()
	})
	n := 0
	var hist []idxMut
	if h%3 == 0 {
		// Init on a store that already holds one of the seed ids (created before the first
		// Init): the existing value is kept, so only the seeds really created are announced
		own := mkValue2(env.typed, "own0", "ab", "a")
		wt := env.st.Write("seedX")
		multi = true
		env.setModel("seedX", own)
		if err := wt.Create(own); err != nil {
			env.setModel("seedX", nil)
		}
		wt.Close()
		env.qs.Flush()
		mu.Lock()
		nBefore := len(recs)
		mu.Unlock()
		multi = true
		sy := mkValue2(env.typed, "seedY.u", "b", "")
		err := env.st.Init(func(add func(id string, v interface{})) error {
			add("seedX", mkValue2(env.typed, "seedX.u", "zz", "z"))
			add("seedY", sy)
			return nil
		})
		env.qs.Flush()
		multi = false
		if err == nil {
			env.setModel("seedY", sy)
		}
		c.Eval(1)
		mu.Lock()
		var got []string
		for _, g := range recs[nBefore:] {
			got = append(got, fmt.Sprintf("%s:%s>%s", g.ID, g.Before, g.After))
		}
		mu.Unlock()
		if want := "seedY:>seedY.u"; err != nil || strings.Join(got, " ") != want {
			c.Violation("C14/callback-sequence:init", fmt.Sprintf("Init with seeds seedX (already stored) and seedY (err=%v) ran query-change callbacks %v, want [%s]", err, got, want),
				map[string]interface{}{"got": got, "typed": env.typed, "prefix": env.prefix})
		}
		c.Distinct(fmt.Sprintf("%s/h%d/init", c.Batch.Name, h))
		env.checkQueries(c, "C14", nil, []idxQuery{{Index: "k", Prefix: "", Limit: -1}, {Index: "k", Prefix: "zz", Limit: -1}, {Index: "x2", Prefix: "", Limit: -1}}, "after-init")
	}
	for step := 0; step < 40+r.Intn(60); step++ {
		n++
		// snapshot of the model before the mutation
		pendingBefore = map[string]interface{}{}
		for k, v := range env.model {
			pendingBefore[k] = v
		}
		mu.Lock()
		nBefore := len(recs)
		mu.Unlock()
		if r.Intn(5) == 0 {
			// one write transaction: read, then 2-3 mutations of the same id
			multi = true
			ms, bs, as := env.mutateTxn(r, ids, n)
			env.qs.Flush()
			multi = false
			hist = append(hist, ms...)
			var want []string
			for i, m := range ms {
				c.Eval(1)
				if m.Err == "" && c14KeyChanged(bs[i], as[i]) {
					want = append(want, fmt.Sprintf("%s:%s>%s", m.ID, valUID(bs[i]), valUID(as[i])))
				}
			}
			mu.Lock()
			var got []string
			for _, g := range recs[nBefore:] {
				got = append(got, fmt.Sprintf("%s:%s>%s", g.ID, g.Before, g.After))
			}
			mu.Unlock()
			if strings.Join(got, " ") != strings.Join(want, " ") {
				c.Violation("C14/callback-sequence:multi-mutation-transaction", fmt.Sprintf("a write transaction with mutations %+v ran query-change callbacks %v, want %v (id:before>after of every key-changing mutation, in order)", ms, got, want),
					map[string]interface{}{"mutations": ms, "got": got, "want": want, "typed": env.typed, "prefix": env.prefix})
			}
			if len(want) > 0 {
				c.Distinct(fmt.Sprintf("%s/h%d/multi%d", c.Batch.Name, h, n))
			}
			continue
		}
		var m idxMut
		var before, after interface{}
		if cid := ids[r.Intn(len(ids))]; step%9 == 4 && env.model[cid] != nil {
			// an Update that moves the value to other keys but fails at commit (another
			// transaction rewrote the value, keys unchanged, in between): nothing happened as far
			// as the indexes and the query subscribers are concerned
			cur := env.model[cid]
			k1, _ := valKey(cur, "k")
			k2, _ := valKey(cur, "k2")
			inner := mkValue2(env.typed, fmt.Sprintf("u%d.other", n), k1, k2)
			outer := mkValue2(env.typed, fmt.Sprintf("u%d.lost", n), "zfail", "zf")
			env.setModel(cid, inner)
			uerr, injected := env.updateWithFailingCommit(cid, inner, outer)
			m = idxMut{ID: cid, Op: "update-failing-at-commit", K: "zfail", K2: "zf"}
			if !injected || uerr == nil {
				// no conflict was produced: the outer update simply took place
				c.Obs("commit_conflicts_not_produced", 1)
				env.setModel(cid, outer)
				env.qs.Flush()
				hist = append(hist, m)
				continue
			}
			m.Err = uerr.Error()
			c.Obs("updates_failing_at_commit", 1)
			before, after = cur, cur
		} else {
			m, before, after = env.mutate(r, ids, n)
		}
		hist = append(hist, m)
		env.qs.Flush()
		c.Eval(1)
		mu.Lock()
		got := append([]qcRec(nil), recs[nBefore:]...)
		mu.Unlock()
		if m.Err != "" {
			if len(got) > 0 {
				c.Violation("C14/callback-on-failed-mutation", fmt.Sprintf("OnQueryChange ran for a failed mutation (%s of %s: %s)", m.Op, m.ID, m.Err), m)
			}
			if m.Op == "update-failing-at-commit" {
				env.checkQueries(c, "C14", hist, []idxQuery{{Index: "k", Prefix: "", Limit: -1}, {Index: "k", Prefix: "zfail", Limit: -1}, {Index: "x2", Prefix: "", Limit: -1}, {Index: "x2", Prefix: "zf", Limit: -1}}, fmt.Sprintf("h%d/after-failed-commit", h))
			}
			continue
		}
		keyChanged := false
		for _, f := range []string{"k", "k2"} {
			bk, bok := "", false
			if before != nil {
				bk, bok = idxKeyOf(before, f)
			}
			ak, aok := "", false
			if after != nil {
				ak, aok = idxKeyOf(after, f)
			}
			if bok != aok || bk != ak {
				keyChanged = true
			}
		}
		desc := map[string]interface{}{"mutation": m, "before": before, "after": after, "typed": env.typed, "prefix": env.prefix}
		switch {
		case keyChanged && len(got) != 1:
			c.Violation(fmt.Sprintf("C14/callback-count:%s:got=%d", m.Op, len(got)), fmt.Sprintf("%s of %s changed an index key but ran %d query-change callbacks", m.Op, m.ID, len(got)), desc)
		case !keyChanged && len(got) != 0:
			c.Violation("C14/callback-without-key-change:"+m.Op, fmt.Sprintf("%s of %s changed no index key but ran %d query-change callbacks", m.Op, m.ID, len(got)), desc)
		}
		if keyChanged {
			c.Distinct(fmt.Sprintf("%s/h%d/m%d", c.Batch.Name, h, n))
		}
		for _, g := range got {
			if g.ID != m.ID || g.Before != valUID(before) || g.After != valUID(after) {
				desc["callback"] = g
				c.Violation("C14/callback-args", fmt.Sprintf("query-change callback reports (id=%s before=%s after=%s) for mutation %s of %s (before=%s after=%s)", g.ID, g.Before, g.After, m.Op, m.ID, valUID(before), valUID(after)), desc)
			}
			if !g.IndexOK {
				c.Violation("C14/callback-before-index", "query-change callback ran before the index reflected the mutation: "+g.IndexNote, desc)
			}
			for _, bad := range g.EventsBad {
				kind := strings.SplitN(bad, ":", 2)[0]
				c.Violation("C14/events-"+kind+":"+m.Op, bad, desc)
			}
			c.Obs("events_calls", int64(len(bat)))
		}
	}
	if h == 1 {
		// index queue overflow: callbacks still come per id in mutation order, one per key-changing mutation
		mu.Lock()
		nBefore := len(recs)
		mu.Unlock()
		multi = true
		ms, bs, as, maxOut := env.burst(r, ids[:6], n, 900)
		env.qs.Flush()
		multi = false
		n += len(ms)
		c.Max("max_outstanding_index_updates", maxOut)
		c.Obs("burst_mutations", int64(len(ms)))
		want := map[string][]string{}
		for i, m := range ms {
			if m.Err == "" && c14KeyChanged(bs[i], as[i]) {
				want[m.ID] = append(want[m.ID], valUID(bs[i])+">"+valUID(as[i]))
			}
		}
		got := map[string][]string{}
		mu.Lock()
		for _, g := range recs[nBefore:] {
			got[g.ID] = append(got[g.ID], g.Before+">"+g.After)
		}
		mu.Unlock()
		c.Eval(int64(len(ms)))
		for _, id := range ids[:6] {
			if strings.Join(got[id], " ") != strings.Join(want[id], " ") {
				c.Violation("C14/callback-sequence:burst", fmt.Sprintf("burst of %d mutations (up to %d index updates outstanding): query-change callbacks for %s were %v, want %v (before>after of every key-changing mutation, in mutation order)", len(ms), maxOut, id, short(fmt.Sprint(got[id]), 300), short(fmt.Sprint(want[id]), 300)),
					map[string]interface{}{"id": id, "got": got[id], "want": want[id], "typed": env.typed, "prefix": env.prefix, "max_outstanding": maxOut})
			}
		}
		c.Distinct(fmt.Sprintf("%s/h%d/burst", c.Batch.Name, h))
	}
	c.Obs("mutations", int64(n))
	if h == 0 {
		c.Sample(map[string]interface{}{"typed": env.typed, "prefix": env.prefix, "history_head": hist[:minInt(6, len(hist))], "events_battery": bat[:4]})
	}
}

// c14KeyChanged tells whether some index key differs between two values.
func c14KeyChanged(before, after interface{}) bool {
	for _, f := range []string{"k", "k2"} {
		bk, bok := "", false
		if before != nil {
			bk, bok = idxKeyOf(before, f)
		}
		ak, aok := "", false
		if after != nil {
			ak, aok = idxKeyOf(after, f)
		}
		if bok != aok || bk != ak {
			return true
		}
	}
	return false
}

// modelAfterLocked returns the current model (the harness mutates the model
// before the index task runs, and flushes after each mutation).
func (e *idxEnv) modelAfterLocked() map[string]interface{} { return e.modelSnapshot() }

func contains(l []string, s string) bool {
	for _, x := range l {
		if x == s {
			return true
		}
	}
	return false
}
