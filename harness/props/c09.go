package props

import (
	"encoding/json"
	"errors"
	"fmt"
	"math/rand"
	"sort"
	"strings"
	"time"

	res "github.com/jirenius/go-res"
	nats "github.com/nats-io/nats.go"

	"verif/harness/internal/core"
	"verif/harness/internal/natsenv"
	"verif/harness/internal/ref"
	"verif/harness/internal/vconn"
)

// C09 - Subscriptions cover exactly the owned resources; reset announces them.

type c09Cfg struct {
	Name      string   `json:"name"`
	Resources []string `json:"resources"` // nil = default
	Access    []string `json:"access"`
	ResNil    bool     `json:"res_nil"`
	AccNil    bool     `json:"acc_nil"`
	Kinds     []string `json:"kinds"` // handler kinds registered: get call auth new access
	Queue     string   `json:"queue"` // "<default>" | "" | name
	// Layout says where the handlers sit: "all" (a, a.$id and > carry every
	// kind), "root" (only the service's root pattern "" has a handler),
	// "below-literal"/"below-param" (Kinds sit on a.b / $x.b, below a resource
	// whose own handler only has the Upper kinds).
	// Pre: "" | "reconfigured" (an explicit ownership is set first and then replaced by
	// this configuration's, nil meaning default again) | "restart" (the service first runs
	// with another explicit ownership, is stopped, reconfigured and served again) |
	// "restart-same" (configured once, then served, stopped and served again twice)
	Pre string `json:"pre,omitempty"`
	// Reapply: the same ownership (nil meaning default) is set again on the running
	// service before ResetAll, as a configuration reload would
	Reapply   bool     `json:"reapply,omitempty"`
	Layout    string   `json:"layout"`
	Upper     []string `json:"upper,omitempty"`
	reconnect bool
	listen    bool // started with ListenAndServe instead of Serve(conn)
}

type c09Params struct {
	Kind  string `json:"kind"` // vconn | nats
	Shard int    `json:"shard"`
	N     int    `json:"n"`
}

func init() {
	core.Register(&core.Prop{
		ID:    "C09",
		Level: "exploration",
		Rule: "a case is one service configuration (name in {'', svc, a.b}; ownership nil or explicit lists with overlapping, nested, duplicated and wildcarded entries; every subset of handler kinds {get, call, auth, new, access}; queue group default/off/custom) served on a connection that enforces NATS subject rules: the recorded subscribe calls are checked for valid subjects, for coverage of every concrete request subject of every owned pattern and answered request type, and for redundancy between subscriptions - both decided exactly by enumerating subjects over the tokens of the configuration plus one fresh token up to pattern length + 1 (one more token than the longest pattern decides matching for this wildcard language); the system.reset payloads on start and ResetAll are compared with the documented ownership rule; concrete subjects are delivered and must reach the service exactly once. On an embedded NATS server sampled requests must get exactly one response and a server restart must produce a correct reset on reconnect. " +
			"distinct non-trivial = distinct configurations with >= 2 owned patterns or wildcards",
		Assumptions: []string{
			"explicit ownership entries are valid patterns; configurations with nothing to serve are excluded",
			"reset payloads are compared as sets of patterns",
		},
		Batches: func(seed int64, tier core.Tier) []core.Batch {
			var bs []core.Batch
			for s := 0; s < tierPick(tier, 12, 32); s++ {
				bs = append(bs, core.Batch{Name: fmt.Sprintf("vconn-%d", s), TimeoutS: 600, Params: core.Params(c09Params{Kind: "vconn", Shard: s, N: tierPick(tier, 40, 400)})})
			}
			for s := 0; s < tierPick(tier, 2, 8); s++ {
				bs = append(bs, core.Batch{Name: fmt.Sprintf("nats-%d", s), TimeoutS: 600, Params: core.Params(c09Params{Kind: "nats", Shard: s, N: tierPick(tier, 6, 40)})})
			}
			return bs
		},
		MinEvaluations: func(t core.Tier) int64 { return 300 },
		Run:            c09Run,
	})
}

var c09PatternPool = []string{"svc", "svc.>", "svc.a", "svc.a.>", "svc.a.*", "svc.*", "svc.a.b", "svc.*.b", "other.>", "other.x", ">", "a.b", "a.b.>", "a.b.c", "a.>", "x"}

func c09RandCfg(r *rand.Rand, idx int) c09Cfg {
	cfg := c09Cfg{Name: []string{"", "svc", "a.b"}[idx%3]}
	// handler kinds: every subset over the run (31 non-empty subsets)
	mask := 1 + (idx/3)%31
	for i, k := range []string{"get", "call", "auth", "new", "access"} {
		if mask&(1<<uint(i)) != 0 {
			cfg.Kinds = append(cfg.Kinds, k)
		}
	}
	cfg.Layout = []string{"all", "root", "below-literal", "all", "below-param", "root", "all"}[(idx/3)%7]
	if cfg.Layout == "root" && cfg.Name == "" {
		cfg.Layout = "all" // a handler on the empty resource name is unreachable
	}
	if strings.HasPrefix(cfg.Layout, "below") {
		if k := r.Intn(6); k < 5 {
			cfg.Upper = []string{[]string{"get", "call", "auth", "new", "access"}[k]}
		}
	}
	pick := func() []string {
		n := r.Intn(4)
		var l []string
		for i := 0; i < n; i++ {
			p := c09PatternPool[r.Intn(len(c09PatternPool))]
			l = append(l, p)
			if r.Intn(5) == 0 {
				l = append(l, p) // duplicated entry
			}
		}
		return l
	}
	switch r.Intn(5) {
	case 4:
		// explicit resources, access left to the documented nil default
		cfg.AccNil = true
		cfg.Resources = pick()
		if cfg.Resources == nil {
			cfg.Resources = []string{}
		}
	case 0, 1:
		cfg.ResNil, cfg.AccNil = true, true
	case 2:
		cfg.Resources, cfg.Access = pick(), pick()
		if cfg.Resources == nil {
			cfg.Resources = []string{}
		}
		if cfg.Access == nil {
			cfg.Access = []string{}
		}
	case 3:
		cfg.ResNil = true
		cfg.Access = pick()
		if cfg.Access == nil {
			cfg.Access = []string{}
		}
	}
	cfg.Queue = []string{"<default>", "<default>", "", "workers"}[r.Intn(4)]
	cfg.Pre = []string{"", "", "", "reconfigured", "restart", "restart-same"}[r.Intn(6)]
	cfg.Reapply = r.Intn(3) == 0
	return cfg
}

func hasKind(cfg c09Cfg, ks ...string) bool {
	for _, k := range append(append([]string{}, cfg.Kinds...), cfg.Upper...) {
		for _, x := range ks {
			if k == x {
				return true
			}
		}
	}
	return false
}

// expectedOwnership computes the documented owned pattern lists.
func expectedOwnership(cfg c09Cfg) (resources, access []string) {
	def := func() []string {
		if cfg.Name == "" {
			return []string{">"}
		}
		return []string{cfg.Name, cfg.Name + ".>"}
	}
	if cfg.ResNil {
		if hasKind(cfg, "get", "call", "auth", "new") {
			resources = def()
		}
	} else {
		resources = cfg.Resources
	}
	if cfg.AccNil {
		if hasKind(cfg, "access") {
			access = def()
		}
	} else {
		access = cfg.Access
	}
	return
}

func c09Configure(s *res.Service, cfg c09Cfg) {
	mk := func(kinds []string) []res.Option {
		var opts []res.Option
		for _, k := range kinds {
			opts = append(opts, c09KindOption(k))
		}
		return opts
	}
	opts := mk(cfg.Kinds)
	switch cfg.Layout {
	case "root":
		s.Handle("", opts...)
	case "below-literal":
		s.Handle("a", mk(cfg.Upper)...)
		s.Handle("a.b", opts...)
	case "below-param":
		s.Handle("$x", mk(cfg.Upper)...)
		s.Handle("$x.b", opts...)
	default:
		// handlers somewhere below the service name and at its root
		s.Handle("a", opts...)
		s.Handle("a.$id", opts...)
		s.Handle(">", opts...)
	}
	if len(cfg.Kinds)%2 == 1 {
		// a handler value put together by hand whose method maps are allocated but empty: it
		// registers no call or auth method, so it adds nothing to what the service answers
		s.AddHandler("zzempty.$id", res.Handler{Call: map[string]res.CallHandler{}, Auth: map[string]res.AuthHandler{}})
	}
	c09Own(s, cfg)
}

func c09KindOption(k string) res.Option {
	switch k {
	case "get":
		return res.GetModel(func(r res.ModelRequest) { r.Model(map[string]int{"a": 1}) })
	case "call":
		return res.Call("*", func(r res.CallRequest) { r.OK(nil) })
	case "auth":
		return res.Auth("*", func(r res.AuthRequest) { r.OK(nil) })
	case "new":
		return res.New(func(r res.NewRequest) { r.New("svc.n.1") })
	}
	return res.Access(res.AccessGranted)
}

func c09Own(s *res.Service, cfg c09Cfg) {
	if cfg.Pre == "reconfigured" || cfg.Pre == "restart" {
		s.SetOwnedResources([]string{"pre.a", "pre.a.>"}, []string{"pre.b"})
	}
	if cfg.Pre == "restart" {
		return // the final ownership is set between the two runs
	}
	c09OwnFinal(s, cfg)
}

func c09OwnFinal(s *res.Service, cfg c09Cfg) {
	if !cfg.ResNil || !cfg.AccNil || cfg.Pre == "reconfigured" || cfg.Pre == "restart" {
		var rs, as []string
		if !cfg.ResNil {
			rs = cfg.Resources
		}
		if !cfg.AccNil {
			as = cfg.Access
		}
		if len(cfg.Resources)%2 == 1 {
			s.SetReset(rs, as) // the older name of the same setter
		} else {
			s.SetOwnedResources(rs, as)
		}
	}
	if cfg.Queue != "<default>" {
		s.SetQueueGroup(cfg.Queue)
	}
}

func setOf(l []string) string {
	m := map[string]bool{}
	for _, x := range l {
		m[x] = true
	}
	var out []string
	for x := range m {
		out = append(out, x)
	}
	sort.Strings(out)
	return strings.Join(out, " ")
}

// enumSubjects enumerates all subjects over tokens up to maxLen tokens.
func enumSubjects(tokens []string, maxLen int, f func(toks []string)) {
	var rec func(cur []string)
	rec = func(cur []string) {
		if len(cur) > 0 {
			f(cur)
		}
		if len(cur) == maxLen {
			return
		}
		for _, t := range tokens {
			rec(append(cur, t))
		}
	}
	rec(make([]string, 0, maxLen))
}

func c09CfgSig(cfg c09Cfg) string {
	own := "default"
	if !cfg.ResNil || !cfg.AccNil {
		own = "explicit"
	}
	name := "named"
	if cfg.Name == "" {
		name = "noname"
	}
	if cfg.Layout != "all" && cfg.Layout != "" {
		own += "/" + cfg.Layout
	}
	if cfg.Pre != "" {
		own += "/" + cfg.Pre
	}
	return name + "/" + own
}

// c09ServeConns counts the connections made for Serve(conn).
var c09ServeConns int

// c09Refused serves the configuration on connections that refuse its first, middle and last
// subscription. A service that could not subscribe to everything it owns must not come up
// (Serve fails): it would announce patterns whose requests reach no subscription.
func c09Refused(c *core.Ctx, cfg c09Cfg, nsubs int, sig string, desc map[string]interface{}) {
	if cfg.Pre == "restart" || cfg.Pre == "restart-same" || nsubs == 0 {
		return
	}
	seen := map[int]bool{}
	for _, k := range []int{1, (nsubs + 1) / 2, nsubs} {
		if seen[k] {
			continue
		}
		seen[k] = true
		k := k
		rg := newRig(cfg.Name, func(s *res.Service) { c09Configure(s, cfg) })
		rg.C.NoGoID = true
		rg.C.FailSubscribe = func(subject string, n int) error {
			if n == k {
				return errors.New("injected: subscription refused")
			}
			return nil
		}
		err := rg.start()
		c.Eval(1)
		c.Obs("starts_with_a_refused_subscription", 1)
		if err == nil {
			d := copyDesc(desc)
			var refused string
			var made []string
			for _, sb := range rg.C.Subs() {
				if sb.Err != nil {
					refused = sb.Subject
				} else {
					made = append(made, sb.Subject)
				}
			}
			d["refused_subscription"], d["refused_nth"], d["subscriptions"] = refused, k, made
			if rs := vconn.OnSubject(rg.C.Log(), "system.reset"); len(rs) > 0 {
				d["reset_payload"] = string(rs[0].Data)
			}
			c.Violation("C09/up-despite-refused-subscription:"+sig, fmt.Sprintf("subscription %d (%s) was refused by the connection, yet Serve went on: the service is up and announced its patterns without being subscribed to all of them", k, refused), d)
			rg.stop()
		}
	}
}

// c09Check checks one configuration on the recording connection.
func c09Check(c *core.Ctx, cfg c09Cfg) {
	wantRes, wantAcc := expectedOwnership(cfg)
	if len(wantRes) == 0 && len(wantAcc) == 0 {
		return // nothing to serve: Serve legitimately fails
	}
	c.Eval(1)
	rg := newRig(cfg.Name, func(s *res.Service) { c09Configure(s, cfg) })
	rg.C.NoGoID = true
	err := rg.start()
	if cfg.Pre == "restart" && err == nil {
		if err = rg.stop(); err == nil {
			c09OwnFinal(rg.S, cfg)
			err = rg.restart()
			rg.C.NoGoID = true
		}
	}
	if cfg.Pre == "restart-same" && err == nil {
		// the same Service value is stopped and served again, twice, with nothing set in
		// between: what was configured before the first run still holds
		for k := 0; k < 2 && err == nil; k++ {
			if err = rg.stop(); err == nil {
				err = rg.restart()
				rg.C.NoGoID = true
			}
		}
	}
	sig := c09CfgSig(cfg)
	desc := map[string]interface{}{"config": cfg, "expected_resources": wantRes, "expected_access": wantAcc}
	subs := rg.C.Subs()
	var subjects []string
	for _, s := range subs {
		subjects = append(subjects, s.Subject)
		if s.Err != nil {
			desc["subscriptions"] = subjects
			c.Violation("C09/invalid-subscribe-subject:"+sig, fmt.Sprintf("service subscribed to %q which NATS rejects (%v)", s.Subject, s.Err), desc)
		}
	}
	desc["subscriptions"] = subjects
	if err != nil {
		c.Violation("C09/serve-failed:"+sig, "Serve failed for a servable configuration: "+err.Error(), desc)
		return
	}
	defer rg.stop()
	c09Refused(c, cfg, len(subs), sig, desc)
	if len(wantRes) >= 2 || strings.ContainsAny(strings.Join(append(wantRes, wantAcc...), " "), "*>") {
		c.Distinct(jsonStr(cfg))
	}
	// reset payload on start and on ResetAll
	checkReset := func(when string, data []byte) {
		var re struct {
			Resources []string `json:"resources"`
			Access    []string `json:"access"`
		}
		json.Unmarshal(data, &re)
		if setOf(re.Resources) != setOf(wantRes) || setOf(re.Access) != setOf(wantAcc) {
			d := copyDesc(desc)
			d["reset_payload"] = string(data)
			c.Violation("C09/reset-payload:"+when+":"+sig, fmt.Sprintf("system.reset on %s lists resources=%v access=%v, want resources=%v access=%v", when, re.Resources, re.Access, wantRes, wantAcc), d)
		}
	}
	resets := vconn.OnSubject(rg.C.Log(), "system.reset")
	if len(resets) != 1 {
		c.Violation("C09/reset-count:start:"+sig, fmt.Sprintf("%d system.reset events on start, want 1", len(resets)), desc)
	} else {
		checkReset("start", resets[0].Data)
	}
	if cfg.Reapply {
		var rs, as []string
		if !cfg.ResNil {
			rs = cfg.Resources
		}
		if !cfg.AccNil {
			as = cfg.Access
		}
		rg.S.SetOwnedResources(rs, as)
	}
	rg.S.ResetAll()
	resets = vconn.OnSubject(rg.C.Log(), "system.reset")
	if len(resets) == 2 {
		checkReset("ResetAll", resets[1].Data)
	} else {
		c.Violation("C09/reset-count:ResetAll:"+sig, "ResetAll did not publish exactly one system.reset", desc)
	}
	// coverage and redundancy by enumeration
	tokSet := map[string]bool{"zz": true, "set": true}
	maxLen := 1
	for _, p := range append(append([]string{}, wantRes...), wantAcc...) {
		ts := strings.Split(p, ".")
		if len(ts) > maxLen {
			maxLen = len(ts)
		}
		for _, t := range ts {
			if t != "*" && t != ">" {
				tokSet[t] = true
			}
		}
	}
	var tokens []string
	for t := range tokSet {
		tokens = append(tokens, t)
	}
	sort.Strings(tokens)
	var valid []vconn.Sub
	for _, s := range subs {
		if s.Err == nil {
			valid = append(valid, s)
		}
	}
	matchCount := func(subject string) int {
		n := 0
		for _, s := range valid {
			if vconn.SubjectMatches(s.Subject, subject) {
				n++
			}
		}
		return n
	}
	var uncovered []string
	nsubj := 0
	enumSubjects(tokens, maxLen+1, func(toks []string) {
		name := strings.Join(toks, ".")
		inRes, inAcc := 0, 0
		for _, p := range wantRes {
			if _, ok := ref.Match(p, name); ok {
				inRes++
			}
		}
		for _, p := range wantAcc {
			if _, ok := ref.Match(p, name); ok {
				inAcc++
			}
		}
		if inRes > 0 {
			for _, subj := range []string{"get." + name, "call." + name + ".set", "call." + name + ".zz", "auth." + name + ".set"} {
				nsubj++
				if matchCount(subj) == 0 && len(uncovered) < 5 {
					uncovered = append(uncovered, subj)
				}
			}
		}
		if inAcc > 0 {
			nsubj++
			if matchCount("access."+name) == 0 && len(uncovered) < 5 {
				uncovered = append(uncovered, "access."+name)
			}
		}
	})
	c.Obs("subjects_enumerated", int64(nsubj))
	if len(uncovered) > 0 {
		d := copyDesc(desc)
		d["uncovered"] = uncovered
		kind := strings.SplitN(uncovered[0], ".", 2)[0]
		c.Violation("C09/uncovered:"+kind+":"+sig, fmt.Sprintf("owned request subjects %v are matched by no subscription (subscriptions %v)", uncovered, subjects), d)
	}
	// redundancy: language inclusion between two subscriptions, decided by enumeration
	subToks := map[string]bool{"zz": true}
	subMax := 1
	for _, s := range valid {
		ts := strings.Split(s.Subject, ".")
		if len(ts) > subMax {
			subMax = len(ts)
		}
		for _, t := range ts {
			if t != "*" && t != ">" {
				subToks[t] = true
			}
		}
	}
	var stoks []string
	for t := range subToks {
		stoks = append(stoks, t)
	}
	sort.Strings(stoks)
	n := len(valid)
	if n > 1 && n <= 24 {
		// included[i][j]: every subject of i matched by j so far; nonEmpty[i]
		included := make([][]bool, n)
		nonEmpty := make([]bool, n)
		for i := range included {
			included[i] = make([]bool, n)
			for j := range included[i] {
				included[i][j] = i != j
			}
		}
		enumSubjects(stoks, subMax+1, func(toks []string) {
			subj := strings.Join(toks, ".")
			var m [24]bool
			for i, s := range valid {
				m[i] = vconn.SubjectMatches(s.Subject, subj)
			}
			for i := 0; i < n; i++ {
				if !m[i] {
					continue
				}
				nonEmpty[i] = true
				for j := 0; j < n; j++ {
					if !m[j] {
						included[i][j] = false
					}
				}
			}
		})
		for i := 0; i < n; i++ {
			for j := 0; j < n; j++ {
				if i != j && nonEmpty[i] && included[i][j] {
					d := copyDesc(desc)
					d["redundant"], d["covered_by"] = valid[i].Subject, valid[j].Subject
					kind := strings.SplitN(valid[i].Subject, ".", 2)[0]
					c.Violation("C09/redundant-subscription:"+kind+":"+sig, fmt.Sprintf("subscription %q is redundant with %q", valid[i].Subject, valid[j].Subject), d)
					i, j = n, n
				}
			}
		}
	}
	// deliveries: a subject under a single owned pattern reaches the service once
	for _, p := range wantRes {
		name := c17Instantiate(newRand(int64(len(p))), p, false)
		if !ref.ValidName(name) {
			continue
		}
		inRes := 0
		for _, q := range wantRes {
			if _, ok := ref.Match(q, name); ok {
				inRes++
			}
		}
		if inRes != 1 {
			continue
		}
		start := rg.C.Len()
		inbox, done, delivered := rg.send("get."+name, nil)
		c.Obs("deliveries", 1)
		if delivered != 1 {
			d := copyDesc(desc)
			d["subject"] = "get." + name
			c.Violation(fmt.Sprintf("C09/delivered-%d-times:%s", delivered, sig), fmt.Sprintf("get.%s falls under the single owned pattern %q but is delivered to the service %d times", name, p, delivered), d)
			continue
		}
		if waitCh(done, 10*time.Second) {
			if resp, _ := replies(rg.C.Since(start), inbox); len(resp) != 1 {
				c.Violation("C09/response-count:"+sig, fmt.Sprintf("get.%s got %d responses", name, len(resp)), desc)
			}
		}
	}
	if c.WantSample() {
		c.Sample(map[string]interface{}{"config": cfg, "subscriptions": subjects, "subjects_enumerated": nsubj})
	}
}

func c09Run(c *core.Ctx, b core.Batch) {
	var p c09Params
	json.Unmarshal(b.Params, &p)
	rigInstall()
	r := c.Rand
	if p.Kind == "vconn" {
		for i := 0; i < p.N; i++ {
			c09Check(c, c09RandCfg(r, p.Shard*p.N+i))
		}
		return
	}
	ne, err := natsenv.Start()
	if err != nil {
		c.Inconclusive("nats: " + err.Error())
		return
	}
	defer ne.Shutdown()
	for i := 0; i < p.N; i++ {
		cfg := c09RandCfg(r, p.Shard*p.N+i)
		cfg.Name = []string{"", "svc", "a.b"}[i%3]
		cfg.reconnect = i%3 == 1 || i == 0
		cfg.listen = i%2 == 0
		if cfg.Pre == "restart" {
			cfg.Pre = "reconfigured" // the two-run scenario is only driven on the recording connection
		}
		if cfg.Pre == "restart-same" {
			cfg.Pre = ""
		}
		c09Nats(c, ne, cfg)
	}
}

// c09Nats: differential run against a real NATS server.
func c09Nats(c *core.Ctx, ne *natsenv.Env, cfg c09Cfg) {
	wantRes, wantAcc := expectedOwnership(cfg)
	if len(wantRes) == 0 && len(wantAcc) == 0 {
		return
	}
	c.Eval(1)
	sig := c09CfgSig(cfg)
	desc := map[string]interface{}{"config": cfg, "transport": "embedded nats-server"}
	reconnected := make(chan struct{}, 4)
	// the service reconnects later than the gateway so that the gateway sees the reset.
	// Every other configuration lets the service make its own connection (ListenAndServe).
	var nc *nats.Conn
	var err error
	if !cfg.listen {
		opts := []nats.Option{nats.ReconnectWait(400 * time.Millisecond)}
		// every other connection handed to Serve comes from an owner who has set callbacks of
		// their own on it: Serve replaces them ("any existing handlers will be replaced")
		c09ServeConns++
		if c09ServeConns%2 == 1 {
			opts = append(opts, nats.ReconnectHandler(func(*nats.Conn) {}), nats.DisconnectErrHandler(func(*nats.Conn, error) {}), nats.ClosedHandler(func(*nats.Conn) {}))
			desc["connection_had_callbacks_of_its_owner"] = true
		}
		nc, err = ne.Connect("svc", opts...)
		if err != nil {
			c.Inconclusive("connect: " + err.Error())
			return
		}
	}
	desc["started_with"] = map[bool]string{false: "Serve(conn)", true: "ListenAndServe(url)"}[cfg.listen]
	svc := res.NewService(cfg.Name)
	svc.SetLogger(&cntLogger{})
	c09Configure(svc, cfg)
	// the callback is optional: every other configuration runs without one, and the reset on
	// reconnect is sent all the same
	withCallback := len(cfg.Kinds)%2 == 0
	desc["on_reconnect_callback"] = withCallback
	if withCallback {
		svc.SetOnReconnect(func(*res.Service) { reconnected <- struct{}{} })
	}
	served := make(chan struct{})
	svc.SetOnServe(func(*res.Service) { close(served) })
	ret := make(chan error, 1)
	wireStart := ne.WireLen()
	go func() {
		if cfg.listen {
			ret <- svc.ListenAndServe(ne.URL, nats.ReconnectWait(400*time.Millisecond))
		} else {
			ret <- svc.Serve(nc)
		}
	}()
	select {
	case <-served:
	case err := <-ret:
		c.Violation("C09/serve-failed:"+sig, fmt.Sprintf("Serve on a real NATS connection failed for a servable configuration: %v", err), desc)
		if nc != nil {
			nc.Close()
		}
		return
	case <-time.After(10 * time.Second):
		c.Inconclusive("service did not start on nats")
		return
	}
	if cfg.listen {
		nc, _ = svc.Conn().(*nats.Conn)
		if nc == nil {
			c.Inconclusive("ListenAndServe: no nats connection")
			return
		}
	}
	nc.Flush()
	defer func() {
		svc.Shutdown()
		select {
		case <-ret:
		case <-time.After(5 * time.Second):
		}
	}()
	// one request per owned pattern must get exactly one response
	for _, p := range wantRes {
		name := c17Instantiate(newRand(int64(len(p))), p, false)
		if !ref.ValidName(name) {
			continue
		}
		inbox := nats.NewInbox()
		sub, _ := ne.GW.SubscribeSync(inbox)
		ne.GW.PublishRequest("get."+name, inbox, nil)
		ne.GW.Flush()
		n := 0
		for {
			_, err := sub.NextMsg(300 * time.Millisecond)
			if err != nil {
				break
			}
			n++
		}
		sub.Unsubscribe()
		c.Obs("nats_requests", 1)
		inRes := 0
		for _, q := range wantRes {
			if _, ok := ref.Match(q, name); ok {
				inRes++
			}
		}
		if n == 0 || (n != 1 && inRes == 1) {
			d := copyDesc(desc)
			d["subject"] = "get." + name
			c.Violation(fmt.Sprintf("C09/nats-response-count-%d:%s", minInt(n, 2), sig), fmt.Sprintf("get.%s (owned by pattern %q) got %d responses over a real NATS server", name, p, n), d)
		}
	}
	// reconnect: a server restart must produce a correct reset
	if cfg.reconnect {
		before := ne.WireLen()
		if err := ne.Restart(); err != nil {
			c.Inconclusive("server restart: " + err.Error())
			return
		}
		// the connection itself tells when it is back (the service's OnReconnect callback is
		// only a second witness)
		back := false
		for i := 0; i < 1500 && !back; i++ {
			if nc.Stats().Reconnects > 0 && nc.IsConnected() {
				back = true
				break
			}
			time.Sleep(10 * time.Millisecond)
		}
		if !back {
			c.Inconclusive("service connection did not reconnect")
			return
		}
		if withCallback {
			select {
			case <-reconnected:
			case <-time.After(2 * time.Second):
				c.Violation("C09/no-reconnect-callback:"+sig, "the service's connection reconnected but the service took no notice (no OnReconnect callback)", desc)
			}
		} else {
			c.Obs("reconnects_without_callback", 1)
		}
		nc.Flush()
		c.Obs("reconnects", 1)
		ok := ne.WaitWire(func(w []natsenv.WireMsg) bool {
			for _, m := range w[before:] {
				if m.Subject == "system.reset" {
					return true
				}
			}
			return false
		}, 5*time.Second)
		if !ok {
			if !ne.GW.IsConnected() {
				c.Inconclusive("gateway connection did not reconnect in time")
			} else {
				c.Violation("C09/no-reset-on-reconnect:"+sig, "no system.reset was published after the service reconnected", desc)
			}
		} else {
			for _, m := range ne.Wire()[before:] {
				if m.Subject != "system.reset" {
					continue
				}
				var re struct {
					Resources []string `json:"resources"`
					Access    []string `json:"access"`
				}
				json.Unmarshal(m.Data, &re)
				if setOf(re.Resources) != setOf(wantRes) || setOf(re.Access) != setOf(wantAcc) {
					d := copyDesc(desc)
					d["reset_payload"] = string(m.Data)
					c.Violation("C09/reset-payload:reconnect:"+sig, fmt.Sprintf("system.reset after reconnect lists resources=%v access=%v, want %v / %v", re.Resources, re.Access, wantRes, wantAcc), d)
				}
			}
		}
	}
	_ = wireStart
	c.Distinct("nats|" + jsonStr(cfg))
}
