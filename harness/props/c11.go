package props

import (
	"encoding/json"
	"fmt"
	"github.com/jirenius/go-res/store/badgerstore"
	"math/rand"
	"sort"
	"strings"
	"sync"
	"time"

	"github.com/anishathalye/porcupine"
	"github.com/jirenius/go-res/store"
	"github.com/jirenius/go-res/store/mockstore"

	altprops "verif/harness/internal/alt/props"
	"verif/harness/internal/core"
	"verif/harness/internal/mon"
	"verif/harness/internal/sched"
)

// C11 - Stores behave like a per-id linearizable map with exact change callbacks.

type c11Params struct {
	Kind      string    `json:"kind"` // concurrent | sequential
	Store     storeKind `json:"store"`
	Histories int       `json:"histories"`
	Shard     int       `json:"shard"`
}

func init() {
	core.Register(&core.Prop{
		ID:    "C11",
		Level: "exploration",
		Rule: "a case is one recorded history: 2-12 goroutines each running 20-40 read/write transactions of 1-3 operations (Create, Update, Delete, Value, Exists, vetoed and wrong-type writes) over 3 ids of a shipped store (badgerstore typed/untyped, with/without prefix; mockstore), with unique written values and call/return stamps from one global counter; the history is checked with porcupine (partitioned by id, transaction-level sequential map model, 60 s timeout = inconclusive), an open-transaction occupancy monitor per id, the OnChange callback chain per id (before_k = after_{k-1}, one per successful mutation, on the caller's goroutine inside the call interval) and the final database content; " +
			"plus long single-goroutine histories diffed against a reference map (empty ids, nil and wrong-type values, generated ids, read-your-writes). distinct non-trivial = histories in which at least two goroutines had overlapping transactions on the same id, plus sequential histories",
		Assumptions: []string{
			"a transaction is the atomic unit: call = before Read/Write is invoked, return = after Close returned",
			"the binary-marshal value mode of badgerstore is not exercised (it cannot work for non-pointer value types)",
			"mockstore has no BeforeChange and no value type: veto and wrong-type operations are only run on badgerstore",
		},
		Parallel: 8,
		Batches: func(seed int64, tier core.Tier) []core.Batch {
			var bs []core.Batch
			kinds := []storeKind{{Impl: "badger", Typed: false, Prefix: ""}, {Impl: "badger", Typed: true, Prefix: "pfx"}, {Impl: "badger", Typed: false, Prefix: "p"}, {Impl: "badger", Typed: true, Prefix: ""}, {Impl: "mock", Typed: false, Prefix: ""},
				{Impl: "badger", Typed: false, Prefix: "bare", Bare: true}, {Impl: "badger", Typed: true, Prefix: "", Bare: true}, {Impl: "mock", Bare: true}}
			for i, k := range kinds {
				for s := 0; s < tierPick(tier, 1, 8); s++ {
					bs = append(bs, core.Batch{Name: fmt.Sprintf("concurrent-%d-%d", i, s), TimeoutS: 600,
						Params: core.Params(c11Params{Kind: "concurrent", Store: k, Histories: tierPick(tier, 60, 400), Shard: s})})
				}
				bs = append(bs, core.Batch{Name: fmt.Sprintf("sequential-%d", i), TimeoutS: 600,
					Params: core.Params(c11Params{Kind: "sequential", Store: k, Histories: tierPick(tier, 50, 600)})})
			}
			for i, k := range []storeKind{{Impl: "badger", Typed: false, Prefix: "r"}, {Impl: "mock", Typed: false, Prefix: ""}} {
				bs = append(bs, core.Batch{Name: fmt.Sprintf("race-%d", i), TimeoutS: 900, Race: true,
					Params: core.Params(c11Params{Kind: "concurrent", Store: k, Histories: tierPick(tier, 8, 60)})})
			}
			return bs
		},
		MinEvaluations: func(t core.Tier) int64 { return 100 },
		Run:            c11Run,
	})
}

type stOp struct {
	Kind  string `json:"kind"` // create update delete value exists
	UID   string `json:"uid,omitempty"`
	Veto  bool   `json:"veto,omitempty"`
	Wrong bool   `json:"wrong,omitempty"`
	Bad   bool   `json:"bad,omitempty"` // value of the right type that cannot be encoded (NaN)
	// Same (update only): the value written is the one the transaction has just read - a
	// successful mutation like any other (callbacks run, with before equal to after)
	Same bool `json:"same,omitempty"`
}

type stRes struct {
	Class  string `json:"class"`
	UID    string `json:"uid,omitempty"`
	Exists bool   `json:"exists,omitempty"`
}

type txnIn struct {
	ID    string `json:"id"`
	Write bool   `json:"write"`
	Ops   []stOp `json:"ops"`
}

type txnOut struct {
	Res []stRes `json:"res"`
}

// c11Model is the sequential map model at transaction granularity. State is
// the uid stored under the id ("" = absent).
func c11Step(state string, in txnIn, out txnOut) (bool, string) {
	if len(in.Ops) != len(out.Res) {
		return false, state
	}
	for i, op := range in.Ops {
		want, ns := c11Apply(state, op)
		got := out.Res[i]
		if want.Class != got.Class || want.UID != got.UID || want.Exists != got.Exists {
			return false, state
		}
		state = ns
	}
	return true, state
}

// c11Apply applies one operation to the model.
func c11Apply(state string, op stOp) (stRes, string) {
	switch op.Kind {
	case "create":
		if op.Wrong {
			return stRes{Class: "wrongtype"}, state
		}
		if state != "" {
			return stRes{Class: "duplicate"}, state
		}
		if op.Veto {
			return stRes{Class: "veto"}, state
		}
		if op.Bad {
			return stRes{Class: "unencodable"}, state
		}
		return stRes{Class: "ok"}, op.UID
	case "update":
		if op.Wrong {
			return stRes{Class: "wrongtype"}, state
		}
		if state == "" {
			return stRes{Class: "notfound"}, state
		}
		if op.Veto {
			return stRes{Class: "veto"}, state
		}
		if op.Bad {
			return stRes{Class: "unencodable"}, state
		}
		if op.Same {
			return stRes{Class: "ok"}, state
		}
		return stRes{Class: "ok"}, op.UID
	case "delete":
		if state == "" {
			return stRes{Class: "notfound"}, state
		}
		if op.Veto {
			return stRes{Class: "veto"}, state
		}
		return stRes{Class: "ok"}, ""
	case "value":
		if state == "" {
			return stRes{Class: "notfound"}, state
		}
		return stRes{Class: "ok", UID: state}, state
	case "exists":
		return stRes{Class: "ok", Exists: state != ""}, state
	}
	return stRes{Class: "?"}, state
}

// c11Exec executes one operation on a transaction.
func c11Exec(k storeKind, rt store.ReadTxn, wt store.WriteTxn, op stOp) stRes {
	class := func(err error) string {
		cl := errClass(err)
		if op.Wrong && err != nil && cl != "notfound" && cl != "duplicate" && cl != "veto" {
			return "wrongtype"
		}
		if op.Bad && err != nil && cl != "notfound" && cl != "duplicate" && cl != "veto" {
			return "unencodable"
		}
		return cl
	}
	switch op.Kind {
	case "create", "update":
		var v interface{} = mkValue(k.Typed, op.UID, "", op.Veto)
		if op.Wrong {
			if k.Typed && core.Hash64(op.UID)%2 == 0 {
				// a different type with the same printed name ("props.tItem")
				v = altprops.ForeignItem(op.UID)
			} else if k.Typed {
				v = map[string]interface{}{"u": op.UID}
			} else {
				v = tItem{U: op.UID}
			}
		}
		if op.Bad {
			v = mkUnencodable(k.Typed, op.UID, "")
		}
		var err error
		if op.Same {
			if cur, verr := wt.Value(); verr == nil {
				v = cur
			}
		}
		if op.Kind == "create" {
			err = wt.Create(v)
		} else {
			err = wt.Update(v)
		}
		return stRes{Class: class(err)}
	case "delete":
		if op.Veto {
			// the id's write lock is held: no other transaction on this id looks at the flag
			c11VetoDelete.Store(wt.ID(), true)
			defer c11VetoDelete.Delete(wt.ID())
		}
		return stRes{Class: class(wt.Delete())}
	case "value":
		v, err := rt.Value()
		if err != nil {
			return stRes{Class: class(err)}
		}
		return stRes{Class: "ok", UID: valUID(v)}
	case "exists":
		return stRes{Class: "ok", Exists: rt.Exists()}
	}
	return stRes{Class: "?"}
}

// c11VetoDelete: ids whose next Delete the BeforeChange listener vetoes.
var c11VetoDelete sync.Map

type cbRec struct {
	ID     string `json:"id"`
	Before string `json:"before"`
	After  string `json:"after"`
	G      int64  `json:"g"`
	Seq    int64  `json:"seq"`
}

func c11RandOps(r *rand.Rand, k storeKind, write bool, uid func() string) []stOp {
	n := 1 + r.Intn(3)
	var ops []stOp
	for i := 0; i < n; i++ {
		if !write {
			ops = append(ops, stOp{Kind: []string{"value", "exists"}[r.Intn(2)]})
			continue
		}
		switch v := r.Intn(20); {
		case v < 5:
			ops = append(ops, stOp{Kind: "create", UID: uid()})
		case v < 9:
			ops = append(ops, stOp{Kind: "update", UID: uid()})
		case v < 10:
			ops = append(ops, stOp{Kind: "update", UID: uid(), Same: true})
		case v < 13:
			ops = append(ops, stOp{Kind: "delete"})
		case v < 16:
			ops = append(ops, stOp{Kind: "value"})
		case v < 17:
			ops = append(ops, stOp{Kind: "exists"})
		case v < 19 && k.Impl == "badger" && !k.Bare:
			if r.Intn(3) == 0 {
				ops = append(ops, stOp{Kind: "delete", Veto: true})
			} else {
				ops = append(ops, stOp{Kind: []string{"create", "update"}[r.Intn(2)], UID: uid(), Veto: true})
			}
		case k.Impl == "badger" && r.Intn(2) == 0:
			ops = append(ops, stOp{Kind: []string{"create", "update"}[r.Intn(2)], UID: uid(), Bad: true})
		case k.Impl == "badger":
			ops = append(ops, stOp{Kind: []string{"create", "update"}[r.Intn(2)], UID: uid(), Wrong: true})
		default:
			ops = append(ops, stOp{Kind: "value"})
		}
	}
	return ops
}

func c11Run(c *core.Ctx, b core.Batch) {
	var p c11Params
	json.Unmarshal(b.Params, &p)
	sched.Install()
	defer closeSharedBadger()
	for h := 0; h < p.Histories; h++ {
		ns := fmt.Sprintf("h%d-%d", p.Shard, h)
		var ok bool
		if p.Kind == "concurrent" {
			ok = c11Concurrent(c, p.Store, ns)
		} else {
			ok = c11Sequential(c, p.Store, ns)
		}
		if !ok {
			return
		}
	}
	for k, v := range sched.Counts() {
		c.Obs("hook:"+k, v)
	}
}

func c11Concurrent(c *core.Ctx, k storeKind, ns string) bool {
	st, bst, err := newStore(k, ns)
	if err != nil {
		c.Inconclusive("store: " + err.Error())
		return false
	}
	r := newRand(core.SubSeed(c.Batch.Seed, c.Batch.Name+ns))
	sched.SetPerturb(r.Int63(), 1+r.Intn(2))
	defer sched.SetPerturb(0, 0)
	// (the last id extends the first: keys that are prefixes of each other are different keys)
	ids := []string{ns + "-a", ns + "-b", ns + "-c", ns + "-a1"}
	var cbmu sync.Mutex
	var cbs []cbRec
	if !k.Bare {
		st.OnChange(func(id string, before, after interface{}) {
			rec := cbRec{ID: id, Before: valUID(before), After: valUID(after), G: mon.GoID(), Seq: mon.Seq()}
			cbmu.Lock()
			cbs = append(cbs, rec)
			cbmu.Unlock()
		})
	}
	if bst != nil && !k.Bare {
		// several BeforeChange listeners; the vetoing one is neither first nor last
		bst.BeforeChange(func(id string, before, after interface{}) error { return nil })
		bst.BeforeChange(func(id string, before, after interface{}) error {
			if after != nil && valVeto(after) {
				return errVeto
			}
			if _, veto := c11VetoDelete.Load(id); veto && after == nil {
				return errVeto // a delete the listener does not allow
			}
			return nil
		})
		bst.BeforeChange(func(id string, before, after interface{}) error { return nil })
	}
	// open-transaction occupancy
	var omu sync.Mutex
	writers := map[string]int{}
	readers := map[string]int{}
	occViol := func(id, what string) {
		c.Violation("C11/txn-exclusion:"+k.Impl, fmt.Sprintf("%s on id %s (store %s)", what, id, k), map[string]interface{}{"store": k, "id": id})
	}
	G := 2 + r.Intn(11)
	T := 20 + r.Intn(21)
	var hmu sync.Mutex
	var history []porcupine.Operation
	type txnIv struct {
		g         int64
		call, ret int64
		id        string
	}
	var ivs []txnIv
	var uidN int64
	var wg sync.WaitGroup
	seeds := make([]int64, G)
	for g := range seeds {
		seeds[g] = r.Int63()
	}
	for g := 0; g < G; g++ {
		wg.Add(1)
		go func(g int) {
			defer wg.Done()
			gr := newRand(seeds[g])
			gid := mon.GoID()
			n := 0
			uid := func() string { n++; return fmt.Sprintf("%s.g%d.%d", ns, g, n) }
			for t := 0; t < T; t++ {
				id := ids[gr.Intn(len(ids))]
				write := gr.Intn(3) > 0
				in := txnIn{ID: id, Write: write, Ops: c11RandOps(gr, k, write, uid)}
				var out txnOut
				call := mon.Seq()
				if write {
					wt := st.Write(id)
					omu.Lock()
					writers[id]++
					if writers[id] > 1 {
						occViol(id, "two write transactions open at the same time")
					}
					if readers[id] > 0 {
						occViol(id, "write transaction opened while a read transaction is open")
					}
					omu.Unlock()
					for _, op := range in.Ops {
						out.Res = append(out.Res, c11Exec(k, wt, wt, op))
						if gr.Intn(4) == 0 {
							time.Sleep(time.Duration(gr.Intn(50)) * time.Microsecond)
						}
					}
					omu.Lock()
					writers[id]--
					omu.Unlock()
					wt.Close()
				} else {
					rt := st.Read(id)
					omu.Lock()
					readers[id]++
					if writers[id] > 0 {
						occViol(id, "read transaction opened while a write transaction is open")
					}
					omu.Unlock()
					for _, op := range in.Ops {
						out.Res = append(out.Res, c11Exec(k, rt, nil, op))
					}
					omu.Lock()
					readers[id]--
					omu.Unlock()
					rt.Close()
				}
				ret := mon.Seq()
				hmu.Lock()
				history = append(history, porcupine.Operation{ClientId: g, Input: in, Call: call, Output: out, Return: ret})
				ivs = append(ivs, txnIv{g: gid, call: call, ret: ret, id: id})
				hmu.Unlock()
			}
		}(g)
	}
	wg.Wait()
	_ = uidN
	c.Eval(1)
	c.Obs("transactions", int64(len(history)))

	// (1) porcupine
	model := porcupine.Model{
		Partition: func(h []porcupine.Operation) [][]porcupine.Operation {
			m := map[string][]porcupine.Operation{}
			for _, op := range h {
				id := op.Input.(txnIn).ID
				m[id] = append(m[id], op)
			}
			var out [][]porcupine.Operation
			for _, v := range m {
				out = append(out, v)
			}
			return out
		},
		Init: func() interface{} { return "" },
		Step: func(state, in, out interface{}) (bool, interface{}) {
			ok, ns := c11Step(state.(string), in.(txnIn), out.(txnOut))
			return ok, ns
		},
		Equal: func(a, b interface{}) bool { return a.(string) == b.(string) },
	}
	resu := porcupine.CheckOperationsTimeout(model, history, 60*time.Second)
	c.Obs("porcupine_"+string(resu), 1)
	switch resu {
	case porcupine.Illegal:
		// find the smallest explanation: first transaction whose results do not fit any value observed so far
		sig, what := c11Diagnose(k, history)
		w := map[string]interface{}{"store": k, "goroutines": G}
		hs := history
		if len(hs) > 60 {
			hs = hs[:60]
		}
		w["history_prefix"] = hs
		c.Violation(sig, what, w)
	case porcupine.Unknown:
		c.Inconclusive("porcupine timed out")
	}
	// overlapping transactions on one id by different goroutines?
	overl := false
	byID := map[string][]txnIv{}
	for _, iv := range ivs {
		byID[iv.id] = append(byID[iv.id], iv)
	}
	for _, l := range byID {
		sort.Slice(l, func(i, j int) bool { return l[i].call < l[j].call })
		for i := 1; i < len(l); i++ {
			if l[i].call < l[i-1].ret && l[i].g != l[i-1].g {
				overl = true
			}
		}
	}
	if overl {
		c.Distinct(c.Batch.Name + "/" + ns)
	}

	// (3) callback chain
	sort.Slice(cbs, func(i, j int) bool { return cbs[i].Seq < cbs[j].Seq })
	last := map[string]string{}
	ncb := map[string]int{}
	for _, cb := range cbs {
		if cb.Before != last[cb.ID] {
			c.Violation("C11/callback-chain:"+k.Impl, fmt.Sprintf("OnChange for %s reports before=%q but the previous callback left %q", cb.ID, cb.Before, last[cb.ID]), map[string]interface{}{"store": k, "callback": cb})
		}
		last[cb.ID] = cb.After
		ncb[cb.ID]++
		// same goroutine, inside the interval of one of its transactions on that id
		found := false
		for _, iv := range ivs {
			if iv.g == cb.G && iv.id == cb.ID && iv.call < cb.Seq && cb.Seq < iv.ret {
				found = true
				break
			}
		}
		if !found {
			c.Violation("C11/callback-goroutine:"+k.Impl, fmt.Sprintf("OnChange for %s ran on goroutine %d outside any transaction of that goroutine on that id", cb.ID, cb.G), map[string]interface{}{"store": k, "callback": cb})
		}
	}
	nmut := map[string]int{}
	for _, op := range history {
		in, out := op.Input.(txnIn), op.Output.(txnOut)
		for i, o := range in.Ops {
			if (o.Kind == "create" || o.Kind == "update" || o.Kind == "delete") && out.Res[i].Class == "ok" {
				nmut[in.ID]++
			}
		}
	}
	for _, id := range ids {
		if nmut[id] != ncb[id] && !k.Bare {
			c.Violation("C11/callback-count:"+k.Impl, fmt.Sprintf("id %s: %d successful mutations but %d OnChange callbacks", id, nmut[id], ncb[id]), map[string]interface{}{"store": k})
		}
		// (5) final content
		rt := st.Read(id)
		v, err := rt.Value()
		rt.Close()
		got := ""
		if err == nil {
			got = valUID(v)
		}
		if got != last[id] && !k.Bare {
			c.Violation("C11/final-content:"+k.Impl, fmt.Sprintf("id %s: store holds %q after the history, callbacks say %q", id, got, last[id]), map[string]interface{}{"store": k})
		}
	}
	c.Obs("callbacks", int64(len(cbs)))
	if c.WantSample() {
		hs := history
		if len(hs) > 6 {
			hs = hs[:6]
		}
		c.Sample(map[string]interface{}{"store": k.String(), "goroutines": G, "transactions": len(history), "first_transactions": hs})
	}
	return true
}

// c11Diagnose derives a signature from an illegal history: it replays the
// history per id in return order looking for a result class that the model
// can never produce from any state.
func c11Diagnose(k storeKind, history []porcupine.Operation) (sig, what string) {
	for _, op := range history {
		in, out := op.Input.(txnIn), op.Output.(txnOut)
		for i, o := range in.Ops {
			got := out.Res[i]
			// classes possible for this op from any state
			a, _ := c11Apply("", o)
			b, _ := c11Apply("x", o)
			if got.Class != a.Class && got.Class != b.Class {
				return fmt.Sprintf("C11/result-class:%s:%s:%s", k.Impl, o.Kind, got.Class),
					fmt.Sprintf("%s on store %s returned %q; the map model allows only %q (absent) or %q (present)", o.Kind, k, got.Class, a.Class, b.Class)
			}
		}
	}
	return "C11/not-linearizable:" + k.Impl, fmt.Sprintf("history on store %s has no linearization against the per-id sequential map", k)
}

// c11Stamp is a value type shaped like time.Time, url.URL or uuid.UUID: MarshalBinary on
// the value, UnmarshalBinary on the pointer. The store documents that it uses the binary
// methods only when the type has both; typed with the non-pointer type it has not, so the
// values are kept as JSON - either way what is written is what is read.
type c11Stamp struct {
	U string `json:"u"`
}

func (s c11Stamp) MarshalBinary() ([]byte, error) { return []byte("bin:" + s.U), nil }
func (s *c11Stamp) UnmarshalBinary(b []byte) error {
	s.U = strings.TrimPrefix(string(b), "bin:")
	return nil
}

// c11Bin has both binary methods where they are usually written, on the pointer: a store
// typed with *c11Bin is documented to keep its values in that binary form.
type c11Bin struct{ U string }

func (b *c11Bin) MarshalBinary() ([]byte, error) { return []byte("bin:" + b.U), nil }
func (b *c11Bin) UnmarshalBinary(d []byte) error {
	b.U = strings.TrimPrefix(string(d), "bin:")
	return nil
}

// c11MarshalerType: the map behaviour on stores typed with c11Stamp and with *c11Bin.
func c11MarshalerType(c *core.Ctx, k storeKind, ns string) {
	c11MarshalerTypeOne(c, k, ns, false)
	c11MarshalerTypeOne(c, k, ns, true)
}

func c11MarshalerTypeOne(c *core.Ctx, k storeKind, ns string, ptr bool) {
	db, err := sharedBadger()
	if err != nil {
		return
	}
	st := badgerstore.NewStore(db).SetType(c11Stamp{})
	vt := "struct with MarshalBinary on the value and UnmarshalBinary on the pointer"
	sfx := "stamp"
	if ptr {
		st = badgerstore.NewStore(db).SetType(&c11Bin{})
		vt, sfx = "pointer type with MarshalBinary and UnmarshalBinary (binary form)", "bin"
	}
	mk := func(u string) interface{} {
		if ptr {
			return &c11Bin{U: u}
		}
		return c11Stamp{U: u}
	}
	if k.Prefix != "" {
		st.SetPrefix(k.Prefix + ns + sfx)
	}
	id := ns + "-" + sfx
	desc := map[string]interface{}{"store": k, "value_type": vt, "id": id}
	step := func(what string, f func() (string, error), want string) bool {
		var got string
		var err error
		c.Eval(1)
		c.Obs("marshaler_type_steps", 1)
		if pn := try(func() { got, err = f() }); pn != nil {
			got = fmt.Sprintf("panic: %v", pn)
		} else if err != nil {
			got = "error:" + errClass(err)
		}
		if got != want {
			desc["step"], desc["got"], desc["want"] = what, got, want
			c.Violation("C11/seq-result:badger:marshaler-type:"+sfx+":"+what, fmt.Sprintf("store typed with a %s: %s gives %q, the map model says %q", vt, what, got, want), desc)
			return false
		}
		return true
	}
	val := func(t interface {
		Value() (interface{}, error)
	}) (string, error) {
		v, err := t.Value()
		if err != nil {
			return "", err
		}
		switch s := v.(type) {
		case c11Stamp:
			return s.U, nil
		case *c11Bin:
			if s == nil {
				return "<nil pointer>", nil
			}
			return s.U, nil
		}
		return fmt.Sprintf("%T", v), nil
	}
	wt := st.Write(id)
	ok := step("create", func() (string, error) { return "ok", wt.Create(mk("a")) }, "ok") &&
		step("value-in-write-txn", func() (string, error) { return val(wt) }, "a") &&
		step("exists-in-write-txn", func() (string, error) { return fmt.Sprint(wt.Exists()), nil }, "true") &&
		step("update", func() (string, error) { return "ok", wt.Update(mk("b")) }, "ok") &&
		step("value-after-update", func() (string, error) { return val(wt) }, "b")
	wt.Close()
	if !ok {
		return
	}
	rt := st.Read(id)
	ok = step("value-in-read-txn", func() (string, error) { return val(rt) }, "b") &&
		step("exists-in-read-txn", func() (string, error) { return fmt.Sprint(rt.Exists()), nil }, "true")
	rt.Close()
	if !ok {
		return
	}
	wt = st.Write(id)
	_ = step("duplicate-create", func() (string, error) { return "ok", wt.Create(mk("c")) }, "error:duplicate") &&
		step("delete", func() (string, error) { return "ok", wt.Delete() }, "ok") &&
		step("value-after-delete", func() (string, error) { return val(wt) }, "error:notfound")
	wt.Close()
}

// c11Sequential: long single-goroutine history against a reference map.
func c11Sequential(c *core.Ctx, k storeKind, ns string) bool {
	if k.Impl == "badger" && k.Typed && !k.Bare {
		c11MarshalerType(c, k, ns)
	}
	st, bst, err := newStore(k, ns+"s")
	if err != nil {
		c.Inconclusive("store: " + err.Error())
		return false
	}
	r := newRand(core.SubSeed(c.Batch.Seed, c.Batch.Name+ns))
	model := map[string]string{}
	var lastCB *cbRec
	ncb := 0
	if !k.Bare {
		st.OnChange(func(id string, before, after interface{}) {
			ncb++
			lastCB = &cbRec{ID: id, Before: valUID(before), After: valUID(after), G: mon.GoID()}
		})
	}
	if bst != nil && !k.Bare {
		// several BeforeChange listeners; the vetoing one is neither first nor last
		bst.BeforeChange(func(id string, before, after interface{}) error { return nil })
		bst.BeforeChange(func(id string, before, after interface{}) error {
			if after != nil && valVeto(after) {
				return errVeto
			}
			if _, veto := c11VetoDelete.Load(id); veto && after == nil {
				return errVeto // a delete the listener does not allow
			}
			return nil
		})
		bst.BeforeChange(func(id string, before, after interface{}) error { return nil })
	}
	// fault injection for "a commit that fails": a second Store object over the same keys
	// (own locks) updates the id from inside a BeforeChange listener of the first, i.e.
	// between the read and the commit of the outer transaction - Badger then refuses the
	// outer commit with a conflict
	var st2 store.Store
	conflictFor, conflictInjected := "", false
	var conflictVal interface{}
	if bst != nil && !k.Bare {
		if st2, _, err = newStore(k, ns+"s"); err != nil {
			st2 = nil
		}
		bst.BeforeChange(func(id string, before, after interface{}) error {
			if st2 != nil && conflictFor == id {
				conflictFor = ""
				wt2 := st2.Write(id)
				conflictInjected = wt2.Update(conflictVal) == nil
				wt2.Close()
			}
			return nil
		})
	}
	genIDs := 0
	if ms, ok := st.(*mockstore.Store); ok && r.Intn(2) == 0 && !k.Bare { // the generated id is learnt from the callback
		ms.NewID = func() string { genIDs++; return fmt.Sprintf("%s-gen%d", ns, genIDs) }
	}
	canGen := func() bool {
		ms, ok := st.(*mockstore.Store)
		return ok && ms.NewID != nil
	}
	// ids that are prefixes of each other (x, x1, x1.2) are different keys of the map
	ids := []string{ns + "-x", ns + "-y", ns + "-x1", "", ns + "-x1.2"}
	n := 0
	uid := func() string { n++; return fmt.Sprintf("%s.s.%d", ns, n) }
	myG := mon.GoID()
	for t := 0; t < 300; t++ {
		id := ids[r.Intn(len(ids))]
		if id == "" && r.Intn(3) > 0 {
			id = ids[[]int{0, 1, 2, 4}[r.Intn(4)]]
		}
		if st2 != nil && t%12 == 5 && id != "" && model[id] != "" {
			// an Update whose commit fails: it returns an error, runs no change callback and
			// leaves what is stored (here: what the other transaction wrote) alone
			innerUID, outerUID := uid(), uid()
			conflictFor, conflictVal, conflictInjected = id, mkValue(k.Typed, innerUID, "", false), false
			before := ncb
			wt := st.Write(id)
			uerr := wt.Update(mkValue(k.Typed, outerUID, "", false))
			wt.Close()
			conflictFor = ""
			rt := st.Read(id)
			v, _ := rt.Value()
			rt.Close()
			c.Eval(1)
			desc := map[string]interface{}{"store": k, "id": id, "update_error": fmt.Sprint(uerr), "stored_before": model[id], "written_by_other_transaction": innerUID, "outer_update_value": outerUID, "stored_after": valUID(v)}
			switch {
			case !conflictInjected || uerr == nil:
				c.Obs("commit_conflicts_not_produced", 1)
			case ncb != before:
				desc["callback"] = *lastCB
				c.Violation("C11/seq-callback-on-failure:"+k.Impl+":commit-conflict", fmt.Sprintf("Update of %q failed at commit (%v) but ran %d OnChange callbacks (before=%q after=%q)", id, uerr, ncb-before, lastCB.Before, lastCB.After), desc)
			case valUID(v) != innerUID:
				c.Violation("C11/failed-update-changed-value:"+k.Impl, fmt.Sprintf("Update of %q failed at commit (%v) yet the stored value is %q; before the call it was %q, the other transaction wrote %q", id, uerr, valUID(v), model[id], innerUID), desc)
			default:
				c.Obs("commit_conflicts_checked", 1)
			}
			model[id] = valUID(v)
			continue
		}
		write := r.Intn(4) > 0
		ops := c11RandOps(r, k, write, uid)
		if write && r.Intn(15) == 0 {
			ops = append(ops, stOp{Kind: "create", UID: "<nil>"})
		}
		c.Eval(1)
		desc := map[string]interface{}{"store": k, "id": id, "write": write}
		if !write {
			rt := st.Read(id)
			for _, op := range ops {
				got := c11Exec(k, rt, nil, op)
				want, _ := c11Apply(model[id], op)
				if id == "" {
					// empty id: only "fails / does not exist" is specified
					want, _ = c11Apply("", op)
					if got.Class != "ok" {
						got.Class = want.Class
					}
				}
				if got != want {
					desc["op"], desc["got"], desc["want"] = op, got, want
					c.Violation(fmt.Sprintf("C11/seq-result:%s:%s:got=%s:want=%s", k.Impl, op.Kind, got.Class, want.Class), fmt.Sprintf("read txn %s on id %q (store %s): got %+v, reference map says %+v", op.Kind, id, k, got, want), desc)
				}
			}
			if rt.ID() != id {
				c.Violation("C11/txn-id", fmt.Sprintf("ReadTxn.ID()=%q, want %q", rt.ID(), id), desc)
			}
			rt.Close()
			continue
		}
		wt := st.Write(id)
		cur := id
		for _, op := range ops {
			before := ncb
			var got stRes
			isNil := op.UID == "<nil>"
			if isNil && k.Impl == "mock" {
				// mockstore has no value type and stores any value, also nil
				continue
			}
			var pn interface{}
			if isNil {
				pn = try(func() { got = stRes{Class: errClassNil(wt.Create(nil))} })
			} else {
				pn = try(func() { got = c11Exec(k, wt, wt, op) })
			}
			state := model[cur]
			if cur == "" {
				state = ""
			}
			want, nst := c11Apply(state, op)
			if isNil {
				// nil is not a value of the store's type: must fail and change nothing
				want, nst = stRes{Class: "error"}, state
			}
			if cur == "" && op.Kind == "create" && !op.Wrong && !op.Veto && !op.Bad && !isNil {
				if canGen() {
					want = stRes{Class: "ok"}
				} else {
					want = stRes{Class: "error"}
				}
				nst = ""
			}
			desc["op"] = op
			if pn != nil {
				desc["panic"] = fmt.Sprint(pn)
				c.Violation(fmt.Sprintf("C11/seq-panic:%s:%s:nil=%v", k.Impl, op.Kind, isNil), fmt.Sprintf("%s on id %q (store %s) panicked: %v", op.Kind, cur, k, pn), desc)
				continue
			}
			gotCmp := got
			if want.Class == "error" && got.Class != "ok" {
				gotCmp.Class = "error"
			}
			if cur == "" && got.Class != "ok" && want.Class != "ok" {
				gotCmp.Class = want.Class // empty id: any failure is acceptable
			}
			if gotCmp != want {
				desc["got"], desc["want"] = got, want
				c.Violation(fmt.Sprintf("C11/seq-result:%s:%s:got=%s:want=%s:emptyid=%v", k.Impl, op.Kind, short(got.Class, 30), want.Class, cur == ""), fmt.Sprintf("write txn %s on id %q (store %s): got %+v, reference map says %+v", op.Kind, cur, k, got, want), desc)
				if got.Class == "ok" && (op.Kind == "create" || op.Kind == "update") && !op.Same {
					nst = op.UID // follow the store to avoid cascading reports
				}
			}
			mutated := want.Class == "ok" && (op.Kind == "create" || op.Kind == "update" || op.Kind == "delete")
			if cur == "" && op.Kind == "create" && got.Class == "ok" && canGen() {
				// generated id: taken from the change callback (the property does not
				// cover WriteTxn.ID() after Create)
				if ncb == before+1 {
					cur = lastCB.ID
				}
				if cur == "" {
					c.Violation("C11/generated-id-unknown", "Create with generated id succeeded but no OnChange callback told the new id", desc)
					break
				}
				model[cur] = op.UID
				mutated = true
				state = ""
			} else if cur != "" {
				model[cur] = nst
			}
			if k.Bare {
				// no listener registered: nothing to check about callbacks
			} else if got.Class == "ok" && mutated {
				if ncb != before+1 {
					c.Violation("C11/seq-callback-count:"+k.Impl, fmt.Sprintf("successful %s ran %d OnChange callbacks", op.Kind, ncb-before), desc)
				} else {
					wantAfter := op.UID
					if op.Kind == "delete" {
						wantAfter = ""
					}
					if op.Same {
						wantAfter = state
					}
					if lastCB.ID != cur || lastCB.Before != state || lastCB.After != wantAfter || lastCB.G != myG {
						desc["callback"] = *lastCB
						c.Violation("C11/seq-callback-args:"+k.Impl, fmt.Sprintf("OnChange after %s on %q got (id=%q before=%q after=%q goroutine=%d), want (id=%q before=%q after=%q goroutine=%d)", op.Kind, cur, lastCB.ID, lastCB.Before, lastCB.After, lastCB.G, cur, state, wantAfter, myG), desc)
					}
				}
			} else if ncb != before {
				c.Violation("C11/seq-callback-on-failure:"+k.Impl, fmt.Sprintf("failed or read-only %s ran an OnChange callback", op.Kind), desc)
			}
		}
		if err := wt.Close(); err != nil {
			c.Violation("C11/close-error", "first Close returned "+err.Error(), desc)
		}
		if err := wt.Close(); err == nil {
			c.Violation("C11/double-close", "second Close of a transaction returned nil", desc)
		}
	}
	c.Distinct(c.Batch.Name + "/" + ns)
	return true
}

func errClassNil(err error) string {
	if err == nil {
		return "ok"
	}
	return "error"
}
