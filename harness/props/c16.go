package props

import (
	"encoding/json"
	"fmt"
	"net/url"
	"os"
	"runtime"
	"sync"
	"sync/atomic"
	"time"

	res "github.com/jirenius/go-res"
	"github.com/jirenius/go-res/logger"
	"github.com/jirenius/go-res/store"
	"github.com/jirenius/go-res/store/badgerstore"

	"verif/harness/internal/core"
	"verif/harness/internal/mon"
	"verif/harness/internal/sched"
	"verif/harness/internal/vconn"
)

// C16 - No data race under any concurrent use the API permits.
//
// Every batch runs under the Go race detector (rvmon-race). The deciding
// oracle is the race log parser of the driver (internal/core/racelog.go):
// reports with an access in a go-res frame, or in the per-group scratch memory
// of the harness (missing happens-before between callbacks of a group), are
// violations; races only in harness frames are harness bugs (inconclusive).

type c16Params struct {
	Kind string          `json:"kind"`
	Sub  json.RawMessage `json:"sub"`
	Rep  int             `json:"rep"`
}

func init() {
	core.Register(&core.Prop{
		ID:    "C16",
		Level: "exploration",
		Rule: "a case is one execution under the Go race detector of a concurrent client program within the documented threading rules: the C01/C02 workload (requests, With/WithResource/WithGroup, query events, start/stop cycles; per-group unsynchronised scratch memory), the C03 Shutdown stress, the C04 and C08 concurrent handler workloads, the C11 store histories, C13 queries racing with index maintenance, the C14 service histories (events emitted from index task goroutines), C15 query events on a real NATS connection, and a combined 'everything at once' program (requests on many resources, With*, Reset/Token*, store mutations on foreign goroutines feeding store.Handler and store.QueryHandler, query events with requests, index queries, MemLogger/StdLogger with tracing, Shutdown and restart), each with seeded schedule perturbation at the hook points; reports are parsed, deduplicated by the pair of innermost non-runtime frames and classified. " +
			"evaluations = race-instrumented executions; distinct non-trivial = distinct (workload, configuration, repetition) executions",
		Assumptions: []string{
			"the client programs respect the documented threading rules (configuration before Serve, a Resource used only inside its group's callbacks or for With*/events as the store handlers do)",
			"races located only in dependencies (badger, nats) are reported as notes, not attributed to go-res",
			"functional violations of other properties met on the way are counted, not reported here",
		},
		Parallel: 6,
		Batches: func(seed int64, tier core.Tier) []core.Batch {
			var bs []core.Batch
			reps := tierPick(tier, 1, 10)
			add := func(kind string, rep int, sub interface{}, to int) {
				bs = append(bs, core.Batch{Name: fmt.Sprintf("%s-%d-%d", kind, len(bs), rep), Race: true, TimeoutS: to,
					Params: core.Params(c16Params{Kind: kind, Sub: core.Params(sub), Rep: rep})})
			}
			for rep := 0; rep < reps; rep++ {
				for i, w := range []int{1, 3, 8, 32} {
					add("conc", rep, concCfg{Workers: w, InCh: []int{1, 4, 1024, 16}[i], Producers: 8, Ops: tierPick(tier, 80, 200), Perturb: 1 + i%2, Cycles: 1 + i%2, Query: true, HotGroups: 2 + i%2, BodyYield: 1 + i%2, Baton: i == 2}, 600)
				}
				add("c03", rep, c03Params{Kind: "stress", Workers: 4, Cycles: tierPick(tier, 10, 25), Perturb: 1}, 600)
				add("c03", rep, c03Params{Kind: "first-start", Workers: 3, Cycles: tierPick(tier, 40, 150)}, 600)
				add("c03", rep, c03Params{Kind: "multishutdown", Workers: 2, Cycles: tierPick(tier, 40, 150)}, 600)
				add("c03", rep, c03Params{Kind: "directed", Gate: "G7", Workers: 1, Rounds: tierPick(tier, 100, 400)}, 600)
				// a supervisor re-serving the instant the service is stopped: the returning Serve call of
				// one run and the starting one of the next overlap
				add("c03", rep, c03Params{Kind: "immediate-restart", Workers: 2, Cycles: tierPick(tier, 3000, 20000)}, 600)
				add("c03", rep, c03Params{Kind: "api-while-stopping", Workers: 4, Cycles: tierPick(tier, 20, 60)}, 600)
				add("signal-across-restart", rep, struct{ Rounds int }{tierPick(tier, 60, 300)}, 600)
				add("c04", rep, c04Params{Kind: "concurrent", Workers: 8, N: tierPick(tier, 1200, 4000)}, 600)
				add("c08", rep, c08Params{Kind: "concurrent", Shard: rep, N: tierPick(tier, 1200, 4000)}, 600)
				add("c11", rep, c11Params{Kind: "concurrent", Store: storeKind{Impl: "badger", Typed: rep%2 == 0, Prefix: "r"}, Histories: tierPick(tier, 6, 20)}, 900)
				add("c11", rep, c11Params{Kind: "concurrent", Store: storeKind{Impl: "mock", Typed: false, Prefix: ""}, Histories: tierPick(tier, 6, 20)}, 900)
				// untyped store objects, fresh in every history (lazily resolved defaults are first used concurrently)
				add("c11", rep, c11Params{Kind: "concurrent", Store: storeKind{Impl: "badger", Typed: false, Prefix: ""}, Histories: tierPick(tier, 12, 40)}, 900)
				add("c13", rep, idxParams{Kind: "concurrent", Typed: rep%2 == 0, Prefix: "c", Histories: tierPick(tier, 3, 8)}, 900)
				add("c14", rep, idxParams{Kind: "service", Typed: true, Prefix: "sv", Histories: tierPick(tier, 3, 8), Shard: rep}, 900)
				add("c15", rep, c15Params{Kind: "nats", Events: 10, Duration: 10, Rounds: tierPick(tier, 2, 5), Workers: 4}, 600)
				for k := 0; k < tierPick(tier, 2, 4); k++ {
					add("combined", rep*10+k, struct{}{}, 900)
				}
			}
			return bs
		},
		MinEvaluations: func(t core.Tier) int64 { return 10 },
		Run:            c16Run,
	})
}

func c16Run(c *core.Ctx, b core.Batch) {
	var p c16Params
	json.Unmarshal(b.Params, &p)
	c.SuppressFunctional = true
	sub := core.Batch{Name: b.Name, Params: p.Sub, Seed: b.Seed + int64(p.Rep), Tier: b.Tier}
	switch p.Kind {
	case "conc":
		concRun(c, sub, "C16")
	case "c03":
		c03Run(c, sub)
	case "c04":
		c04Run(c, sub)
	case "c08":
		c08Run(c, sub)
	case "c11":
		c11Run(c, sub)
	case "c13":
		idxRun(c, sub, "C13")
	case "c14":
		c14ServiceRun(c, sub)
	case "c15":
		c15Run(c, sub)
	case "combined":
		c16Combined(c, sub, p.Rep)
	case "signal-across-restart":
		var sp struct{ Rounds int }
		json.Unmarshal(p.Sub, &sp)
		c16SignalAcrossRestart(c, sp.Rounds)
	}
	// one evaluation per race-instrumented execution
	c.Obs("evaluations", -c16Evals(c)+1)
	c.ResetDistinct()
	c.Distinct(b.Name)
	c.SetAdd("workloads", p.Kind)
	for k, v := range sched.Counts() {
		c.Obs("hits:"+k, v)
	}
}

// c16Evals returns the evaluations counted so far by the reused workload.
func c16Evals(c *core.Ctx) int64 { return c.Counter("evaluations") }

// c16Combined: everything at once.
func c16Combined(c *core.Ctx, b core.Batch, rep int) {
	rigInstall()
	dir, err := os.MkdirTemp("", "rvmon-c16-")
	if err != nil {
		c.Inconclusive(err.Error())
		return
	}
	defer os.RemoveAll(dir)
	db, err := openBadger(dir)
	if err != nil {
		c.Inconclusive(err.Error())
		return
	}
	defer db.Close()
	st := badgerstore.NewStore(db).SetPrefix("item").SetType(tItem{})
	// prepared holds an index query value that the callback hands out as it is for
	// "prepared=1" (an application's ready-made "list everything" query, as in the
	// book-collection example): several queries use the same value at the same time
	var prepared atomic.Value
	qs := badgerstore.NewQueryStore(st, func(qs *badgerstore.QueryStore, v url.Values) (*badgerstore.IndexQuery, error) {
		if v.Get("prepared") == "1" {
			if iq, ok := prepared.Load().(*badgerstore.IndexQuery); ok {
				return iq, nil
			}
		}
		return idxIQ(qs, v)
	}).AddIndex(badgerstore.Index{Name: "k", Key: idxKey("k", nil)}).AddIndex(badgerstore.Index{Name: "x2", Key: idxKey("k2", nil)})
	// a second store without query store, holding collections: several goroutines write
	// different ids at the same time, each change is diffed into add/remove events by the
	// one handler that serves the pattern
	stc := badgerstore.NewStore(db).SetPrefix("col").SetType([]interface{}(nil))
	trans := store.IDToRIDCollectionTransformer(func(id string) string { return "svc.item." + id })
	tbl := &scriptTable{}
	scratch := &sync.Map{}
	touch := func(group, id string) {
		v, _ := scratch.LoadOrStore(group, &mon.GroupScratch{})
		v.(*mon.GroupScratch).Touch(id)
	}
	var lg logger.Logger
	switch rep % 3 {
	case 0:
		lg = logger.NewMemLogger().SetTrace(true)
	case 1:
		devnull, _ := os.OpenFile(os.DevNull, os.O_WRONLY, 0)
		defer devnull.Close()
		old := os.Stderr
		os.Stderr = devnull
		sl := logger.NewStdLogger().SetTrace(true)
		os.Stderr = old
		lg = sl
	default:
		lg = &cntLogger{}
	}
	rg := newRig("svc", func(s *res.Service) {
		s.SetLogger(lg)
		s.SetWorkerCount([]int{2, 8, 32}[rep%3])
		s.SetQueryEventDuration(6 * time.Millisecond)
		scriptedService(s, tbl, func(kind string, r res.Resource) { touch(r.Group(), kind) })
		s.Handle("item.$id", res.Model, store.Handler{Store: st, Transformer: store.IDTransformer("id", nil)})
		s.Handle("col.$id", res.Collection, store.Handler{Store: stc, Transformer: store.IDTransformer("id", nil)})
		s.Handle("all", res.Collection, store.QueryHandler{QueryStore: qs, Transformer: trans,
			RequestHandler: func(string, map[string]string) (url.Values, error) {
				return idxQuery{Index: "k", Limit: -1}.values(), nil
			}})
		s.Handle("search", res.Collection, store.QueryHandler{QueryStore: qs, Transformer: trans,
			QueryRequestHandler: func(rname string, pp map[string]string, q url.Values) (url.Values, string, error) {
				v, norm := c14NormQuery(q)
				return v, norm, nil
			}})
		s.Handle("grp.$g.$id", res.Group("${g}"), res.Call("do", func(r res.CallRequest) {
			touch(r.Group(), r.ResourceName())
			r.Event("ping", nil)
			r.OK(nil)
		}), res.GetModel(func(r res.ModelRequest) { r.Model(map[string]int{"a": 1}) }))
	})
	rg.C.NoGoID = true
	if err := rg.start(); err != nil {
		c.Inconclusive("start: " + err.Error())
		return
	}
	sched.SetPerturb(b.Seed+int64(rep), 1+rep%2)
	defer sched.SetPerturb(0, 0)
	for cycle := 0; cycle < 2; cycle++ {
		var wg sync.WaitGroup
		stop := make(chan struct{})
		var ops int64
		worker := func(name string, f func(r interface{ Intn(int) int }, n int)) {
			wg.Add(1)
			go func() {
				defer wg.Done()
				r := newRand(core.SubSeed(b.Seed, fmt.Sprintf("%s/%d/%d/%s", b.Name, rep, cycle, name)))
				for n := 0; ; n++ {
					select {
					case <-stop:
						return
					default:
					}
					try(func() { f(r, n) })
					atomic.AddInt64(&ops, 1)
				}
			}()
		}
		getScripts := getScriptAlphabet()
		for g := 0; g < 3; g++ {
			worker(fmt.Sprintf("requests%d", g), func(r interface{ Intn(int) int }, n int) {
				rt := []string{"access", "get", "call", "auth", "new"}[r.Intn(5)]
				pats := c04PatternsFor(rt)
				pattern := pats[r.Intn(len(pats))]
				sc := script{{Op: "event", K: "custom", V: "ok"}, replyAlphabet(rt, c04HType(pattern))[0]}
				id := tbl.add(scriptEntry{sc: sc, getSc: getScripts[0]})
				ms := c04Methods(rt, pattern)
				rg.send(c04Subject(rt, pattern, id, ms[r.Intn(len(ms))]), []byte(c04Payloads[r.Intn(2)].data))
				pl, _ := json.Marshal(map[string]string{"query": "x"})
				rg.send(fmt.Sprintf("call.svc.grp.g%d.%d.do", r.Intn(2), r.Intn(4)), pl)
				if n%16 == 0 {
					rg.send("get.svc.all", nil)
					rg.send("get.svc.search", []byte(`{"query":"prefix=a&limit=3"}`))
					rg.send(fmt.Sprintf("get.svc.item.i%d", r.Intn(6)), nil)
				}
			})
		}
		worker("with", func(r interface{ Intn(int) int }, n int) {
			rid := fmt.Sprintf("svc.grp.g%d.%d", r.Intn(2), r.Intn(4))
			switch r.Intn(3) {
			case 0:
				rg.S.With(rid, func(rs res.Resource) { touch(rs.Group(), "with"); rs.Event("tick", n) })
			case 1:
				if rs, err := rg.S.Resource(rid); err == nil {
					rg.S.WithResource(rs, func() { touch(rs.Group(), "withres") })
				}
			default:
				grp := fmt.Sprintf("g%d", r.Intn(2))
				rg.S.WithGroup(grp, func(*res.Service) { touch(grp, "withgroup") })
			}
		})
		worker("service-events", func(r interface{ Intn(int) int }, n int) {
			switch r.Intn(5) {
			case 0:
				rg.S.Reset([]string{"svc.item.>"}, nil)
			case 1:
				rg.S.ResetAll()
			case 2:
				rg.S.TokenEvent("cid", map[string]int{"n": n})
			case 3:
				rg.S.TokenEventWithID("cid", "tid", nil)
			default:
				rg.S.TokenReset("auth.svc.m.1.login", "tid")
			}
			_ = rg.S.Conn()
			_ = rg.S.Logger()
			_ = rg.S.ProtocolVersion()
		})
		// One writer goroutine only: with two producers blocked on a full index task
		// queue the taskqueue dependency can lose a wake-up (see DESIGN.md, out-of-scope observation).
		for g := 0; g < 1; g++ {
			worker(fmt.Sprintf("store%d", g), func(r interface{ Intn(int) int }, n int) {
				id := fmt.Sprintf("i%d", r.Intn(6))
				wt := st.Write(id)
				v := tItem{U: fmt.Sprintf("u%d", n), K: idxKeys[r.Intn(6)], K2: idxKeys[r.Intn(3)]}
				switch r.Intn(4) {
				case 0:
					wt.Delete()
				case 1:
					wt.Create(v)
				default:
					if wt.Update(v) != nil {
						wt.Create(v)
					}
				}
				wt.Close()
				if n%20 == 0 {
					rt := st.Read(id)
					rt.Value()
					rt.Exists()
					rt.Close()
				}
			})
		}
		for g := 0; g < 3; g++ {
			g := g
			worker(fmt.Sprintf("collection-store%d", g), func(r interface{ Intn(int) int }, n int) {
				id := fmt.Sprintf("c%d-%d", g, r.Intn(2))
				l := make([]interface{}, 4+r.Intn(8))
				for i := range l {
					l[i] = fmt.Sprintf("v%d", r.Intn(9))
				}
				wt := stc.Write(id)
				if wt.Update(l) != nil {
					wt.Create(l)
				}
				wt.Close()
				if n%8 == 0 {
					rg.send("get.svc.col."+id, nil)
				}
			})
		}
		worker("index-queries", func(r interface{ Intn(int) int }, n int) {
			qs.Query(idxQuery{Index: []string{"k", "x2"}[r.Intn(2)], Prefix: []string{"", "a", "ab"}[r.Intn(3)], Limit: r.Intn(5) - 1, Reverse: r.Intn(2) == 0}.values())
			if n%50 == 0 {
				qs.Flush()
			}
		})
		for g := 0; g < 2; g++ {
			g := g
			worker(fmt.Sprintf("prepared-index-queries%d", g), func(r interface{ Intn(int) int }, n int) {
				if g == 0 {
					prepared.Store(&badgerstore.IndexQuery{Index: qs.Index("k"), KeyPrefix: []byte([]string{"", "a"}[n%2]), Limit: []int{-1, -1, 2, 0}[n%4], Offset: n % 3, Reverse: n%5 == 0})
				}
				qs.Query(url.Values{"prepared": {"1"}})
			})
		}
		worker("query-requests", func(r interface{ Intn(int) int }, n int) {
			// answer query events published by the query handler
			log := rg.C.Since(maxInt(0, rg.C.Len()-50))
			for _, m := range log {
				if len(m.Subject) > 6 && m.Subject[len(m.Subject)-6:] == ".query" {
					var qe struct {
						Subject string `json:"subject"`
					}
					if json.Unmarshal(m.Data, &qe) == nil && qe.Subject != "" {
						rg.C.Deliver(qe.Subject, newInbox(), []byte(`{"query":"limit=3&offset=0&prefix=a"}`))
					}
				}
			}
			time.Sleep(500 * time.Microsecond)
		})
		if ml, ok := lg.(*logger.MemLogger); ok {
			worker("log-reader", func(r interface{ Intn(int) int }, n int) {
				_ = len(ml.String())
				time.Sleep(2 * time.Millisecond)
			})
		}
		time.Sleep(time.Duration(150+50*cycle) * time.Millisecond)
		// Shutdown while everything is running
		sdone := make(chan struct{})
		go func() { rg.S.Shutdown(); close(sdone) }()
		if !waitCh(sdone, 60*time.Second) {
			close(stop)
			c.Inconclusive("Shutdown of the combined run did not return within 60 s")
			return
		}
		close(stop)
		wdone := make(chan struct{})
		go func() { wg.Wait(); close(wdone) }()
		if !waitCh(wdone, 60*time.Second) {
			c.Inconclusive("client goroutines of the combined run did not finish within 60 s after Shutdown (a call into the library did not return)")
			return
		}
		select {
		case <-rg.serveRet:
		case <-time.After(20 * time.Second):
			c.Inconclusive("Serve did not return")
			return
		}
		qs.Flush()
		c.Obs("combined_ops", atomic.LoadInt64(&ops))
		if cycle == 0 {
			if err := rg.restart(); err != nil {
				c.Inconclusive("restart: " + err.Error())
				return
			}
			rg.C.NoGoID = true
		}
	}
	c.Sample(map[string]interface{}{"workload": "combined", "goroutines": []string{"requests x3", "with", "service-events", "store writer", "index-queries", "query-requests", "log-reader"}, "cycles": 2})
}

func maxInt(a, b int) int {
	if a > b {
		return a
	}
	return b
}

// c16SignalAcrossRestart: a With call has put its callback into the work queue and is about
// to wake a worker when the service is stopped and served again. The wake-up then happens
// in the next run, while that run sets itself up - everything the late goroutine touches
// must be synchronised with the starting Serve.
func c16SignalAcrossRestart(c *core.Ctx, rounds int) {
	rigInstall()
	for round := 0; round < rounds; round++ {
		rg := newRig("svc", func(s *res.Service) {
			s.SetWorkerCount(1 + round%3)
			s.Handle("g.$id", res.Access(res.AccessGranted), res.GetModel(func(r res.ModelRequest) { r.Model(map[string]int{"a": 1}) }))
		})
		rg.C.NoGoID = true
		if err := rg.start(); err != nil {
			c.Inconclusive("start: " + err.Error())
			return
		}
		wid := fmt.Sprintf("svc.g.%d", round)
		gate := sched.Arm("runWith.queued", func(arg interface{}) bool { w, _ := arg.(string); return w == wid })
		withRet := make(chan struct{})
		go func() {
			defer close(withRet)
			rg.S.With(wid, func(res.Resource) {})
		}()
		if !gate.WaitArrived(10 * time.Second) {
			gate.Release()
			c.Inconclusive("signal-across-restart: With did not reach the point after queueing")
			rg.stop()
			return
		}
		if err := rg.stop(); err != nil {
			gate.Release()
			c.Inconclusive("signal-across-restart: Shutdown: " + err.Error())
			return
		}
		// the next run starts while the late goroutine goes on
		rg.C = vconn.New()
		rg.C.NoGoID = true
		rg.serveRet = make(chan error, 1)
		rg.served = make(chan struct{})
		var once sync.Once
		rg.S.SetOnServe(func(*res.Service) { once.Do(func() { close(rg.served) }) })
		go func() { rg.serveRet <- rg.S.Serve(rg.C) }()
		if round%2 == 1 {
			runtime.Gosched()
		}
		gate.Release()
		c.Obs("late_signals_into_a_starting_run", 1)
		if !waitCh(withRet, 10*time.Second) {
			c.Inconclusive("signal-across-restart: With did not return")
			return
		}
		select {
		case <-rg.served:
		case err := <-rg.serveRet:
			c.Inconclusive(fmt.Sprintf("signal-across-restart: second Serve returned %v", err))
			return
		case <-time.After(20 * time.Second):
			c.Inconclusive("signal-across-restart: second Serve did not start")
			return
		}
		// the second run serves
		inbox, done, n := rg.send("get."+wid, nil)
		if n != 1 || !waitCh(done, 10*time.Second) {
			c.Inconclusive("signal-across-restart: request to the second run not processed")
			return
		}
		_ = inbox
		rg.stop()
	}
}
