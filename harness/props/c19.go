package props

import (
	"encoding/json"
	"errors"
	"fmt"
	"math"
	"math/rand"
	"reflect"
	"strings"
	"sync"
	"time"

	res "github.com/jirenius/go-res"
	"github.com/jirenius/go-res/resprot"
	nats "github.com/nats-io/nats.go"

	"verif/harness/internal/core"
	"verif/harness/internal/natsenv"
)

// C19 - SendRequest returns the first real response within the extended deadline.

type c19Params struct {
	Kind  string `json:"kind"` // scripted | faults | nats
	Shard int    `json:"shard"`
	N     int    `json:"n"`
}

func init() {
	core.Register(&core.Prop{
		ID:    "C19",
		Level: "exploration",
		Rule:  "a case is one SendRequest call against a scripted connection that, on PublishRequest, plays a schedule of pre-responses (valid timeout, unknown key, malformed value), responses (result, resource, error, invalid JSON, empty) and silences into the inbox channel and records the actual send instants; schedules are built in units of 40 ms with messages on whole units and deadlines on half units (margin 20 ms); the expected outcome (response, extension callbacks, return time) is computed by a reference simulation; a case whose actual instants came within 8 ms of a deadline is discarded as inconclusive, never failed; elapsed time is checked with wide tolerance only. Fault cases: marshal, subscribe and publish failures. On an embedded NATS server the client's subscription count must return to the baseline on every return path, and a real go-res service sending Timeout pre-responses is called end to end. distinct non-trivial = distinct schedules with at least one pre-response or >= 2 messages",
		Assumptions: []string{
			"timing verdicts are only drawn from cases whose recorded send instants kept the margin to every deadline",
		},
		Parallel: 4,
		Batches: func(seed int64, tier core.Tier) []core.Batch {
			var bs []core.Batch
			for s := 0; s < tierPick(tier, 4, 12); s++ {
				bs = append(bs, core.Batch{Name: fmt.Sprintf("scripted-%d", s), TimeoutS: 900, Params: core.Params(c19Params{Kind: "scripted", Shard: s, N: tierPick(tier, 48, 600)})})
			}
			bs = append(bs, core.Batch{Name: "faults", TimeoutS: 300, Params: core.Params(c19Params{Kind: "faults", N: tierPick(tier, 60, 600)})})
			bs = append(bs, core.Batch{Name: "nats", TimeoutS: 600, Params: core.Params(c19Params{Kind: "nats", N: tierPick(tier, 20, 200)})})
			return bs
		},
		MinEvaluations: func(t core.Tier) int64 { return 100 },
		Run:            c19Run,
	})
}

const c19Unit = 40 * time.Millisecond

type c19Msg struct {
	At      int    `json:"at"` // send time in units after PublishRequest
	Kind    string `json:"kind"`
	Payload string `json:"payload"`
	ExtMS   int    `json:"ext_ms,omitempty"` // announced extension for valid timeout pre-responses
}

type c19Case struct {
	TimeoutHalfUnits int      `json:"timeout_half_units"` // timeout = n * unit/2 (odd: deadline falls between message instants)
	Msgs             []c19Msg `json:"msgs"`
	// the first extension callback takes this long (the caller's callbacks may be slow: the
	// announced duration still counts from the arrival of the pre-response)
	CbSleepUnits int `json:"callback_sleep_units,omitempty"`
}

// scriptConn is a connection that plays a schedule into the inbox channel.
type scriptConn struct {
	mu        sync.Mutex
	cs        c19Case
	ch        chan *nats.Msg
	inbox     string
	subErr    error
	pubErr    error
	subs      int
	pubs      int
	t0        time.Time
	sent      []time.Duration // actual send instants relative to t0
	published []byte
	done      chan struct{}
	returned  chan struct{}
}

func (sc *scriptConn) Publish(subject string, payload []byte) error { return nil }

func (sc *scriptConn) PublishRequest(subject, reply string, data []byte) error {
	sc.mu.Lock()
	sc.pubs++
	sc.published = append([]byte(nil), data...)
	if sc.pubErr != nil {
		sc.mu.Unlock()
		return sc.pubErr
	}
	sc.t0 = time.Now()
	ch, msgs, t0 := sc.ch, sc.cs.Msgs, sc.t0
	sc.mu.Unlock()
	go func() {
		defer close(sc.done)
		for _, m := range msgs {
			time.Sleep(time.Until(t0.Add(time.Duration(m.At) * c19Unit)))
			sc.mu.Lock()
			sc.sent = append(sc.sent, time.Since(t0)) // the instant the message is offered
			sc.mu.Unlock()
			select {
			case ch <- &nats.Msg{Subject: reply, Data: []byte(m.Payload)}:
			case <-sc.returned:
				// nobody is receiving any more (SendRequest has returned)
			}
		}
	}()
	return nil
}

func (sc *scriptConn) ChanSubscribe(subject string, ch chan *nats.Msg) (*nats.Subscription, error) {
	sc.mu.Lock()
	defer sc.mu.Unlock()
	sc.subs++
	if sc.subErr != nil {
		return nil, sc.subErr
	}
	sc.ch, sc.inbox = ch, subject
	return &nats.Subscription{Subject: subject}, nil
}

func (sc *scriptConn) ChanQueueSubscribe(subject, queue string, ch chan *nats.Msg) (*nats.Subscription, error) {
	return sc.ChanSubscribe(subject, ch)
}
func (sc *scriptConn) Close() {}

// burstConn delivers like a NATS channel subscription: every message is offered with
// a non-blocking send and dropped when the channel cannot take it. All its messages
// are already there when PublishRequest returns (the replies were faster than the
// requesting goroutine), so nothing is waiting on the inbox yet.
type burstConn struct {
	ch      chan *nats.Msg
	msgs    []string
	dropped int
}

func (bc *burstConn) Publish(subject string, payload []byte) error { return nil }
func (bc *burstConn) PublishRequest(subject, reply string, data []byte) error {
	for _, m := range bc.msgs {
		select {
		case bc.ch <- &nats.Msg{Subject: reply, Data: []byte(m)}:
		default:
			bc.dropped++
		}
	}
	return nil
}
func (bc *burstConn) ChanSubscribe(subject string, ch chan *nats.Msg) (*nats.Subscription, error) {
	bc.ch = ch
	return &nats.Subscription{Subject: subject}, nil
}
func (bc *burstConn) ChanQueueSubscribe(subject, queue string, ch chan *nats.Msg) (*nats.Subscription, error) {
	return bc.ChanSubscribe(subject, ch)
}
func (bc *burstConn) Close() {}

// c19Bursts: one or two pre-responses and the response arrive before SendRequest
// waits on its inbox; the response is still the one returned.
func c19Bursts(c *core.Ctx) {
	for k := 1; k <= 2; k++ {
		for _, resp := range []string{`{"result":"pong"}`, `{"error":{"code":"custom.err","message":"Custom"}}`} {
			bc := &burstConn{}
			for i := 0; i < k; i++ {
				bc.msgs = append(bc.msgs, `timeout:"150"`)
			}
			bc.msgs = append(bc.msgs, resp)
			var exts []time.Duration
			t0 := time.Now()
			r := resprot.SendRequest(bc, "call.svc.x.do", nil, 60*time.Millisecond, func(d time.Duration) { exts = append(exts, d) })
			elapsed := time.Since(t0)
			c.Eval(1)
			c.Obs("burst_cases", 1)
			desc := map[string]interface{}{"messages_delivered_before_the_inbox_is_read": bc.msgs, "dropped_by_the_connection": bc.dropped, "returned": jsonStr(r), "elapsed_ms": elapsed.Milliseconds(), "extension_callbacks": len(exts)}
			want := resprot.ParseResponse([]byte(resp))
			if jsonStr(r) != jsonStr(want) {
				c.Violation("C19/burst-response-lost", fmt.Sprintf("%d pre-response(s) and the response were delivered before SendRequest read its inbox (non-blocking delivery as on a NATS channel subscription, %d dropped): it returned %s after %v instead of the response", k, bc.dropped, jsonStr(r), elapsed), desc)
			} else if len(exts) != k {
				c.Violation("C19/extension-callbacks", fmt.Sprintf("%d pre-responses in a burst notified the extension callbacks %d times", k, len(exts)), desc)
			}
			c.Distinct(fmt.Sprintf("burst/%d/%s", k, resp))
		}
	}
}

var c19Responses = []struct{ kind, payload string }{
	{"result", `{"result":{"a":1}}`}, {"result-null", `{"result":null}`}, {"resource", `{"resource":{"rid":"svc.x"}}`},
	{"error", `{"error":{"code":"custom.err","message":"Custom"}}`}, {"invalid-json", `{"result":`}, {"empty", ``}, {"no-member", `{}`}, {"number", `42`},
	// first bytes next to, but outside, the letter ranges that mark a pre-response: ASCII
	// neighbours of a-z/A-Z and bytes >= 0x80 (a byte order mark, Latin-1 letters, UTF-8
	// lead bytes). None of these is a pre-response: each is the response (a parse error)
	{"first-byte-at", `@{"result":1}`}, {"first-byte-bracket", `[{"result":1}]`}, {"first-byte-backtick", "`x"}, {"first-byte-underscore", `_timeout:"100"`},
	{"first-byte-space", ` {"result":{"a":2}}`}, {"first-byte-bom", "\xef\xbb\xbf" + `{"result":{"a":3}}`}, {"first-byte-e9", "\xe9t\xe9"}, {"first-byte-b5", "\xb5s"},
	// a complete response followed by more bytes is not a response: the parse error is returned
	{"trailing-brace", `{"result":{"foo":42}}}`}, {"trailing-text", `{"result":null} garbage`}, {"trailing-second-object", `{"result":1}{"result":2}`}, {"trailing-bracket", `{"resource":{"rid":"svc.x"}}]`},
	{"trailing-after-error", `{"error":{"code":"custom.err","message":"Custom"}},`},
	{"first-byte-aa", "\xaa"}, {"first-byte-c0", "\xc0x"}, {"first-byte-ff", "\xff\xfe"}, {"first-byte-utf8", "\u00e9timeout:\"100\""}, {"first-byte-d7", "\xd7"}, {"first-byte-80", "\x80abc"},
}

func c19RandCase(r *rand.Rand) c19Case {
	cs := c19Case{TimeoutHalfUnits: 3 + 2*r.Intn(3)} // 1.5, 2.5, 3.5 units
	n := r.Intn(5)
	at := 0
	for i := 0; i < n; i++ {
		at += 1 + r.Intn(3)
		switch r.Intn(7) {
		case 0, 1, 2:
			ext := (3 + 2*r.Intn(3)) * 20 // 60, 100, 140 ms: deadline on a half unit after this message
			if r.Intn(6) == 0 {
				// timeout:"0" is what Timeout(0) and sub-millisecond durations announce: the
				// deadline restarts with zero, i.e. the request times out at this very message
				ext = 0
			}
			// a pre-response is a list of key:"value" pairs: the timeout key counts wherever it stands
			payload := fmt.Sprintf(`timeout:"%d"`, ext)
			switch r.Intn(7) {
			case 0:
				payload = `progress:"10" ` + payload
			case 1:
				payload = payload + ` note:"still working"`
			case 2:
				// any letter may start a pre-response, the last ones of the alphabet included
				payload = []string{`zone:"eu-1" `, `Zone:"x" `, `a:"1" `, `A:"1" `}[r.Intn(4)] + payload
			}
			cs.Msgs = append(cs.Msgs, c19Msg{At: at, Kind: "pre-timeout", Payload: payload, ExtMS: ext})
		case 3:
			cs.Msgs = append(cs.Msgs, c19Msg{At: at, Kind: "pre-junk", Payload: []string{`foo:"bar"`, `timeout:"abc"`, `timeout`, `Timeout:"100"`, `x`, `zone:"eu-1"`, `Z`, `a:"1"`, `A`}[r.Intn(9)]})
		default:
			rp := c19Responses[r.Intn(len(c19Responses))]
			cs.Msgs = append(cs.Msgs, c19Msg{At: at, Kind: "response-" + rp.kind, Payload: rp.payload})
		}
	}
	return cs
}

// c19Simulate is the reference: which message is returned (index, -1 for
// timeout), which extensions are announced, and the expected return time.
func c19Simulate(cs c19Case) (ret int, exts []int, when time.Duration, deadlines []time.Duration) {
	deadline := time.Duration(cs.TimeoutHalfUnits) * c19Unit / 2
	deadlines = append(deadlines, deadline)
	for i, m := range cs.Msgs {
		t := time.Duration(m.At) * c19Unit
		if t >= deadline {
			return -1, exts, deadline, deadlines
		}
		switch m.Kind {
		case "pre-timeout":
			deadline = t + time.Duration(m.ExtMS)*time.Millisecond
			deadlines = append(deadlines, deadline)
			exts = append(exts, m.ExtMS)
		case "pre-junk":
		default:
			return i, exts, t, deadlines
		}
	}
	return -1, exts, deadline, deadlines
}

func c19Run(c *core.Ctx, b core.Batch) {
	var p c19Params
	json.Unmarshal(b.Params, &p)
	switch p.Kind {
	case "scripted":
		c19Scripted(c, p)
	case "faults":
		c19Faults(c, p)
	case "nats":
		c19Nats(c, p)
	}
}

func c19Scripted(c *core.Ctx, p c19Params) {
	r := c.Rand
	cases := make([]c19Case, p.N)
	for i := range cases {
		cases[i] = c19RandCase(r)
	}
	// slow extension callbacks (shorter than the announced duration, no message while they run)
	okResp := `{"result":{"late":true}}`
	cases = append(cases,
		c19Case{TimeoutHalfUnits: 5, CbSleepUnits: 2, Msgs: []c19Msg{{At: 1, Kind: "pre-timeout", Payload: `timeout:"160"`, ExtMS: 160}, {At: 6, Kind: "response-result", Payload: okResp}}},
		c19Case{TimeoutHalfUnits: 5, CbSleepUnits: 1, Msgs: []c19Msg{{At: 1, Kind: "pre-timeout", Payload: `timeout:"100"`, ExtMS: 100}, {At: 3, Kind: "pre-timeout", Payload: `timeout:"100"`, ExtMS: 100}, {At: 6, Kind: "response-result", Payload: okResp}}},
		c19Case{TimeoutHalfUnits: 5, CbSleepUnits: 2, Msgs: []c19Msg{{At: 1, Kind: "pre-timeout", Payload: `timeout:"160"`, ExtMS: 160}, {At: 4, Kind: "response-result", Payload: okResp}}},
	)
	var wg sync.WaitGroup
	sem := make(chan struct{}, 4)
	for i := range cases {
		wg.Add(1)
		sem <- struct{}{}
		go func(i int) {
			defer wg.Done()
			defer func() { <-sem }()
			c19One(c, cases[i], i == 3)
		}(i)
	}
	wg.Wait()
}

func c19One(c *core.Ctx, cs c19Case, sample bool) {
	sc := &scriptConn{cs: cs, done: make(chan struct{}), returned: make(chan struct{})}
	var emu sync.Mutex
	var exts []int
	timeout := time.Duration(cs.TimeoutHalfUnits) * c19Unit / 2
	// scheduling-latency probe: a case during which goroutines were descheduled
	// for longer than the margin is discarded as inconclusive
	var maxLate time.Duration
	probeStop, probeDone := make(chan struct{}), make(chan struct{})
	go func() {
		defer close(probeDone)
		for {
			select {
			case <-probeStop:
				return
			default:
			}
			t := time.Now()
			time.Sleep(time.Millisecond)
			if late := time.Since(t) - time.Millisecond; late > maxLate {
				maxLate = late
			}
		}
	}()
	// the caller passes no, one or two extension callbacks: the deadline is restarted all the same
	ncb := (len(cs.Msgs) + cs.TimeoutHalfUnits) % 3
	if cs.CbSleepUnits > 0 && ncb == 0 {
		ncb = 1
	}
	var exts2 []int
	var cbs []func(time.Duration)
	if ncb >= 1 {
		cbs = append(cbs, func(d time.Duration) {
			emu.Lock()
			exts = append(exts, int(d/time.Millisecond))
			emu.Unlock()
			if cs.CbSleepUnits > 0 {
				time.Sleep(time.Duration(cs.CbSleepUnits) * c19Unit)
			}
		})
	}
	if ncb == 2 {
		cbs = append(cbs, func(d time.Duration) {
			emu.Lock()
			exts2 = append(exts2, int(d/time.Millisecond))
			emu.Unlock()
		})
	}
	t0 := time.Now()
	var resp resprot.Response
	retCh := make(chan struct{})
	go func() {
		defer close(retCh)
		resp = resprot.SendRequest(sc, "call.svc.x.do", map[string]int{"a": 1}, timeout, cbs...)
	}()
	_, _, lastWhen, _ := c19Simulate(cs)
	select {
	case <-retCh:
	case <-time.After(lastWhen + 5*time.Second):
		close(probeStop)
		close(sc.returned)
		c.Eval(1)
		c.Violation("C19/never-returns", fmt.Sprintf("SendRequest had not returned 5 s after the instant %v at which the reference expects it to return", lastWhen), map[string]interface{}{"case": cs})
		return
	}
	elapsed := time.Since(t0)
	close(probeStop)
	<-probeDone
	close(sc.returned)
	select {
	case <-sc.done:
	case <-time.After(10 * time.Second):
	}
	wantIdx, wantExts, wantWhen, deadlines := c19Simulate(cs)
	desc := map[string]interface{}{"case": cs, "elapsed_ms": elapsed.Milliseconds(), "expected_return_ms": wantWhen.Milliseconds()}
	// margin check on the actual send instants
	sc.mu.Lock()
	sent := append([]time.Duration(nil), sc.sent...)
	sc.mu.Unlock()
	for i, s := range sent {
		ideal := time.Duration(cs.Msgs[i].At) * c19Unit
		if s-ideal > 8*time.Millisecond || ideal-s > 2*time.Millisecond {
			c.Inconclusive(fmt.Sprintf("scheduling jitter: message %d sent at %v instead of %v", i, s, ideal))
			return
		}
	}
	_ = deadlines
	if maxLate > 12*time.Millisecond {
		c.Inconclusive(fmt.Sprintf("scheduling latency of %v observed during the case", maxLate))
		return
	}
	c.Eval(1)
	emu.Lock()
	gotExts := append([]int(nil), exts...)
	emu.Unlock()
	if len(cs.Msgs) >= 2 || len(wantExts) > 0 {
		c.Distinct(jsonStr(cs))
	}
	if wantIdx < 0 {
		if resp.Error == nil || resp.Error.Code != res.CodeTimeout {
			desc["got"] = jsonStr(resp)
			c.Violation("C19/expected-timeout", fmt.Sprintf("no response arrives before the current deadline, but SendRequest returned %s", jsonStr(resp)), desc)
			return
		}
	} else {
		want := resprot.ParseResponse([]byte(cs.Msgs[wantIdx].Payload))
		if strings.HasPrefix(cs.Msgs[wantIdx].Kind, "response-trailing") && (resp.Error == nil || resp.Error.Code != res.CodeInternalError) {
			// decided without the client's own parser: text after the JSON value makes the payload invalid
			desc["got"] = jsonStr(resp)
			c.Violation("C19/wrong-response:trailing-bytes-accepted", fmt.Sprintf("the reply %q is not valid JSON (bytes follow the value); SendRequest returned %s instead of system.internalError", cs.Msgs[wantIdx].Payload, jsonStr(resp)), desc)
			return
		}
		if resp.Error != nil && resp.Error.Code == res.CodeTimeout && (want.Error == nil || want.Error.Code != res.CodeTimeout) {
			c.Violation("C19/spurious-timeout", fmt.Sprintf("a response arrives at %v, before the current deadline, but SendRequest returned a timeout", wantWhen), desc)
			return
		}
		if !reflect.DeepEqual(jsonNorm(resp), jsonNorm(want)) {
			desc["got"], desc["want"] = jsonStr(resp), jsonStr(want)
			c.Violation("C19/wrong-response:"+cs.Msgs[wantIdx].Kind, fmt.Sprintf("SendRequest returned %s, the first non-pre-response message %q parses to %s", jsonStr(resp), cs.Msgs[wantIdx].Payload, jsonStr(want)), desc)
			return
		}
	}
	desc["callbacks"] = ncb
	if ncb >= 1 && !reflect.DeepEqual(gotExts, wantExts) && !(len(gotExts) == 0 && len(wantExts) == 0) {
		desc["got_extensions"], desc["want_extensions"] = gotExts, wantExts
		c.Violation("C19/extension-callbacks", fmt.Sprintf("extension callbacks got %v, announced durations before the return were %v", gotExts, wantExts), desc)
	}
	if ncb == 2 {
		emu.Lock()
		got2 := append([]int(nil), exts2...)
		emu.Unlock()
		if !reflect.DeepEqual(got2, gotExts) {
			desc["got_extensions"], desc["got_extensions_second_callback"] = gotExts, got2
			c.Violation("C19/extension-callbacks:second", fmt.Sprintf("the first extension callback got %v, the second %v", gotExts, got2), desc)
		}
	}
	if elapsed < wantWhen-15*time.Millisecond || elapsed > wantWhen+500*time.Millisecond {
		if elapsed > wantWhen+500*time.Millisecond {
			c.Inconclusive(fmt.Sprintf("returned %v after the expected instant %v (machine load?)", elapsed, wantWhen))
		} else {
			c.Violation("C19/returned-too-early", fmt.Sprintf("SendRequest returned after %v, expected not before %v", elapsed, wantWhen), desc)
		}
	}
	if sample {
		c.Sample(desc)
	}
}

// c19ConnErrors: what a failing connection operation may return - including
// errors that already are of the library's error type.
var c19ConnErrors = []error{
	errors.New("injected connection failure"),
	res.ErrTimeout,
	res.ErrNotFound,
	res.ErrAccessDenied,
	&res.Error{Code: "custom.broken", Message: "link down", Data: 1},
	fmt.Errorf("wrapped: %w", res.ErrTimeout),
	nats.ErrConnectionClosed,
	nats.ErrTimeout,
}

func c19Faults(c *core.Ctx, p c19Params) {
	c19Bursts(c)
	for i := 0; i < p.N; i++ {
		kind := []string{"marshal", "subscribe", "publish"}[i%3]
		sc := &scriptConn{done: make(chan struct{}), returned: make(chan struct{})}
		var req interface{} = map[string]int{"a": 1}
		switch kind {
		case "marshal":
			// request values that cannot be marshalled, among them raw JSON that is not JSON
			req = []interface{}{make(chan int), func() {}, badMarshaler{}, json.RawMessage(`{"a":`), json.RawMessage(`nope`), json.RawMessage(`{} x`), json.RawMessage(" \n"),
				map[string]interface{}{"raw": json.RawMessage(`[1,`)}, math.NaN(), &badMarshaler{}}[(i/3)%10]
		case "subscribe":
			sc.subErr = c19ConnErrors[(i/3)%len(c19ConnErrors)]
		case "publish":
			sc.pubErr = c19ConnErrors[(i/3)%len(c19ConnErrors)]
		}
		t0 := time.Now()
		resp := resprot.SendRequest(sc, "call.svc.x.do", req, 800*time.Millisecond)
		elapsed := time.Since(t0)
		c.Eval(1)
		desc := map[string]interface{}{"fault": kind, "response": jsonStr(resp), "elapsed_ms": elapsed.Milliseconds()}
		if kind != "marshal" {
			e := c19ConnErrors[(i/3)%len(c19ConnErrors)]
			desc["connection_error"] = fmt.Sprintf("%T: %v", e, e)
		}
		if resp.Error == nil || resp.Error.Code != res.CodeInternalError {
			c.Violation("C19/fault-not-internal-error:"+kind, fmt.Sprintf("%s failure reported as %s, want system.internalError", kind, jsonStr(resp)), desc)
		}
		if elapsed > 400*time.Millisecond {
			c.Violation("C19/fault-waited:"+kind, fmt.Sprintf("%s failure: SendRequest waited %v instead of returning at once", kind, elapsed), desc)
		}
		sc.mu.Lock()
		subs, pubs := sc.subs, sc.pubs
		sc.mu.Unlock()
		if (kind == "marshal" && (subs != 0 || pubs != 0)) || (kind == "subscribe" && pubs != 0) {
			c.Violation("C19/fault-continued:"+kind, fmt.Sprintf("after a %s failure SendRequest still made %d subscribe and %d publish calls", kind, subs, pubs), desc)
		}
		c.Distinct(fmt.Sprintf("%s/%d", kind, i%(3*len(c19ConnErrors))))
	}
	// nil request is sent as {}
	sc := &scriptConn{cs: c19Case{Msgs: []c19Msg{{At: 0, Kind: "response-result", Payload: `{"result":1}`}}}, done: make(chan struct{}), returned: make(chan struct{})}
	resprot.SendRequest(sc, "get.svc.x", nil, time.Second)
	c.Eval(1)
	if string(sc.published) != "{}" {
		c.Violation("C19/nil-request-payload", fmt.Sprintf("nil request was sent as %q, want {}", sc.published), nil)
	}
	c.Sample(map[string]interface{}{"faults": []string{"marshal", "subscribe", "publish"}})
}

// c19Nats: subscription release on every return path and an end-to-end call.
func c19Nats(c *core.Ctx, p c19Params) {
	ne, err := natsenv.Start()
	if err != nil {
		c.Inconclusive("nats: " + err.Error())
		return
	}
	defer ne.Shutdown()
	// a real service answering with pre-responses
	snc, _ := ne.Connect("service")
	svc := res.NewService("svc")
	svc.SetLogger(&cntLogger{})
	svc.Handle("slow", res.Call("do", func(r res.CallRequest) {
		r.Timeout(600 * time.Millisecond)
		time.Sleep(250 * time.Millisecond)
		r.OK(map[string]string{"took": "long"})
	}), res.Call("fast", func(r res.CallRequest) { r.OK(1) }), res.Call("silent", func(r res.CallRequest) {
		time.Sleep(400 * time.Millisecond)
		r.OK(nil)
	}), res.GetModel(func(r res.ModelRequest) { r.Model(map[string]int{"a": 1}) }))
	// a resource of its own (own worker group, never queued behind the slow handlers)
	// many pre-responses before the reply (a long-running handler that keeps extending)
	svc.Handle("patient", res.Call("do", func(r res.CallRequest) {
		for k := 0; k < 12; k++ {
			r.Timeout(400 * time.Millisecond)
			time.Sleep(4 * time.Millisecond)
		}
		r.OK("finally")
	}))
	svc.Handle("quick", res.Call("burst", func(r res.CallRequest) {
		// the response follows the pre-response while the client is still busy with its
		// extension callback (40 ms). The 5 ms gap keeps the case deterministic on a loaded
		// machine: with both messages in flight before the client waits on its inbox, the
		// one-slot inbox buffer could legitimately overflow.
		r.Timeout(300 * time.Millisecond)
		time.Sleep(5 * time.Millisecond)
		r.OK("pong")
	}))
	svc.SetWorkerCount(8)
	served := make(chan struct{})
	svc.SetOnServe(func(*res.Service) { close(served) })
	ret := make(chan error, 1)
	go func() { ret <- svc.Serve(snc) }()
	select {
	case <-served:
	case <-time.After(10 * time.Second):
		c.Inconclusive("service did not start")
		return
	}
	snc.Flush()
	defer func() { svc.Shutdown(); <-ret }()
	cl, err := ne.Connect("client")
	if err != nil {
		c.Inconclusive("connect: " + err.Error())
		return
	}
	defer cl.Close()
	base := cl.NumSubscriptions()
	check := func(path string) {
		for i := 0; i < 100; i++ {
			if cl.NumSubscriptions() == base {
				return
			}
			time.Sleep(2 * time.Millisecond)
		}
		c.Violation("C19/subscription-not-released:"+path, fmt.Sprintf("after SendRequest returned through the %s path the connection holds %d subscriptions (baseline %d)", path, cl.NumSubscriptions(), base), nil)
	}
	for i := 0; i < p.N; i++ {
		c.Eval(1)
		switch i % 8 {
		case 7: // twelve pre-responses, then the response
			var exts []time.Duration
			r := resprot.SendRequest(cl, "call.svc.patient.do", nil, 300*time.Millisecond, func(d time.Duration) { exts = append(exts, d) })
			var out string
			if err := r.ParseResult(&out); err != nil || out != "finally" {
				c.Violation("C19/e2e-many-pre-responses", fmt.Sprintf("handler sent 12 pre-responses 4 ms apart and then its result: SendRequest returned %s (%d extension callbacks)", jsonStr(r), len(exts)), nil)
			} else if len(exts) != 12 {
				c.Violation("C19/e2e-extension-callback", fmt.Sprintf("12 pre-responses notified the extension callbacks %d times", len(exts)), nil)
			}
			check("many-pre-responses")
		case 6: // the response arrives right behind a pre-response, while the extension callback is still running
			var exts []time.Duration
			t0 := time.Now()
			r := resprot.SendRequest(cl, "call.svc.quick.burst", nil, 200*time.Millisecond, func(d time.Duration) {
				exts = append(exts, d)
				time.Sleep(40 * time.Millisecond)
			})
			var pong string
			if err := r.ParseResult(&pong); err != nil || pong != "pong" {
				c.Violation("C19/e2e-response-behind-pre-response", fmt.Sprintf("handler sent a 300 ms pre-response and, 5 ms later, the response (client busy in its extension callback): SendRequest returned %s after %v", jsonStr(r), time.Since(t0)), nil)
			} else if len(exts) != 1 || exts[0] != 300*time.Millisecond {
				c.Violation("C19/e2e-extension-callback", fmt.Sprintf("extension callbacks %v, want [300ms]", exts), nil)
			}
			check("response-behind-pre-response")
		case 0: // response
			r := resprot.SendRequest(cl, "call.svc.slow.fast", nil, time.Second)
			var n int
			if r.ParseResult(&n) != nil || n != 1 {
				c.Violation("C19/e2e-response", "fast call returned "+jsonStr(r), nil)
			}
			check("response")
		case 1: // pre-response extends the deadline
			var exts []time.Duration
			t0 := time.Now()
			r := resprot.SendRequest(cl, "call.svc.slow.do", nil, 120*time.Millisecond, func(d time.Duration) { exts = append(exts, d) })
			var m map[string]string
			if err := r.ParseResult(&m); err != nil || m["took"] != "long" {
				c.Violation("C19/e2e-extension", fmt.Sprintf("call answered after a 600 ms pre-response returned %s after %v (timeout 120 ms)", jsonStr(r), time.Since(t0)), nil)
			} else if len(exts) != 1 || exts[0] != 600*time.Millisecond {
				c.Violation("C19/e2e-extension-callback", fmt.Sprintf("extension callbacks %v, want [600ms]", exts), nil)
			}
			check("extended-response")
		case 2: // timeout
			r := resprot.SendRequest(cl, "call.svc.slow.silent", nil, 80*time.Millisecond)
			if r.Error == nil || r.Error.Code != res.CodeTimeout {
				c.Violation("C19/e2e-timeout", "call answered after 400 ms with timeout 80 ms returned "+jsonStr(r), nil)
			}
			check("timeout")
		case 3: // publish error (invalid subject)
			r := resprot.SendRequest(cl, "", nil, 200*time.Millisecond)
			if r.Error == nil || r.Error.Code != res.CodeInternalError {
				c.Violation("C19/e2e-publish-error", "publish on an invalid subject returned "+jsonStr(r), nil)
			}
			check("publish-error")
		case 4: // marshal error
			r := resprot.SendRequest(cl, "call.svc.slow.fast", make(chan int), 200*time.Millisecond)
			if r.Error == nil || r.Error.Code != res.CodeInternalError {
				c.Violation("C19/e2e-marshal-error", "unmarshalable request returned "+jsonStr(r), nil)
			}
			check("marshal-error")
		case 5: // subscribe error on a closed connection
			cc, _ := ne.Connect("closed")
			cc.Close()
			r := resprot.SendRequest(cc, "call.svc.slow.fast", nil, 200*time.Millisecond)
			if r.Error == nil || r.Error.Code != res.CodeInternalError {
				c.Violation("C19/e2e-subscribe-error", "request on a closed connection returned "+jsonStr(r), nil)
			}
		}
		c.Distinct(fmt.Sprintf("nats/%d", i%6))
	}
	time.Sleep(450 * time.Millisecond) // let the silent handlers finish
	c.Sample(map[string]interface{}{"paths": []string{"response", "extended-response", "timeout", "publish-error", "marshal-error", "subscribe-error"}})
}
