package props

import (
	"encoding/json"
	"fmt"
	"math/rand"
	"net/url"
	"strings"

	res "github.com/jirenius/go-res"
	"github.com/jirenius/go-res/store"
	"github.com/jirenius/go-res/store/mockstore"

	"verif/harness/internal/core"
	"verif/harness/internal/ref"
)

// C17 - Pattern operations agree with one token-wise grammar.

const c17Alphabet = "ab.$*>? "

type c17Params struct {
	Kind   string `json:"kind"` // enum | random
	MaxLen int    `json:"max_len"`
	Shard  int    `json:"shard"`
	Shards int    `json:"shards"`
	N      int    `json:"n"`
}

func init() {
	core.Register(&core.Prop{
		ID:    "C17",
		Level: "exploration",
		Rule: "patterns/names: every string over {a,b,.,$,*,>,?,space} up to the tier's length (exhaustive) plus seeded random longer strings over a wider alphabet; " +
			"a case is one (pattern,string) pair or one string's validity verdicts; non-trivial = valid pattern containing at least one wildcard token paired with a valid name or valid pattern " +
			"(counted per pair; pairs are disjoint across shards by construction), plus distinct strings whose validity verdicts were cross-checked",
		Assumptions: []string{
			"tokens consisting only of two or more '$' characters are unspecified by the documentation and skipped",
			"behaviour on invalid patterns or invalid names is documented as undefined and only exercised, not asserted",
			"reference grammar in internal/ref/pattern.go is written from doc comments of Pattern, Mux.Handle and the RES protocol",
		},
		Batches: func(seed int64, tier core.Tier) []core.Batch {
			var bs []core.Batch
			maxLen := tierPick(tier, 6, 7)
			shards := tierPick(tier, 16, 64)
			for s := 0; s < shards; s++ {
				bs = append(bs, core.Batch{Name: fmt.Sprintf("enum-%d", s), TimeoutS: 600,
					Params: core.Params(c17Params{Kind: "enum", MaxLen: maxLen, Shard: s, Shards: shards})})
			}
			nr := tierPick(tier, 4, 16)
			for s := 0; s < nr; s++ {
				bs = append(bs, core.Batch{Name: fmt.Sprintf("random-%d", s), TimeoutS: 600,
					Params: core.Params(c17Params{Kind: "random", N: tierPick(tier, 40000, 400000), Shard: s})})
			}
			return bs
		},
		Exhaustive:     func(core.Tier) bool { return false },
		MinEvaluations: func(t core.Tier) int64 { return 100000 },
		Run:            c17Run,
	})
}

func c17Run(c *core.Ctx, b core.Batch) {
	var p c17Params
	json.Unmarshal(b.Params, &p)
	switch p.Kind {
	case "enum":
		c17Enum(c, p)
	case "random":
		c17Random(c, p)
	}
}

// c17Validity cross-checks all validators on one string.
func c17Validity(c *core.Ctx, s string) (validPattern bool) {
	c.Eval(1)
	pv := ref.PatternValidity(s)
	var got bool
	if pn := try(func() { got = res.Pattern(s).IsValid() }); pn != nil {
		c.Violation("C17/isvalid-panics", "Pattern.IsValid panicked", map[string]interface{}{"pattern": s, "panic": fmt.Sprint(pn)})
		return false
	}
	if pv >= 0 && got != (pv == 1) {
		c.Violation("C17/isvalid:"+c17Shape(s), fmt.Sprintf("Pattern(%q).IsValid()=%v, reference grammar says %v", s, got, pv == 1),
			map[string]interface{}{"pattern": s, "got": got, "want": pv == 1})
	}
	// name part
	if g, w := res.VerifIsValidPart(s), ref.ValidNamePart(s); g != w {
		c.Violation("C17/isvalidpart:"+c17Shape(s), fmt.Sprintf("isValidPart(%q)=%v, reference %v", s, g, w), map[string]interface{}{"s": s})
	}
	// path
	if w := ref.ValidPath(s); w >= 0 {
		if g := res.VerifIsValidPath(s); g != (w == 1) {
			c.Violation("C17/isvalidpath:"+c17Shape(s), fmt.Sprintf("isValidPath(%q)=%v, reference %v", s, g, w == 1), map[string]interface{}{"s": s})
		}
		// NewMux accepts exactly valid paths
		pn := try(func() { res.NewMux(s) })
		if (pn == nil) != (w == 1) {
			c.Violation("C17/newmux-path:"+c17Shape(s), fmt.Sprintf("NewMux(%q) panic=%v but path validity is %v", s, pn, w == 1), map[string]interface{}{"s": s})
		}
		// Mount and Route accept exactly valid paths, too (the empty path needs a child with a path of its own)
		if s != "" {
			pn = try(func() { res.NewMux("").Mount(s, res.NewMux("")) })
			if (pn == nil) != (w == 1) {
				c.Violation("C17/mount-path:"+c17Shape(s), fmt.Sprintf("Mount(%q, ...) panic=%v but path validity is %v", s, pn, w == 1), map[string]interface{}{"s": s})
			}
			pn = try(func() { res.NewMux("svc").Route(s, func(m *res.Mux) { m.Handle("x") }) })
			if (pn == nil) != (w == 1) {
				c.Violation("C17/route-path:"+c17Shape(s), fmt.Sprintf("Route(%q, ...) panic=%v but path validity is %v", s, pn, w == 1), map[string]interface{}{"s": s})
			}
		}
	}
	// RID
	if g, w := res.IsValidRID(s), ref.ValidRID(s); g != w {
		c.Violation("C17/isvalidrid:"+c17Shape(s), fmt.Sprintf("IsValidRID(%q)=%v, reference %v", s, g, w), map[string]interface{}{"s": s})
	}
	if g, w := res.Ref(s).IsValid(), ref.ValidRID(s); g != w {
		c.Violation("C17/ref-isvalid:"+c17Shape(s), fmt.Sprintf("Ref(%q).IsValid()=%v, reference %v", s, g, w), map[string]interface{}{"s": s})
	}
	if pv == 1 {
		if g, w := res.Pattern(s).IndexWildcard(), ref.IndexWildcard(s); g != w {
			c.Violation("C17/indexwildcard:"+c17Shape(s), fmt.Sprintf("Pattern(%q).IndexWildcard()=%d, reference %d", s, g, w), map[string]interface{}{"pattern": s})
		}
		c17Registration(c, s)
		c17TagMaps(c, s)
	} else if pv == 0 && s != "" {
		// invalid patterns must be rejected at registration
		m := res.NewMux("")
		if pn := try(func() { m.Handle(s) }); pn == nil {
			c.Violation("C17/register-accepts-invalid:"+c17Shape(s), fmt.Sprintf("Handle(%q) accepted a pattern that IsValid/the grammar reject", s), map[string]interface{}{"pattern": s})
		}
	}
	c.Distinct("v:" + s)
	return pv == 1 && got
}

// c17Registration: a valid pattern with unique placeholder names can be registered.
func c17Registration(c *core.Ctx, s string) {
	if s == "" {
		return
	}
	names := map[string]bool{}
	dup := false
	for _, t := range ref.Tokens(s) {
		if ref.ClassifyToken(t) == ref.TokTag {
			if names[t[1:]] {
				dup = true
			}
			names[t[1:]] = true
		}
	}
	m := res.NewMux("")
	pn := try(func() { m.Handle(s) })
	c.Obs("registrations", 1)
	if dup {
		if pn == nil {
			c.Violation("C17/register-dup-tag", fmt.Sprintf("Handle(%q) accepted a pattern with a duplicated placeholder name", s), map[string]interface{}{"pattern": s})
		}
	} else if pn != nil {
		sig := "C17/register-rejects-valid:" + c17Shape(s)
		c.Violation(sig, fmt.Sprintf("Handle(%q) panicked (%v) although the pattern is valid", s, pn), map[string]interface{}{"pattern": s, "panic": fmt.Sprint(pn)})
	}
	if !dup && pn == nil {
		// a consumer of wildcard indexing at registration: a store.QueryHandler without an
		// AffectedResources callback uses the registered pattern as the resource name and
		// must be refused exactly when the full pattern has a wildcard - in any position,
		// the very first one of an unnamed service included
		for _, name := range []string{"", "svc"} {
			full := mergeDots(name, s)
			wantRefused := ref.IndexWildcard(full) >= 0
			svc := res.NewService(name)
			qpn := try(func() {
				svc.Handle(s, res.Collection, store.QueryHandler{QueryStore: mockstore.NewQueryStore(func(url.Values) (interface{}, error) { return []string{}, nil })})
			})
			c.Obs("query_handler_registrations", 1)
			if wantRefused != (qpn != nil) {
				c.Violation(fmt.Sprintf("C17/query-handler-registration:refused=%v:%s", qpn != nil, c17Shape(full)), fmt.Sprintf("store.QueryHandler without AffectedResources on pattern %q of service %q: refused=%v, the full pattern %q has its first wildcard at index %d", s, name, qpn != nil, full, ref.IndexWildcard(full)), map[string]interface{}{"pattern": s, "service": name, "panic": fmt.Sprint(qpn)})
			}
		}
	}
	// the verdict does not depend on what was registered before: the same pattern on a Mux
	// that already holds handlers sharing every placeholder position with it (other tag
	// names, anonymous placeholders, a deeper literal), directly and through a mounted Mux
	toks := ref.Tokens(s)
	hasPH := false
	for _, t := range toks {
		if k := ref.ClassifyToken(t); k == ref.TokTag || k == ref.TokAnon {
			hasPH = true
		}
	}
	if !hasPH {
		return
	}
	if ref.ClassifyToken(toks[len(toks)-1]) == ref.TokFull {
		toks = toks[:len(toks)-1]
	}
	renamed, anon := make([]string, len(toks)), make([]string, len(toks))
	for i, t := range toks {
		renamed[i], anon[i] = t, t
		if k := ref.ClassifyToken(t); k == ref.TokTag || k == ref.TokAnon {
			renamed[i], anon[i] = fmt.Sprintf("$shadow%d", i), "*"
		}
	}
	shadows := []string{strings.Join(renamed, ".") + ".shadow", strings.Join(anon, ".") + ".shadow.deeper"}
	for _, mounted := range []bool{false, true} {
		m, target := res.NewMux(""), s
		var prep interface{}
		if mounted {
			sub := res.NewMux("")
			prep = try(func() {
				for _, sh := range shadows {
					sub.Handle(sh)
				}
				m.Mount("sub", sub)
			})
			target = "sub." + s
		} else {
			prep = try(func() {
				for _, sh := range shadows {
					m.Handle(sh)
				}
			})
		}
		if prep != nil {
			c.Violation("C17/register-rejects-valid:shadow", fmt.Sprintf("registering %q panicked (%v) although the patterns are valid", shadows, prep), map[string]interface{}{"patterns": shadows, "mounted": mounted})
			return
		}
		pn := try(func() { m.Handle(target) })
		c.Obs("registrations_on_populated_mux", 1)
		w := map[string]interface{}{"pattern": target, "registered_before": shadows, "through_mounted_mux": mounted}
		if dup && pn == nil {
			c.Violation("C17/register-dup-tag:after-earlier-registrations", fmt.Sprintf("Handle(%q) accepted a pattern with a duplicated placeholder name on a Mux that already held %q", target, shadows), w)
			return
		}
		if !dup && pn != nil {
			w["panic"] = fmt.Sprint(pn)
			c.Violation("C17/register-rejects-valid:after-earlier-registrations", fmt.Sprintf("Handle(%q) panicked (%v) on a Mux that already held %q although the pattern is valid and distinct from them", target, pn, shadows), w)
			return
		}
	}
}

// c17TagValues are what a tag map may hold for a tag: any string, the empty one included.
var c17TagValues = []string{"", "v", "a.b", "$y", ">", "*"}

// c17TagMaps: tag replacement with every tag map over a few values - present entries are
// substituted whatever their value, absent ones left alone; the single-tag form agrees.
func c17TagMaps(c *core.Ctx, p string) {
	var tags []string
	seen := map[string]bool{}
	for _, t := range ref.Tokens(p) {
		if ref.ClassifyToken(t) == ref.TokTag && !seen[t[1:]] {
			seen[t[1:]] = true
			tags = append(tags, t[1:])
		}
	}
	if len(tags) == 0 || len(tags) > 3 {
		return
	}
	n := len(c17TagValues) + 1 // the last choice: the tag is absent from the map
	total := 1
	for range tags {
		total *= n
	}
	for code := 0; code < total; code++ {
		m := map[string]string{"unrelated": "x"}
		x := code
		for _, t := range tags {
			if k := x % n; k < len(c17TagValues) {
				m[t] = c17TagValues[k]
			}
			x /= n
		}
		c.Obs("tag_maps", 1)
		got, want := string(res.Pattern(p).ReplaceTags(m)), ref.ReplaceTags(p, m)
		if got != want {
			c.Violation("C17/replacetags:tag-map:"+c17Shape(p), fmt.Sprintf("Pattern(%q).ReplaceTags(%v)=%q, reference %q", p, m, got, want), map[string]interface{}{"pattern": p, "tags": m, "got": got, "want": want})
			return
		}
	}
	for _, v := range c17TagValues {
		got, want := string(res.Pattern(p).ReplaceTag(tags[0], v)), ref.ReplaceTags(p, map[string]string{tags[0]: v})
		if got != want {
			c.Violation("C17/replacetag:tag-map:"+c17Shape(p), fmt.Sprintf("Pattern(%q).ReplaceTag(%q,%q)=%q, reference %q", p, tags[0], v, got, want), map[string]interface{}{"pattern": p, "tag": tags[0], "value": v})
			return
		}
	}
}

func c17DupTags(p string) bool {
	names := map[string]bool{}
	for _, t := range ref.Tokens(p) {
		if ref.ClassifyToken(t) == ref.TokTag {
			if names[t[1:]] {
				return true
			}
			names[t[1:]] = true
		}
	}
	return false
}

// c17Shape abstracts a string to the shape of its tokens so that signatures
// identify a class of inputs: l literal, $ tag, * anon, > full, m literal with a
// mid-token special, ? other.
func c17Shape(s string) string {
	if s == "" {
		return "<empty>"
	}
	var out []string
	for _, t := range strings.Split(s, ".") {
		switch ref.ClassifyToken(t) {
		case ref.TokLiteral:
			if strings.ContainsAny(t, "$") {
				out = append(out, "m")
			} else {
				out = append(out, "l")
			}
		case ref.TokTag:
			if strings.ContainsAny(t[1:], "$") {
				out = append(out, "$m")
			} else {
				out = append(out, "$")
			}
		case ref.TokAnon:
			out = append(out, "*")
		case ref.TokFull:
			out = append(out, ">")
		case ref.TokUnspecified:
			out = append(out, "$$")
		default:
			if t == "" {
				out = append(out, "E")
			} else {
				out = append(out, "?")
			}
		}
	}
	if len(out) > 6 {
		out = append(out[:6], "+")
	}
	return strings.Join(out, ".")
}

// c17PairSig builds the signature of a pair-relation violation: the class of
// the defect when it can be told from the witness, else the pattern's shape.
func c17PairSig(kind, p, s string) string {
	mid := false
	for _, t := range ref.Tokens(p) {
		if len(t) > 1 && strings.Contains(t[1:], "$") {
			mid = true
		}
	}
	if mid {
		return "C17/" + kind + ":pattern-has-midtoken-dollar"
	}
	return "C17/" + kind + ":" + c17Shape(p) + "~" + c17Shape(s)
}

// c17Pair checks all relations for a valid pattern p against a valid string s
// (a resource name when it has no wildcards, else a pattern).
func c17Pair(c *core.Ctx, p, s string, sIsName bool) {
	c.Eval(1)
	wantVals, want := ref.Match(p, s)
	var got bool
	if pn := try(func() { got = res.Pattern(p).Matches(s) }); pn != nil {
		c.Violation("C17/matches-panics", "Pattern.Matches panicked on valid input", map[string]interface{}{"pattern": p, "s": s, "panic": fmt.Sprint(pn)})
		return
	}
	if got != want {
		c.Violation(c17PairSig("matches", p, s), fmt.Sprintf("Pattern(%q).Matches(%q)=%v, token-wise reference says %v", p, s, got, want),
			map[string]interface{}{"pattern": p, "s": s, "got": got, "want": want})
	}
	if !sIsName {
		return
	}
	var gotVals map[string]string
	var ok bool
	if pn := try(func() { gotVals, ok = res.Pattern(p).Values(s) }); pn != nil {
		c.Violation("C17/values-panics", "Pattern.Values panicked on valid input", map[string]interface{}{"pattern": p, "s": s, "panic": fmt.Sprint(pn)})
		return
	}
	if ok != got {
		c.Violation(c17PairSig("matches-vs-values", p, s), fmt.Sprintf("Pattern(%q): Matches(%q)=%v but Values ok=%v", p, s, got, ok),
			map[string]interface{}{"pattern": p, "s": s, "matches": got, "values_ok": ok})
	}
	if ok != want {
		c.Violation(c17PairSig("values-ok", p, s), fmt.Sprintf("Pattern(%q).Values(%q) ok=%v, reference %v", p, s, ok, want),
			map[string]interface{}{"pattern": p, "s": s})
		return
	}
	if !ok {
		if gotVals != nil {
			c.Violation("C17/values-nonnil-on-mismatch", fmt.Sprintf("Pattern(%q).Values(%q) returned a non-nil map with ok=false", p, s), map[string]interface{}{"pattern": p, "s": s})
		}
		return
	}
	if !mapsEqual(gotVals, wantVals) {
		c.Violation(c17PairSig("values", p, s), fmt.Sprintf("Pattern(%q).Values(%q)=%v, reference %v", p, s, gotVals, wantVals),
			map[string]interface{}{"pattern": p, "s": s, "got": gotVals, "want": wantVals})
		return
	}
	// substitute back (only defined when placeholder names are unique: with a
	// duplicated name the extracted map can hold only one of the values)
	if c17DupTags(p) {
		return
	}
	back := string(res.Pattern(p).ReplaceTags(gotVals))
	if rb := ref.ReplaceTags(p, gotVals); rb != back {
		c.Violation("C17/replacetags:"+c17Shape(p), fmt.Sprintf("Pattern(%q).ReplaceTags(%v)=%q, reference %q", p, gotVals, back, rb),
			map[string]interface{}{"pattern": p, "tags": gotVals, "got": back, "want": rb})
	}
	if !ref.HasAnon(p) {
		if back != s {
			c.Violation("C17/substitute-identity:"+c17Shape(p), fmt.Sprintf("Pattern(%q) with extracted values %v substituted back gives %q, not the name %q", p, gotVals, back, s),
				map[string]interface{}{"pattern": p, "s": s, "back": back})
		}
	} else if ref.PatternValidity(back) == 1 {
		if !res.Pattern(back).Matches(s) {
			c.Violation("C17/substitute-matches:"+c17Shape(p), fmt.Sprintf("Pattern(%q) substituted back gives %q which does not match %q", p, back, s),
				map[string]interface{}{"pattern": p, "s": s, "back": back})
		}
	}
	// single-tag replacement agrees with the map form
	for k, v := range gotVals {
		one := string(res.Pattern(p).ReplaceTag(k, v))
		if w := ref.ReplaceTags(p, map[string]string{k: v}); one != w {
			c.Violation("C17/replacetag:"+c17Shape(p), fmt.Sprintf("Pattern(%q).ReplaceTag(%q,%q)=%q, reference %q", p, k, v, one, w),
				map[string]interface{}{"pattern": p, "tag": k, "value": v})
		}
		break
	}
}

func c17Enum(c *core.Ctx, p c17Params) {
	var all []string
	ref.EnumStrings(c17Alphabet, p.MaxLen, func(_ int, s string) { all = append(all, s) })
	var pats, names, validStrs []string
	for i, s := range all {
		mine := i%p.Shards == p.Shard
		pv := ref.PatternValidity(s)
		if mine {
			c17Validity(c, s)
		}
		if pv == 1 && s != "" {
			validStrs = append(validStrs, s)
			if mine {
				pats = append(pats, s)
			}
			if !ref.HasWildcard(s) || ref.ValidName(s) {
				_ = names
			}
		}
	}
	if p.Shard == 0 {
		// every byte value in every position of a short name, so that the limits of the
		// allowed character range (33 and 126) and their neighbours are hit
		for b := 0; b < 256; b++ {
			ch := string([]byte{byte(b)})
			for _, t := range []string{ch, "a" + ch, ch + "a", "a." + ch + "b", "a" + ch + ".b", "a.b?" + ch, "ab." + ch} {
				c17Validity(c, t)
			}
		}
		c.Obs("byte_sweep_strings", 256*7)
	}
	var nontrivial int64
	for _, pat := range pats {
		wild := ref.HasWildcard(pat)
		for _, s := range validStrs {
			isName := ref.ValidName(s)
			c17Pair(c, pat, s, isName)
			if wild {
				nontrivial++
			}
		}
	}
	c.DistinctN(nontrivial)
	c.Obs("valid_patterns_in_shard", int64(len(pats)))
	c.Obs("valid_strings", 0)
	c.Max("valid_strings_total", int64(len(validStrs)))
	c.Max("strings_total", int64(len(all)))
	if len(pats) > 2 {
		c.Sample(map[string]interface{}{"pattern": pats[len(pats)/2], "against": validStrs[len(validStrs)/3], "matches": res.Pattern(pats[len(pats)/2]).Matches(validStrs[len(validStrs)/3])})
	}
}

const c17WideAlphabet = "abcxyz019_-{}$$$***>>...??  \t\x7f\x00é"

func c17RandString(r *rand.Rand, maxTok, maxTokLen int, hostile bool) string {
	n := 1 + r.Intn(maxTok)
	toks := make([]string, n)
	for i := range toks {
		switch k := r.Intn(10); {
		case k < 2:
			toks[i] = "$" + c17RandLit(r, maxTokLen, hostile)
		case k == 2:
			toks[i] = "*"
		case k == 3 && i == n-1:
			toks[i] = ">"
		default:
			toks[i] = c17RandLit(r, maxTokLen, hostile)
		}
	}
	return strings.Join(toks, ".")
}

func c17RandLit(r *rand.Rand, maxLen int, hostile bool) string {
	n := 1 + r.Intn(maxLen)
	if hostile && r.Intn(8) == 0 {
		n = 0
	}
	b := make([]byte, 0, n)
	for i := 0; i < n; i++ {
		if hostile && r.Intn(6) == 0 {
			b = append(b, c17WideAlphabet[r.Intn(len(c17WideAlphabet))])
		} else {
			b = append(b, "abcdxyz0123456789_-"[r.Intn(19)])
		}
	}
	return string(b)
}

// c17Instantiate builds a name matching valid pattern p (or a near miss).
func c17Instantiate(r *rand.Rand, p string, nearMiss bool) string {
	toks := strings.Split(p, ".")
	var out []string
	for _, t := range toks {
		switch ref.ClassifyToken(t) {
		case ref.TokTag, ref.TokAnon:
			out = append(out, c17RandLit(r, 4, false))
		case ref.TokFull:
			for k := 0; k <= r.Intn(3); k++ {
				out = append(out, c17RandLit(r, 3, false))
			}
		default:
			out = append(out, t)
		}
	}
	if nearMiss && len(out) > 0 {
		switch r.Intn(4) {
		case 0:
			out = out[:len(out)-1]
		case 1:
			out = append(out, "x")
		case 2:
			i := r.Intn(len(out))
			out[i] = out[i] + "x"
		case 3:
			i := r.Intn(len(out))
			out[i] = "$" + out[i]
		}
	}
	return strings.Join(out, ".")
}

func c17Random(c *core.Ctx, p c17Params) {
	r := c.Rand
	var nontrivial int64
	for i := 0; i < p.N; i++ {
		hostile := i%3 == 0
		pat := c17RandString(r, 6, 5, hostile)
		valid := c17Validity(c, pat)
		if !valid {
			continue
		}
		// names: instantiations, near misses and independent random strings
		for k := 0; k < 4; k++ {
			var s string
			switch k {
			case 0:
				s = c17Instantiate(r, pat, false)
			case 1, 2:
				s = c17Instantiate(r, pat, true)
			default:
				s = c17RandString(r, 6, 4, false)
			}
			if ref.PatternValidity(s) != 1 || s == "" {
				continue
			}
			c17Pair(c, pat, s, ref.ValidName(s))
			if ref.HasWildcard(pat) {
				nontrivial++
				c.Distinct("p:" + pat + "|" + s)
			}
		}
		// id transformer round trip through routing
		if i%8 == 0 {
			c17Transformer(c, r)
		}
		if i%16 == 0 {
			c17MultiRouting(c, r)
		}
		if i == 7 {
			c.Sample(map[string]interface{}{"random_pattern": pat, "instantiation": c17Instantiate(r, pat, false)})
		}
	}
	_ = nontrivial
}

// c17MultiRouting: routing agrees with matching when several overlapping patterns are
// registered: a name is routed to some handler exactly when some registered pattern
// matches it (Pattern.Matches and the reference grammar agreeing on that), and the
// pattern it is routed to is one that matches.
func c17MultiRouting(c *core.Ctx, r *rand.Rand) {
	m := res.NewMux("svc")
	var pats []string
	for len(pats) < 4 {
		p := c06RandPattern(r)
		if p == "" {
			continue
		}
		marker := fmt.Sprintf("m%d", len(pats))
		if pn := try(func() { m.AddHandler(p, res.Handler{Call: map[string]res.CallHandler{marker: nil}}) }); pn != nil {
			continue // conflicts with one registered before: not part of this set
		}
		pats = append(pats, "svc."+p)
	}
	for _, p := range pats {
		for k := 0; k < 4; k++ {
			name := c17Instantiate(r, p, k == 3)
			if k == 2 {
				// bias towards tokens that are literals of the other patterns
				toks := strings.Split(name, ".")
				other := ref.Tokens(pats[r.Intn(len(pats))])
				if j := 1 + r.Intn(len(toks)); j < len(toks) && j < len(other) && ref.ClassifyToken(other[j]) == ref.TokLiteral {
					toks[j] = other[j]
					name = strings.Join(toks, ".")
				}
			}
			if !ref.ValidName(name) {
				continue
			}
			c.Eval(1)
			c.Obs("multi_pattern_routing_names", 1)
			var matching []string
			for i, q := range pats {
				_, want := ref.Match(q, name)
				if got := res.Pattern(q).Matches(name); got != want {
					c.Violation("C17/matches:"+c17Shape(q), fmt.Sprintf("Pattern(%q).Matches(%q)=%v, reference %v", q, name, got, want), map[string]interface{}{"pattern": q, "name": name})
					return
				}
				if want {
					matching = append(matching, fmt.Sprintf("m%d", i))
				}
			}
			var mh *res.Match
			if pn := try(func() { mh = m.GetHandler(name) }); pn != nil {
				c.Violation("C17/routing-panics", fmt.Sprintf("GetHandler(%q) panicked: %v", name, pn), map[string]interface{}{"patterns": pats, "name": name})
				return
			}
			routed := ""
			if mh != nil {
				for k := range mh.Handler.Call {
					routed = k
				}
			}
			ok := (mh == nil) == (len(matching) == 0)
			if ok && mh != nil {
				ok = false
				for _, x := range matching {
					ok = ok || x == routed
				}
			}
			if !ok {
				c.Violation("C17/routing-vs-matching:several-patterns", fmt.Sprintf("patterns %q: name %q is matched by %v but routed to %q", pats, name, matching, routed),
					map[string]interface{}{"patterns": pats, "name": name, "matching": matching, "routed_to": routed})
				return
			}
		}
	}
}

// c17Transformer: IDToRID then routing + RIDToID is the identity on valid parts.
func c17Transformer(c *core.Ctx, r *rand.Rand) {
	id := c17RandLit(r, 6, true)
	if r.Intn(5) == 0 {
		id = "$" + id
	}
	c.Eval(1)
	validPart := ref.ValidNamePart(id)
	pattern := "svc." + c17RandLit(r, 3, false) + ".$id"
	switch r.Intn(4) {
	case 0:
		pattern = "svc.$id." + c17RandLit(r, 3, false)
	case 1:
		// the text "$id" inside a literal token is not the placeholder
		if r.Intn(2) == 0 {
			pattern = "svc." + c17RandLit(r, 2, false) + "$id.$id"
		} else {
			pattern = "svc.$id.x$id" + c17RandLit(r, 2, false)
		}
	}
	tr := store.IDTransformer("id", nil)
	rid := tr.IDToRID(id, nil, res.Pattern(pattern))
	if !validPart {
		return
	}
	c.Obs("transformer_roundtrips", 1)
	if !res.IsValidRID(rid) {
		c.Violation("C17/idtorid-invalid-rid", fmt.Sprintf("IDToRID(%q) on pattern %q gives %q which IsValidRID rejects although the id is a valid name part", id, pattern, rid),
			map[string]interface{}{"id": id, "pattern": pattern, "rid": rid})
		return
	}
	m := res.NewMux("svc")
	if pn := try(func() { m.Handle(strings.TrimPrefix(pattern, "svc.")) }); pn != nil {
		c.Violation("C17/transformer-register", fmt.Sprintf("Handle(%q) panicked: %v", pattern, pn), map[string]interface{}{"pattern": pattern})
		return
	}
	var mh *res.Match
	if pn := try(func() { mh = m.GetHandler(rid) }); pn != nil {
		c.Violation("C17/transformer-lookup-panic", fmt.Sprintf("GetHandler(%q) panicked: %v", rid, pn), map[string]interface{}{"rid": rid})
		return
	}
	if mh == nil {
		c.Violation("C17/transformer-no-route", fmt.Sprintf("rid %q produced by IDToRID from id %q and pattern %q is not routed to that pattern", rid, id, pattern),
			map[string]interface{}{"id": id, "pattern": pattern, "rid": rid})
		return
	}
	// routing agrees with matching on names around the produced rid, in particular at the
	// boundary between the Mux path and the rest of the name
	for _, nm := range []string{"svc" + string("x$-_~"[r.Intn(5)]) + rid[4:], "svc" + rid[4:], "sv." + rid[4:], "svcc." + rid[4:], rid + ".x", "svc", "svc."} {
		if !ref.ValidName(nm) {
			continue
		}
		_, want := ref.Match(pattern, nm)
		var got *res.Match
		if pn := try(func() { got = m.GetHandler(nm) }); pn != nil {
			continue
		}
		c.Obs("routing_vs_matching_names", 1)
		if (got != nil) != want {
			c.Violation("C17/routing-vs-matching", fmt.Sprintf("a Mux with path svc and the single pattern %q routes %q: %v, but Pattern.Matches says %v", pattern, nm, got != nil, want),
				map[string]interface{}{"pattern": pattern, "name": nm})
			break
		}
	}
	back := tr.RIDToID(rid, mh.Params)
	if back != id {
		c.Violation("C17/transformer-roundtrip", fmt.Sprintf("id %q -> rid %q -> id %q", id, rid, back), map[string]interface{}{"id": id, "pattern": pattern, "rid": rid, "back": back})
	}
	// the same round trip with the pattern a handler is told at registration (what a store
	// handler feeds the transformer with), the tree of Mux values being put together
	// bottom-up and attached to the service last
	toks := ref.Tokens(strings.TrimPrefix(pattern, "svc."))
	inner, mid, svc := res.NewMux(""), res.NewMux(""), res.NewService("svc")
	var told []string
	if pn := try(func() {
		inner.AddHandler(strings.Join(toks, "."), res.Handler{OnRegister: func(_ *res.Service, p res.Pattern, _ res.Handler) { told = append(told, string(p)) }})
		mid.Mount("sub", inner)
		svc.Mount("lib", mid)
	}); pn != nil {
		c.Violation("C17/transformer-register", fmt.Sprintf("registering %q bottom-up panicked: %v", pattern, pn), map[string]interface{}{"pattern": pattern})
		return
	}
	full := "svc.lib.sub." + strings.Join(toks, ".")
	c.Obs("transformer_roundtrips_registered_pattern", 1)
	if len(told) != 1 || told[0] != full {
		c.Violation("C17/registered-pattern", fmt.Sprintf("the handler registered (bottom-up) as %q was told %q by OnRegister", full, told), map[string]interface{}{"pattern": full, "told": told})
		return
	}
	// a listener registered on the same positions under another tag name makes the handler's
	// registration a conflict (routing could report only one of the two names, and the id
	// transformer looks the id up under the handler's); with the same name both are accepted
	rel := strings.Join(toks, ".")
	for _, same := range []bool{false, true} {
		lp := rel
		if !same {
			lt := append([]string{}, toks...)
			for i, t := range lt {
				if t == "$id" {
					lt[i] = "$key"
				}
			}
			lp = strings.Join(lt, ".")
		}
		m3 := res.NewMux("svc")
		pn := try(func() {
			m3.AddListener(lp, func(*res.Event) {})
			m3.Handle(rel)
		})
		c.Obs("listener_then_handler_registrations", 1)
		if !same && pn == nil {
			c.Violation("C17/register-accepts-tag-conflict", fmt.Sprintf("AddListener(%q) then Handle(%q) were both accepted: the same position under two placeholder names", lp, rel), map[string]interface{}{"listener": lp, "handler": rel})
			return
		}
		if same {
			var mh3 *res.Match
			if pn == nil {
				pn = try(func() { mh3 = m3.GetHandler(rid) })
			}
			if pn != nil || mh3 == nil || tr.RIDToID(rid, mh3.Params) != id {
				c.Violation("C17/transformer-roundtrip:listener-first", fmt.Sprintf("listener and handler on %q (listener first): rid %q is not routed back to id %q (panic: %v)", rel, rid, id, pn), map[string]interface{}{"pattern": rel, "rid": rid})
				return
			}
		}
	}
	rid2 := tr.IDToRID(id, nil, res.Pattern(told[0]))
	var mh2 *res.Match
	if pn := try(func() { mh2 = svc.GetHandler(rid2) }); pn != nil || mh2 == nil || tr.RIDToID(rid2, mh2.Params) != id {
		c.Violation("C17/transformer-roundtrip:registered-pattern", fmt.Sprintf("id %q -> rid %q (pattern %q as told to OnRegister) is not routed back to the id", id, rid2, told[0]),
			map[string]interface{}{"id": id, "pattern": told[0], "rid": rid2})
	}
}
