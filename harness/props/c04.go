package props

import (
	"encoding/json"
	"fmt"
	"strings"
	"sync"
	"sync/atomic"
	"time"

	res "github.com/jirenius/go-res"
	"github.com/jirenius/go-res/logger"
	"github.com/jirenius/go-res/store"

	nats "github.com/nats-io/nats.go"
	"verif/harness/internal/core"
	"verif/harness/internal/natsenv"
	"verif/harness/internal/ref"
	"verif/harness/internal/sched"
	"verif/harness/internal/vconn"
)

// C04 - Every request gets exactly one response, whatever the handler does.

type c04Params struct {
	Kind    string `json:"kind"` // enum | random | concurrent
	RType   string `json:"rtype"`
	Shard   int    `json:"shard"`
	Shards  int    `json:"shards"`
	N       int    `json:"n"`
	Workers int    `json:"workers"`
}

func init() {
	core.Register(&core.Prop{
		ID:    "C04",
		Level: "exploration",
		Rule: "a case is one request (type x resource pattern x handler behaviour script x payload x isHttp) delivered to a real Service on the recording connection; the oracle counts non-pre-response messages on the request's unique reply inbox once the request.done hook fired; " +
			"scripts: every script of <=2 actions over the per-type action alphabet (reply variants incl. unmarshalable values, second reply, Timeout, events, nested Value, panics of 8 kinds, meta) plus seeded random scripts up to length 5, run sequentially and concurrently (2-32 workers, race build); " +
			"distinct non-trivial = distinct (type, pattern, script, payload kind) tuples whose script does something other than a single plain reply",
		Assumptions: []string{
			"an access request with malformed payload to a pattern without access handler may be answered (error) or not; both accepted",
			"absence of a reply is final once the verif hook request.done fired for the request",
			"the probe request after each script shows the service is still up",
		},
		Batches: func(seed int64, tier core.Tier) []core.Batch {
			var bs []core.Batch
			for _, rt := range []string{"access", "get", "call", "auth", "new"} {
				shards := tierPick(tier, 1, 4)
				for s := 0; s < shards; s++ {
					bs = append(bs, core.Batch{Name: fmt.Sprintf("enum-%s-%d", rt, s), TimeoutS: 600,
						Params: core.Params(c04Params{Kind: "enum", RType: rt, Shard: s, Shards: shards, N: tierPick(tier, 1, 2)})})
				}
			}
			for s := 0; s < tierPick(tier, 4, 16); s++ {
				bs = append(bs, core.Batch{Name: fmt.Sprintf("random-%d", s), TimeoutS: 600,
					Params: core.Params(c04Params{Kind: "random", Shard: s, N: tierPick(tier, 4000, 40000)})})
			}
			bs = append(bs, core.Batch{Name: "nats-bursts", TimeoutS: 300, Params: core.Params(c04Params{Kind: "nats", N: tierPick(tier, 3, 12)})})
			for i, w := range []int{1, 2, 8, 32} {
				if tier == core.Quick && i%2 == 0 {
					continue
				}
				bs = append(bs, core.Batch{Name: fmt.Sprintf("concurrent-w%d", w), TimeoutS: 600,
					Params: core.Params(c04Params{Kind: "concurrent", Workers: w, N: tierPick(tier, 8000, 40000)})})
				bs = append(bs, core.Batch{Name: fmt.Sprintf("concurrent-race-w%d", w), TimeoutS: 900, Race: true,
					Params: core.Params(c04Params{Kind: "concurrent", Workers: w, N: tierPick(tier, 3000, 15000)})})
			}
			return bs
		},
		MinEvaluations: func(t core.Tier) int64 { return 3000 },
		Run:            c04Run,
	})
}

// scriptTable maps script ids (a resource name token) to scripts.
type scriptEntry struct {
	sc    script
	getSc script
}

type scriptTable struct {
	m   sync.Map
	ran sync.Map // ids whose main script was started by a handler
	n   int64
}

func (t *scriptTable) add(e scriptEntry) string {
	id := fmt.Sprintf("s%d", atomic.AddInt64(&t.n, 1))
	t.m.Store(id, e)
	return id
}

func (t *scriptTable) get(id string) scriptEntry {
	v, ok := t.m.Load(id)
	if !ok {
		return scriptEntry{sc: script{{Op: "reply", K: "notfound"}}, getSc: script{{Op: "reply", K: "notfound"}}}
	}
	return v.(scriptEntry)
}

func (t *scriptTable) del(id string) { t.m.Delete(id) }

// scriptedService registers the scripted handlers on s.
func scriptedService(s *res.Service, tbl *scriptTable, onEnter func(kind string, r res.Resource)) {
	run := func(kind, rtype string) func(rq interface{}) {
		return func(rq interface{}) {
			rs := rq.(res.Resource)
			e := tbl.get(rs.PathParam("id"))
			if onEnter != nil {
				onEnter(kind, rs)
			}
			sc := e.sc
			if _, isReq := rq.(*res.Request); !isReq {
				sc = e.getSc // invoked through Value()/RequireValue()
			} else {
				tbl.ran.Store(rs.PathParam("id"), kind)
			}
			runScript(rq, sc, &scriptEnv{rtype: rtype, getScript: e.getSc})
		}
	}
	access := res.Access(func(r res.AccessRequest) { run("access", "access")(r) })
	getM := res.GetModel(func(r res.ModelRequest) { run("get", "get")(r) })
	getC := res.GetCollection(func(r res.CollectionRequest) { run("get", "get")(r) })
	getU := res.GetResource(func(r res.GetRequest) { run("get", "get")(r) })
	call := res.Call("do", func(r res.CallRequest) { run("call:do", "call")(r) })
	callStar := res.Call("*", func(r res.CallRequest) { run("call:*", "call")(r) })
	callNew := res.Call("new", func(r res.CallRequest) { run("call:new", "call")(r) })
	auth := res.Auth("login", func(r res.AuthRequest) { run("auth:login", "auth")(r) })
	authStar := res.Auth("*", func(r res.AuthRequest) { run("auth:*", "auth")(r) })
	newH := res.New(func(r res.NewRequest) { run("new", "new")(r) })

	s.Handle("m.$id", access, getM, call, auth, newH)
	s.Handle("c.$id", access, getC, call, auth, newH)
	s.Handle("u.$id", access, getU, call, callStar, auth, authStar, newH)
	s.Handle("noaccess.$id", getM, call, auth)
	s.Handle("star.$id", access, getM, callStar, authStar)
	// hot groups: many resources sharing three worker groups (contention inside a group)
	s.Handle("h.$b.$id", access, getM, call, auth, newH, res.Group("hot.${b}"))
	s.Handle("bare.$id")
	s.Handle("callnew.$id", access, callNew, call)
	s.Handle("probe", res.GetModel(func(r res.ModelRequest) { r.Model(map[string]int{"up": 1}) }), res.Access(res.AccessGranted))
}

type c04Req struct {
	RType   string `json:"rtype"`
	Subject string `json:"subject"`
	Pattern string `json:"pattern"`
	Script  string `json:"script"`
	GetScr  string `json:"get_script,omitempty"`
	Payload string `json:"payload"`
}

var c04Payloads = []struct{ kind, data string }{
	{"valid", `{"cid":"abc","token":{"u":1},"params":{"a":1},"query":"x=1"}`},
	{"http", `{"cid":"abc","isHttp":true,"params":{"a":1},"header":{"A":["b"]},"host":"h","remoteAddr":"1.2.3.4","uri":"/x"}`},
	{"empty", ``},
	{"emptyobj", `{}`},
	{"malformed", `{"cid":`},
	{"notjson", `nope`},
	{"array", `[1,2]`},
	{"wrongtype", `{"cid":5}`},
	{"null", `null`},
	{"ws", "  \n"},
}

// c04Subject builds the subject for a request type on pattern/id.
func c04Subject(rtype, pattern, id, method string) string {
	rn := "svc." + pattern + "." + id
	switch rtype {
	case "access":
		return "access." + rn
	case "get":
		return "get." + rn
	case "call":
		return "call." + rn + "." + method
	case "auth":
		return "auth." + rn + "." + method
	case "new":
		return "call." + rn + ".new"
	}
	return rtype + "." + rn
}

// c04Expect returns the set of acceptable response counts.
func c04Expect(rtype, pattern, payloadKind string) (min, max int) {
	if rtype == "access" && (pattern == "noaccess" || pattern == "bare") {
		switch payloadKind {
		case "malformed", "notjson", "array", "wrongtype", "ws":
			return 0, 1
		}
		return 0, 0
	}
	return 1, 1
}

type c04Runner struct {
	c        *core.Ctx
	rig      *rig
	tbl      *scriptTable
	validate bool     // C07: run the protocol validator over everything published
	inboxes  sync.Map // inbox -> isHTTP
	vmu      sync.Mutex
	vpos     int
}

// validateNew runs the independent protocol validator over all messages
// published since the last call.
func (rn *c04Runner) validateNew(req interface{}) {
	if !rn.validate {
		return
	}
	rn.vmu.Lock()
	defer rn.vmu.Unlock()
	log := rn.rig.C.Since(rn.vpos)
	rn.vpos += len(log)
	validateMsgs(rn.c, log, func(subject string) (bool, bool) {
		v, ok := rn.inboxes.Load(subject)
		if !ok {
			return false, false
		}
		return v.(bool), true
	}, req)
}

// validateMsgs checks subjects and payload shapes of published messages.
func validateMsgs(c *core.Ctx, log []vconn.Msg, inboxes func(string) (bool, bool), req interface{}) {
	for _, m := range log {
		c.Obs("validated_messages", 1)
		if m.Subject == "conn..token" {
			// token event on a request without connection id: outside the
			// property's quantifier (protocol-conformant connection ids)
			c.Obs("skipped_empty_cid", 1)
			continue
		}
		kind, probs := ref.ValidateMessage(m.Subject, m.Data, ref.MsgCtx{Inboxes: inboxes})
		c.Obs("kind:"+kind, 1)
		c.SetAdd("message_kinds", kind)
		if len(probs) > 0 {
			c.Violation("C07/"+kind+":"+probs[0], fmt.Sprintf("published message on %q is not protocol-conformant: %v; payload %s", m.Subject, probs, short(m.Payload, 300)),
				map[string]interface{}{"subject": m.Subject, "payload": m.Payload, "problems": probs, "request": req})
		}
	}
}

// checkUnmarshalable: when the first action of the script is a reply carrying
// a value that cannot be marshalled, the response must be system.internalError.
func (rn *c04Runner) checkUnmarshalable(req c04Req, rtype string, sc script, pk string, resp vconn.Msg) {
	if len(sc) == 0 || sc[0].Op != "reply" || !unmarshalableKinds[sc[0].V] {
		return
	}
	switch pk {
	case "valid", "http", "empty", "emptyobj", "null":
	default:
		return
	}
	switch sc[0].K {
	case "ok", "model", "querymodel", "collection", "querycollection":
	default:
		return
	}
	rn.c.Obs("unmarshalable_replies", 1)
	var r struct {
		Error *struct {
			Code string `json:"code"`
		} `json:"error"`
	}
	if err := json.Unmarshal(resp.Data, &r); err != nil || r.Error == nil || r.Error.Code != "system.internalError" {
		rn.c.Violation("C07/unmarshalable-value-response:"+rtype+"/"+sc[0].K+"/"+sc[0].V, fmt.Sprintf("reply %s with unmarshalable value kind %s answered %s instead of a system.internalError response", sc[0].K, sc[0].V, short(resp.Payload, 200)), req)
	}
}

func c04NewRunner(c *core.Ctx, workers int) *c04Runner {
	tbl := &scriptTable{}
	rg := newRig("svc", func(s *res.Service) {
		if workers > 0 {
			s.SetWorkerCount(workers)
		}
		if workers == 2 {
			s.SetInChannelSize(4) // far more resources pending than the in-channel size
		}
		s.SetQueryEventDuration(20 * time.Millisecond)
		scriptedService(s, tbl, nil)
	})
	if err := rg.start(); err != nil {
		c.Inconclusive("service failed to start: " + err.Error())
		return nil
	}
	return &c04Runner{c: c, rig: rg, tbl: tbl, validate: c.Prop.ID == "C07"}
}

// one runs one request and checks the response count. Returns false when the
// outcome was inconclusive.
func (rn *c04Runner) one(rtype, pattern string, sc, getSc script, pk int, method string, probe bool) bool {
	c := rn.c
	id := rn.tbl.add(scriptEntry{sc: sc, getSc: getSc})
	defer rn.tbl.del(id)
	subject := c04Subject(rtype, pattern, id, method)
	pl := c04Payloads[pk]
	start := rn.rig.C.Len()
	inbox, done, delivered := rn.rig.send(subject, []byte(pl.data))
	rn.inboxes.Store(inbox, pl.kind == "http")
	req := c04Req{RType: rtype, Subject: subject, Pattern: pattern, Script: sc.String(), GetScr: getSc.String(), Payload: pl.data}
	c.Eval(1)
	if delivered != 1 {
		c.Violation("C04/not-delivered-once", fmt.Sprintf("request %s was delivered to %d subscriptions of the service", subject, delivered), req)
		return true
	}
	if !waitCh(done, 15*time.Second) {
		c.Inconclusive("request.done hook not seen for " + subject + " script " + sc.String())
		return false
	}
	log := rn.rig.C.Since(start)
	resp, pre := replies(log, inbox)
	min, max := c04Expect(rtype, pattern, pl.kind)
	if len(resp) < min || len(resp) > max {
		kind := "no-response"
		if len(resp) > max {
			kind = "multiple-responses"
			if max == 0 {
				kind = "unexpected-response"
			}
		}
		sig := fmt.Sprintf("C04/%s:%s", kind, c04Class(rtype, pattern, sc, pl.kind))
		c.Violation(sig, fmt.Sprintf("%s request %s with handler script [%s] payload %q got %d responses (want %d..%d) and %d pre-responses", rtype, subject, sc, pl.data, len(resp), min, max, len(pre)),
			map[string]interface{}{"request": req, "responses": payloadStrs(resp), "pre": payloadStrs(pre)})
	}
	c.Obs("pre_responses", int64(len(pre)))
	rn.validateNew(req)
	if _, ran := rn.tbl.ran.LoadAndDelete(id); ran && rn.validate && len(resp) == 1 {
		rn.checkUnmarshalable(req, rtype, sc, pl.kind, resp[0])
	}
	if len(sc) > 1 || (len(sc) == 1 && sc[0].Op != "reply") || pl.kind != "valid" {
		c.Distinct(rtype + "|" + pattern + "|" + sc.String() + "|" + getSc.String() + "|" + pl.kind + "|" + method)
	}
	if probe {
		rn.probe(req)
	}
	return true
}

func (rn *c04Runner) probe(after interface{}) {
	start := rn.rig.C.Len()
	inbox, done, _ := rn.rig.send("get.svc.probe", nil)
	rn.inboxes.Store(inbox, false)
	if !waitCh(done, 15*time.Second) {
		rn.c.Violation("C04/service-down", "service did not process a probe get request after the script", after)
		return
	}
	resp, _ := replies(rn.rig.C.Since(start), inbox)
	if len(resp) != 1 || !strings.Contains(resp[0].Payload, `"up":1`) {
		rn.c.Violation("C04/probe-wrong", fmt.Sprintf("probe request answered with %v", payloadStrs(resp)), after)
	}
	rn.c.Obs("probes", 1)
}

// c04Class abstracts the failing request to a class used in the signature.
func c04Class(rtype, pattern string, sc script, pk string) string {
	last := "return"
	replied := false
	for _, a := range sc {
		if a.Op == "reply" {
			replied = true
		}
	}
	if len(sc) > 0 {
		a := sc[len(sc)-1]
		last = a.Op
		if a.Op == "panic" {
			last += ":" + a.K
		}
	}
	payload := "okpayload"
	switch pk {
	case "malformed", "notjson", "array", "wrongtype", "ws":
		payload = "badpayload"
	}
	return fmt.Sprintf("%s/%s/last=%s/replied=%v/%s", rtype, pattern, last, replied, payload)
}

func c04Run(c *core.Ctx, b core.Batch) {
	var p c04Params
	json.Unmarshal(b.Params, &p)
	switch p.Kind {
	case "enum":
		c04Enum(c, p)
	case "random":
		c04Random(c, p)
	case "concurrent":
		c04Concurrent(c, p)
	case "nats":
		c04Nats(c, p)
	}
	for k, v := range sched.Counts() {
		c.Obs("hook:"+k, v)
	}
}

func c04PatternsFor(rtype string) []string {
	switch rtype {
	case "new":
		return []string{"m", "u", "noaccess", "star", "bare", "callnew"}
	}
	return []string{"m", "c", "u", "noaccess", "star", "bare"}
}

func c04HType(pattern string) res.ResourceType {
	switch pattern {
	case "c":
		return res.TypeCollection
	case "u", "bare", "callnew":
		return res.TypeUnset
	}
	return res.TypeModel
}

func c04Methods(rtype, pattern string) []string {
	switch rtype {
	case "call":
		return []string{"do", "other"}
	case "auth":
		return []string{"login", "other"}
	}
	return []string{""}
}

func c04Enum(c *core.Ctx, p c04Params) {
	rn := c04NewRunner(c, 4)
	if rn == nil {
		return
	}
	defer rn.rig.stop()
	idx := 0
	getScripts := getScriptAlphabet()
	for _, pattern := range c04PatternsFor(p.RType) {
		scripts := enumScripts(p.RType, c04HType(pattern), 2)
		if pattern != "m" && pattern != "u" && pattern != "c" {
			scripts = enumScripts(p.RType, c04HType(pattern), 1)
		}
		for si, sc := range scripts {
			idx++
			if idx%p.Shards != p.Shard {
				continue
			}
			pk := 0
			if si%4 == 1 {
				pk = 1 // http
			}
			method := c04Methods(p.RType, pattern)[si%len(c04Methods(p.RType, pattern))]
			if !rn.one(p.RType, pattern, sc, getScripts[si%len(getScripts)], pk, method, true) {
				return
			}
			if si == 17 {
				c.Sample(c04Req{RType: p.RType, Subject: c04Subject(p.RType, pattern, "s?", method), Pattern: pattern, Script: sc.String(), Payload: c04Payloads[pk].data})
			}
		}
		// every payload kind with a plain reply and with no reply
		for pk := range c04Payloads {
			for _, sc := range []script{{}, {replyAlphabet(p.RType, c04HType(pattern))[0]}} {
				for _, m := range c04Methods(p.RType, pattern) {
					if !rn.one(p.RType, pattern, sc, getScripts[0], pk, m, true) {
						return
					}
				}
			}
		}
	}
	if p.Shard == 0 {
		c04NoQueue(c, "svc")
		c04NoQueue(c, "a.b")
		c04NoQueue(c, "")
		c04NoLogger(c)
		c04Rendezvous(c)
		c04StoreBacked(c, "mock")
		c04StoreBacked(c, "badger")
		c04WideOwnership(c, "library")
		c04WideOwnership(c, "a.b")
		c04Restart(c, 1)
		c04Restart(c, 3)
	}
	// missing resources / unknown types of subject
	for _, subj := range []string{"get.svc.zzz", "call.svc.zzz.do", "auth.svc.zzz.login", "access.svc.zzz", "get.svc", "call.svc.m", "get.svc.m.x.y.z", "call.svc.m.x.y.z.do"} {
		start := rn.rig.C.Len()
		inbox, done, delivered := rn.rig.send(subj, nil)
		c.Eval(1)
		if delivered == 0 {
			continue
		}
		if !waitCh(done, 15*time.Second) {
			c.Inconclusive("request.done not seen for " + subj)
			return
		}
		resp, _ := replies(rn.rig.C.Since(start), inbox)
		if len(resp) != 1 {
			c.Violation("C04/no-response:missing-resource", fmt.Sprintf("request %s got %d responses", subj, len(resp)), map[string]interface{}{"subject": subj, "responses": payloadStrs(resp)})
		}
	}
}

// c04NoQueue serves without queue group, with handlers on the service's root
// resource as well: every copy NATS would deliver is delivered, so a request
// that reaches the service through two subscriptions is answered twice.
func c04NoQueue(c *core.Ctx, name string) {
	tbl := &scriptTable{}
	rg := newRig(name, func(s *res.Service) {
		s.SetQueueGroup("")
		scriptedService(s, tbl, nil)
		s.Handle("", res.Access(res.AccessGranted), res.GetModel(func(r res.ModelRequest) { r.Model(map[string]int{"root": 1}) }),
			res.Call("*", func(r res.CallRequest) { r.OK(nil) }), res.Auth("*", func(r res.AuthRequest) { r.OK(nil) }))
	})
	if err := rg.start(); err != nil {
		c.Inconclusive("service failed to start: " + err.Error())
		return
	}
	defer rg.stop()
	id := tbl.add(scriptEntry{sc: script{{Op: "reply", K: "ok"}}, getSc: script{{Op: "reply", K: "model"}}})
	pre := name
	if pre != "" {
		pre += "."
	}
	root := name
	var subjects []string
	if root != "" {
		subjects = append(subjects, "get."+root, "access."+root, "call."+root+".ping", "call."+root+".new", "auth."+root+".login", "call."+root+".m", "call."+root+".zzz")
	}
	subjects = append(subjects, "get."+pre+"m."+id, "access."+pre+"m."+id, "call."+pre+"m."+id+".do", "call."+pre+"m."+id+".other", "auth."+pre+"m."+id+".login",
		"call."+pre+"m."+id+".new", "get."+pre+"zzz", "call."+pre+"zzz.do", "auth."+pre+"zzz.login", "get."+pre+"probe", "access."+pre+"probe", "get."+pre+"m."+id+".x.y", "call."+pre+"bare."+id+".do")
	for _, subj := range subjects {
		for _, payload := range []string{``, `{"cid":"abc","token":{"u":1},"params":{"a":1}}`, `{"cid":`} {
			start := rg.C.Len()
			before := atomic.LoadInt64(&doneCount)
			inbox, _, delivered := rg.send(subj, []byte(payload))
			c.Eval(1)
			c.Obs("noqueue_requests", 1)
			w := map[string]interface{}{"service": name, "queue_group": "", "subject": subj, "payload": payload, "subscriptions": subjectsOf(rg.C.Subs())}
			if delivered == 0 {
				if !strings.Contains(subj, "zzz") && !strings.HasSuffix(subj, ".x.y") {
					c.Violation("C04/no-response:noqueue-not-subscribed", fmt.Sprintf("request %s reaches no subscription of the service", subj), w)
				}
				continue
			}
			deadline := time.Now().Add(15 * time.Second)
			for atomic.LoadInt64(&doneCount) < before+int64(delivered) && time.Now().Before(deadline) {
				time.Sleep(200 * time.Microsecond)
			}
			if atomic.LoadInt64(&doneCount) < before+int64(delivered) {
				c.Inconclusive("request.done not seen for every delivered copy of " + subj)
				return
			}
			resp, _ := replies(rg.C.Since(start), inbox)
			c.Distinct("noqueue/" + name + "/" + subj + "/" + payload)
			if len(resp) != 1 {
				w["responses"], w["delivered_copies"] = payloadStrs(resp), delivered
				kind := "multiple-responses"
				if len(resp) == 0 {
					kind = "no-response"
				}
				c.Violation("C04/"+kind+":noqueue", fmt.Sprintf("without queue group, request %s was delivered through %d subscriptions and got %d responses", subj, delivered, len(resp)), w)
			}
		}
	}
}

// c04StoreBacked: a resource served by store.Handler next to call methods that write to
// the same store (the get-404-then-create flow and its relatives). Every request of the
// sequence - gets of missing and existing items, creates, updates, deletes, duplicates -
// gets exactly one response; a request whose handler is stuck in the library counts as
// unanswered.
func c04StoreBacked(c *core.Ctx, impl string) {
	st, _, err := newStore(storeKind{Impl: impl, Prefix: "c04sb"}, fmt.Sprintf("%d", time.Now().UnixNano()))
	if err != nil {
		c.Inconclusive("store: " + err.Error())
		return
	}
	write := func(r res.CallRequest, f func(wt store.WriteTxn) error) {
		wt := st.Write(r.PathParam("id"))
		defer wt.Close()
		if err := f(wt); err != nil {
			r.Error(err)
			return
		}
		r.OK(nil)
	}
	val := func(r res.CallRequest) interface{} {
		return map[string]interface{}{"u": r.PathParam("id"), "n": len(r.RawParams())}
	}
	for _, def := range []bool{false, true} {
		h := store.Handler{Store: st, Transformer: store.IDTransformer("id", nil)}
		if def {
			h.Default = map[string]interface{}{"u": "default"}
		}
		rg := newRig("svc", func(s *res.Service) {
			s.Handle("item.$id", res.Model, res.Access(res.AccessGranted), h,
				res.Call("create", func(r res.CallRequest) { write(r, func(wt store.WriteTxn) error { return wt.Create(val(r)) }) }),
				res.Call("update", func(r res.CallRequest) { write(r, func(wt store.WriteTxn) error { return wt.Update(val(r)) }) }),
				res.Call("delete", func(r res.CallRequest) { write(r, func(wt store.WriteTxn) error { return wt.Delete() }) }))
		})
		if err := rg.start(); err != nil {
			c.Inconclusive("service failed to start: " + err.Error())
			return
		}
		id := fmt.Sprintf("sb%v", def)
		seq := []string{"get", "call.create", "get", "call.create", "call.update", "get", "call.delete", "get", "call.delete", "call.update", "get", "call.create", "access", "get", "call.delete", "get", "call.create"}
		for step, op := range seq {
			subj := op + ".svc.item." + id
			if strings.HasPrefix(op, "call.") {
				subj = "call.svc.item." + id + "." + strings.TrimPrefix(op, "call.")
			}
			start := rg.C.Len()
			inbox, done, delivered := rg.send(subj, []byte(`{"cid":"abc","params":{"step":1}}`))
			c.Eval(1)
			c.Obs("store_backed_requests", 1)
			w := map[string]interface{}{"store": impl, "default": def, "sequence": seq[:step+1], "subject": subj}
			answered := delivered == 1 && waitCh(done, 8*time.Second)
			resp, _ := replies(rg.C.Since(start), inbox)
			c.Distinct(fmt.Sprintf("store-backed/%s/%v/%d", impl, def, step))
			if len(resp) != 1 {
				w["responses"], w["handler_returned"] = payloadStrs(resp), answered
				kind := "multiple-responses"
				if len(resp) == 0 {
					kind = "no-response"
				}
				c.Violation("C04/"+kind+":store-backed", fmt.Sprintf("%s store, step %d of %v: request %s got %d responses within 8 s (handler returned: %v)", impl, step+1, seq[:step+1], subj, len(resp), answered), w)
				go rg.stop() // the stuck handler may keep Shutdown from returning
				return
			}
		}
		rg.stop()
	}
}

// c04WideOwnership: a named service that owns more than its own name space (the
// documented SetOwnedResources form for e.g. an auth service answering every
// access request). Requests for resource names outside the name space - shorter
// than the service name, a strict prefix of it, sharing a prefix with it - reach
// the service; each gets exactly one response and the service stays up.
func c04WideOwnership(c *core.Ctx, name string) {
	for oi, own := range [][2][]string{{nil, {">"}}, {{">"}, {">"}}, {{name + ".>", "auth.>"}, {"*", "*.>"}}, {{name, name + ".>"}, nil}, {{name + ".m.*", name + ".zzz"}, {name + ".m.*"}}} {
		tbl := &scriptTable{}
		rg := newRig(name, func(s *res.Service) {
			scriptedService(s, tbl, nil)
			if oi%2 == 0 {
				s.SetReset(own[0], own[1]) // the older name of the same setter
			} else {
				s.SetOwnedResources(own[0], own[1])
			}
		})
		if err := rg.start(); err != nil {
			c.Inconclusive("service failed to start: " + err.Error())
			return
		}
		id := tbl.add(scriptEntry{sc: script{{Op: "reply", K: "ok"}}, getSc: script{{Op: "reply", K: "model"}}})
		names := []string{"a", "b.c", "auth", "auth.user.42", name[:1], name[:len(name)-1], name[:len(name)-1] + ".x", name + "x", name + "x.y", name, name + ".zzz",
			name + ".m." + id, "x" + name, strings.ToUpper(name), "zzzzzzzzzzzzzzzz.q", "~"}
		for _, rn := range names {
			for _, subj := range []string{"access." + rn, "get." + rn, "call." + rn + ".do", "auth." + rn + ".login", "call." + rn + ".new"} {
				start := rg.C.Len()
				before := atomic.LoadInt64(&doneCount)
				inbox, _, delivered := rg.send(subj, []byte(`{"cid":"abc","token":null}`))
				if delivered == 0 {
					if own[1] == nil && strings.HasPrefix(subj, "access."+name+".m.") {
						// access ownership left at its default: the own name space is served
						c.Violation("C04/no-response:access-default-with-explicit-resources", fmt.Sprintf("service %q with SetOwnedResources(%v, nil) and an access handler: request %s reaches no subscription", name, own[0], subj),
							map[string]interface{}{"service": name, "owned_resources": own[0], "owned_access": nil, "subject": subj, "subscriptions": subjectsOf(rg.C.Subs())})
						rg.stop()
						return
					}
					// a request for a resource that an explicitly owned pattern covers belongs to the service
					owned := own[0]
					if strings.HasPrefix(subj, "access.") {
						owned = own[1]
					}
					for _, op := range owned {
						if _, ok := ref.Match(op, rn); ok {
							c.Violation("C04/no-response:owned-resource-not-subscribed", fmt.Sprintf("service %q owns %q, which covers %q, but request %s reaches no subscription", name, op, rn, subj),
								map[string]interface{}{"service": name, "owned_resources": own[0], "owned_access": own[1], "subject": subj, "subscriptions": subjectsOf(rg.C.Subs())})
							rg.stop()
							return
						}
					}
					continue // outside what this configuration owns
				}
				c.Eval(1)
				c.Obs("wide_ownership_requests", 1)
				w := map[string]interface{}{"service": name, "owned_resources": own[0], "owned_access": own[1], "subject": subj}
				deadline := time.Now().Add(15 * time.Second)
				for atomic.LoadInt64(&doneCount) < before+int64(delivered) && time.Now().Before(deadline) {
					time.Sleep(200 * time.Microsecond)
				}
				resp, _ := replies(rg.C.Since(start), inbox)
				if atomic.LoadInt64(&doneCount) < before+int64(delivered) && len(resp) > 0 {
					c.Inconclusive("request.done not seen for " + subj)
					rg.stop()
					return
				}
				c.Distinct("wide/" + name + "/" + subj)
				if len(resp) != 1 {
					w["responses"] = payloadStrs(resp)
					kind := "multiple-responses"
					if len(resp) == 0 {
						kind = "no-response"
					}
					c.Violation("C04/"+kind+":outside-own-namespace", fmt.Sprintf("service %q owning %v/%v: request %s got %d responses", name, own[0], own[1], subj, len(resp)), w)
					rg.stop()
					return
				}
			}
		}
		rg.stop()
	}
}

// c04Nats: bursts of requests over an embedded NATS server (which drops what a
// subscriber's channel cannot take) to services configured with the documented "use
// the default" values: SetInChannelSize(0 or negative) and SetWorkerCount(0 or
// negative). Every request of a burst smaller than the default in-channel size gets
// exactly one response.
func c04Nats(c *core.Ctx, p c04Params) {
	ne, err := natsenv.Start()
	if err != nil {
		c.Inconclusive("nats: " + err.Error())
		return
	}
	defer ne.Shutdown()
	for round := 0; round < p.N; round++ {
		inCh, workers := []int{0, -3, 0}[round%3], []int{0, 4, -1}[round%3]
		snc, err := ne.Connect("service")
		if err != nil {
			c.Inconclusive("connect: " + err.Error())
			return
		}
		svc := res.NewService("svc")
		svc.SetLogger(&cntLogger{})
		svc.SetInChannelSize(inCh)
		svc.SetWorkerCount(workers)
		svc.Handle("m.$id", res.Access(res.AccessGranted), res.GetModel(func(r res.ModelRequest) { r.Model(map[string]string{"id": r.PathParam("id")}) }),
			res.Call("do", func(r res.CallRequest) { r.OK(r.PathParam("id")) }))
		served := make(chan struct{})
		svc.SetOnServe(func(*res.Service) { close(served) })
		ret := make(chan error, 1)
		go func() { ret <- svc.Serve(snc) }()
		if !waitCh(served, 10*time.Second) {
			c.Inconclusive("service did not start")
			return
		}
		snc.Flush()
		var mu sync.Mutex
		got := map[string]int{}
		prefix := fmt.Sprintf("_INBOX.c04n%d.", round)
		sub, err := ne.GW.Subscribe(prefix+"*", func(m *nats.Msg) {
			if !isPreResponse(m.Data) {
				mu.Lock()
				got[m.Subject]++
				mu.Unlock()
			}
		})
		if err != nil {
			c.Inconclusive("subscribe: " + err.Error())
			return
		}
		ne.GW.Flush()
		const burst = 400
		for i := 0; i < burst; i++ {
			subj := []string{"get.svc.m.%d", "call.svc.m.%d.do", "access.svc.m.%d"}[i%3]
			ne.GW.PublishRequest(fmt.Sprintf(subj, i%50), fmt.Sprintf("%s%d", prefix, i), []byte(`{"cid":"c"}`))
		}
		ne.GW.Flush()
		deadline := time.Now().Add(8 * time.Second)
		for time.Now().Before(deadline) {
			mu.Lock()
			n := len(got)
			mu.Unlock()
			if n >= burst {
				break
			}
			time.Sleep(2 * time.Millisecond)
		}
		time.Sleep(20 * time.Millisecond)
		sub.Unsubscribe()
		mu.Lock()
		missing, multiple := 0, 0
		for i := 0; i < burst; i++ {
			switch n := got[fmt.Sprintf("%s%d", prefix, i)]; {
			case n == 0:
				missing++
			case n > 1:
				multiple++
			}
		}
		mu.Unlock()
		c.Eval(burst)
		c.Obs("nats_burst_requests", burst)
		desc := map[string]interface{}{"SetInChannelSize": inCh, "SetWorkerCount": workers, "burst": burst, "unanswered": missing, "answered_more_than_once": multiple}
		if missing > 0 {
			c.Violation("C04/no-response:nats-burst", fmt.Sprintf("%d of %d requests sent in one burst over NATS got no response (SetInChannelSize(%d) and SetWorkerCount(%d) mean the defaults)", missing, burst, inCh, workers), desc)
		}
		if multiple > 0 {
			c.Violation("C04/multiple-responses:nats-burst", fmt.Sprintf("%d of %d requests of a burst got more than one response", multiple, burst), desc)
		}
		c.Distinct(fmt.Sprintf("nats-burst/%d", round))
		svc.Shutdown()
		<-ret
	}
	c.Sample(map[string]interface{}{"scenario": "bursts of 400 requests over an embedded NATS server, default-valued configuration", "rounds": p.N})
	for k := 0; k < 2; k++ {
		if !c04NatsLateClosed(c, ne, k) {
			return
		}
	}
}

// c04NatsLateClosed: a service is served on a NATS connection, shut down and served again on
// a new connection. The first connection's closed callback is delivered late (nats.go runs a
// connection's callbacks one after the other, and the application's OnDisconnect callback
// takes its time): it arrives while the second run is serving. Every request of the second
// run still gets exactly one response.
func c04NatsLateClosed(c *core.Ctx, ne *natsenv.Env, k int) bool {
	hold := make(chan struct{})
	var holdOnce sync.Once
	release := func() { holdOnce.Do(func() { close(hold) }) }
	defer release()
	svc := res.NewService("svc")
	svc.SetLogger(&cntLogger{})
	svc.SetOnDisconnect(func(*res.Service) { <-hold })
	svc.Handle("m.$id", res.Access(res.AccessGranted), res.GetModel(func(r res.ModelRequest) { r.Model(map[string]string{"id": r.PathParam("id")}) }),
		res.Call("do", func(r res.CallRequest) { r.OK(r.PathParam("id")) }))
	serve := func() (chan error, bool) {
		snc, err := ne.Connect("service")
		if err != nil {
			c.Inconclusive("connect: " + err.Error())
			return nil, false
		}
		served := make(chan struct{})
		svc.SetOnServe(func(*res.Service) { close(served) })
		ret := make(chan error, 1)
		go func() { ret <- svc.Serve(snc) }()
		if !waitCh(served, 10*time.Second) {
			c.Inconclusive("late-closed scenario: service did not start")
			return nil, false
		}
		snc.Flush()
		return ret, true
	}
	ret1, ok := serve()
	if !ok {
		return false
	}
	entered := sched.Count("shutdown.enter")
	if err := svc.Shutdown(); err != nil {
		c.Inconclusive("late-closed scenario: Shutdown: " + err.Error())
		return false
	}
	select {
	case <-ret1:
	case <-time.After(10 * time.Second):
		c.Inconclusive("late-closed scenario: first Serve did not return")
		return false
	}
	ret2, ok := serve()
	if !ok {
		return false
	}
	// now the first connection's callbacks go on: its closed callback reaches the service
	release()
	for i := 0; i < 2000 && sched.Count("shutdown.enter") < entered+2; i++ {
		time.Sleep(time.Millisecond)
	}
	late := sched.Count("shutdown.enter") >= entered+2
	var mu sync.Mutex
	got := map[string]int{}
	prefix := fmt.Sprintf("_INBOX.c04late%d.", k)
	sub, err := ne.GW.Subscribe(prefix+"*", func(m *nats.Msg) {
		if !isPreResponse(m.Data) {
			mu.Lock()
			got[m.Subject]++
			mu.Unlock()
		}
	})
	if err != nil {
		c.Inconclusive("subscribe: " + err.Error())
		return false
	}
	ne.GW.Flush()
	const burst = 120
	for i := 0; i < burst; i++ {
		subj := []string{"get.svc.m.%d", "call.svc.m.%d.do", "access.svc.m.%d"}[i%3]
		ne.GW.PublishRequest(fmt.Sprintf(subj, i%50), fmt.Sprintf("%s%d", prefix, i), []byte(`{"cid":"c"}`))
	}
	ne.GW.Flush()
	deadline := time.Now().Add(10 * time.Second)
	for time.Now().Before(deadline) {
		mu.Lock()
		n := len(got)
		mu.Unlock()
		if n >= burst {
			break
		}
		time.Sleep(2 * time.Millisecond)
	}
	time.Sleep(20 * time.Millisecond)
	sub.Unsubscribe()
	mu.Lock()
	missing, multiple := 0, 0
	for i := 0; i < burst; i++ {
		switch n := got[fmt.Sprintf("%s%d", prefix, i)]; {
		case n == 0:
			missing++
		case n > 1:
			multiple++
		}
	}
	mu.Unlock()
	c.Eval(burst)
	c.Obs("nats_requests_after_a_late_closed_callback", burst)
	desc := map[string]interface{}{"scenario": "served on connection A, Shutdown, served on connection B, A's closed callback delivered during the second run", "closed_callback_seen_during_second_run": late, "burst": burst, "unanswered": missing, "answered_more_than_once": multiple}
	if missing > 0 {
		c.Violation("C04/no-response:nats-late-closed-callback", fmt.Sprintf("%d of %d requests to the second run got no response within 10 s after the first connection's closed callback had arrived", missing, burst), desc)
	}
	if multiple > 0 {
		c.Violation("C04/multiple-responses:nats-late-closed-callback", fmt.Sprintf("%d of %d requests got more than one response", multiple, burst), desc)
	}
	c.Distinct(fmt.Sprintf("nats-late-closed/%d/%v", k, late))
	stopped := make(chan struct{})
	go func() { svc.Shutdown(); <-ret2; close(stopped) }()
	if !waitCh(stopped, 10*time.Second) {
		if missing == 0 {
			c.Violation("C04/no-response:nats-late-closed-callback:shutdown", "the second run did not stop within 10 s", desc)
		}
		return false
	}
	return true
}

// c04NoLogger: the service runs without logger (SetLogger(nil)) but with an OnError
// callback, and then with each of the loggers the library ships in each of their
// configurations (MemLogger and StdLogger with error, trace and info output switched on
// or off). Everything that makes the library log an error - panicking handlers, second
// replies, malformed payloads - still gets exactly one response and leaves the service
// up, whatever the logger does with the entry.
func c04NoLogger(c *core.Ctx) {
	type lcfg struct {
		name string
		mk   func() logger.Logger
	}
	cfgs := []lcfg{
		{"nil (SetLogger(nil))", func() logger.Logger { return nil }},
		{"MemLogger.SetErr(false)", func() logger.Logger { return logger.NewMemLogger().SetErr(false) }},
		{"MemLogger.SetTrace(false).SetInfo(false)", func() logger.Logger { return logger.NewMemLogger().SetTrace(false).SetInfo(false) }},
		{"MemLogger all off", func() logger.Logger { return logger.NewMemLogger().SetErr(false).SetTrace(false).SetInfo(false) }},
		{"MemLogger all on", func() logger.Logger { return logger.NewMemLogger().SetErr(true).SetTrace(true).SetInfo(true) }},
		{"StdLogger all off", func() logger.Logger { return logger.NewStdLogger().SetErr(false).SetTrace(false).SetInfo(false) }},
	}
	for ci, lc := range cfgs {
		if !c04LoggerCfg(c, ci, lc.name, lc.mk()) {
			return
		}
	}
}

func c04LoggerCfg(c *core.Ctx, ci int, name string, l logger.Logger) bool {
	tbl := &scriptTable{}
	var onErr int64
	rg := newRig("svc", func(s *res.Service) {
		scriptedService(s, tbl, nil)
	})
	rg.S.SetLogger(l)
	rg.S.SetOnError(func(_ *res.Service, msg string) { atomic.AddInt64(&onErr, 1) })
	if err := rg.start(); err != nil {
		c.Inconclusive("service failed to start: " + err.Error())
		return false
	}
	stopped := false
	defer func() {
		if !stopped {
			rg.stop()
		}
	}()
	sig := "C04/no-response:no-logger"
	if ci > 0 {
		sig = "C04/no-response:logger:" + name
	}
	scripts := []script{
		{{Op: "panic", K: "str"}}, {{Op: "panic", K: "err"}}, {{Op: "panic", K: "int"}}, {{Op: "panic", K: "runtime"}}, {{Op: "panic", K: "reserr"}},
		{{Op: "reply", K: "ok", V: "nil"}, {Op: "panic", K: "str"}}, {{Op: "reply", K: "ok", V: "nil"}, {Op: "reply", K: "ok", V: "nil"}},
		{{Op: "reply", K: "ok", V: "chan"}}, {}, {{Op: "reply", K: "ok", V: "map"}},
	}
	for _, sc := range scripts {
		for _, payload := range []string{`{"cid":"abc","params":{"a":1}}`, `{"cid":`, ``} {
			id := tbl.add(scriptEntry{sc: sc, getSc: script{{Op: "reply", K: "model"}}})
			// the panics and malformed payloads are followed by a plain request on the same resource
			for _, subj := range []string{"call.svc.u." + id + ".do", "get.svc.u." + id} {
				start := rg.C.Len()
				inbox, done, delivered := rg.send(subj, []byte(payload))
				c.Eval(1)
				c.Obs("nologger_requests", 1)
				w := map[string]interface{}{"logger": name, "on_error_callback": true, "subject": subj, "script": sc.String(), "payload": payload}
				if delivered != 1 {
					c.Inconclusive("logger scenario: request not delivered: " + subj)
					return false
				}
				if !waitCh(done, 10*time.Second) {
					// The scripted handlers never block and this service gets one request at a
					// time: half a minute without the request being finished is the service not
					// serving, not load.
					if !waitCh(done, 20*time.Second) {
						resp, _ := replies(rg.C.Since(start), inbox)
						w["responses"] = payloadStrs(resp)
						c.Violation(sig+":stuck", fmt.Sprintf("service with logger %s: %s (script [%s]) was not finished within 30 s (%d responses): the service stopped serving", name, subj, sc.String(), len(resp)), w)
						// the service cannot be expected to shut down
						stopped = true
						go rg.stop()
						return true
					}
				}
				if resp, _ := replies(rg.C.Since(start), inbox); len(resp) != 1 {
					w["responses"] = payloadStrs(resp)
					c.Violation(sig, fmt.Sprintf("service with logger %s: %s (script [%s]) got %d responses", name, subj, sc.String(), len(resp)), w)
				}
			}
			tbl.del(id)
			c.Distinct("nologger/" + name + "/" + sc.String() + "/" + payload)
		}
	}
	c.Obs("on_error_callbacks", atomic.LoadInt64(&onErr))
	return true
}

// c04Rendezvous: after bursts of short requests on many resources, four requests for four
// different resources are sent whose handlers reply once all four are running. The
// service has its default 32 workers and the four resources are four groups, so the four
// handlers run side by side and every request gets its response - unless the load before
// has cost the service its workers.
func c04Rendezvous(c *core.Ctx) {
	const n = 4
	var mu sync.Mutex
	waiting, gate, stop := 0, make(chan struct{}), make(chan struct{})
	rg := newRig("svc", func(s *res.Service) {
		s.Handle("rv.$id", res.Access(res.AccessGranted),
			res.Call("meet", func(r res.CallRequest) {
				mu.Lock()
				waiting++
				g := gate
				if waiting == n {
					close(g)
				}
				mu.Unlock()
				select {
				case <-g:
				case <-stop:
				}
				r.OK(nil)
			}),
			res.Call("ping", func(r res.CallRequest) { r.OK(nil) }))
	})
	if err := rg.start(); err != nil {
		c.Inconclusive("service failed to start: " + err.Error())
		return
	}
	stuck := false
	defer func() {
		close(stop)
		if stuck {
			go rg.stop()
		} else {
			rg.stop()
		}
	}()
	for round := 0; round < 40; round++ {
		var dones []chan struct{}
		for k := 0; k < 48; k++ {
			_, done, _ := rg.send(fmt.Sprintf("call.svc.rv.l%d.ping", k), nil)
			dones = append(dones, done)
		}
		for _, d := range dones {
			if !waitCh(d, 15*time.Second) {
				c.Inconclusive("rendezvous scenario: load request not processed")
				return
			}
		}
		mu.Lock()
		waiting, gate = 0, make(chan struct{})
		mu.Unlock()
		start := rg.C.Len()
		var inboxes []string
		dones = dones[:0]
		for k := 0; k < n; k++ {
			inbox, done, delivered := rg.send(fmt.Sprintf("call.svc.rv.m%d.meet", k), nil)
			if delivered != 1 {
				c.Inconclusive("rendezvous scenario: request not delivered")
				return
			}
			inboxes, dones = append(inboxes, inbox), append(dones, done)
		}
		c.Eval(n)
		c.Obs("rendezvous_requests", n)
		for _, d := range dones {
			// four handlers that only wait for each other, on an otherwise idle service
			if !waitCh(d, 25*time.Second) {
				mu.Lock()
				w := waiting
				mu.Unlock()
				got := 0
				for _, ib := range inboxes {
					r, _ := replies(rg.C.Since(start), ib)
					got += len(r)
				}
				stuck = true
				c.Violation("C04/no-response:rendezvous", fmt.Sprintf("round %d: %d requests for %d different resources whose handlers wait for each other: after 25 s %d of the handlers had been started and %d responses sent - the service no longer runs different resources side by side", round, n, n, w, got),
					map[string]interface{}{"round": round, "handlers_started": w, "responses": got, "load_before": "bursts of 48 short call requests on 48 resources", "worker_count": "default (32)"})
				return
			}
		}
		for _, ib := range inboxes {
			if r, _ := replies(rg.C.Since(start), ib); len(r) != 1 {
				c.Violation("C04/no-response:rendezvous", fmt.Sprintf("rendezvous request got %d responses", len(r)), map[string]interface{}{"round": round, "responses": payloadStrs(r)})
			}
		}
		c.Distinct(fmt.Sprintf("rendezvous/%d", round))
	}
}

// c04Restart: requests to resources whose work was still queued when the
// service was stopped must be answered again after the same Service is served
// again (every request of the second run gets exactly one response).
func c04Restart(c *core.Ctx, workers int) {
	hold := make(chan struct{})
	var holding int32
	rg := newRig("svc", func(s *res.Service) {
		s.SetWorkerCount(workers)
		s.Handle("r.$id", res.Access(res.AccessGranted), res.GetModel(func(r res.ModelRequest) {
			if strings.HasPrefix(r.PathParam("id"), "block") && atomic.LoadInt32(&holding) == 1 {
				<-hold
			}
			r.Model(map[string]string{"id": r.PathParam("id")})
		}), res.Call("do", func(r res.CallRequest) { r.OK(nil) }))
	})
	if err := rg.start(); err != nil {
		c.Inconclusive("service failed to start: " + err.Error())
		return
	}
	for cycle := 0; cycle < 6; cycle++ {
		atomic.StoreInt32(&holding, 1)
		hold = make(chan struct{})
		// occupy every worker, then queue requests for other resources behind them
		for w := 0; w < workers; w++ {
			rg.send(fmt.Sprintf("get.svc.r.block%d", w), nil)
		}
		var ids []string
		for k := 0; k < 5; k++ {
			id := fmt.Sprintf("q%d", k)
			ids = append(ids, id)
			rg.send("get.svc.r."+id, nil)
			rg.send("call.svc.r."+id+".do", nil)
		}
		// wait until the work of the other resources is queued behind the busy workers
		for t := 0; t < 4000; t++ {
			if _, _, queued, _ := rg.S.VerifState(); queued >= len(ids) {
				break
			}
			time.Sleep(500 * time.Microsecond)
		}
		_, _, queuedAtStop, _ := rg.S.VerifState()
		c.Max("work_items_queued_at_stop", int64(queuedAtStop))
		stopped := make(chan struct{})
		go func() { rg.stop(); close(stopped) }()
		time.Sleep(2 * time.Millisecond)
		atomic.StoreInt32(&holding, 0)
		close(hold)
		if !waitCh(stopped, 25*time.Second) {
			c.Inconclusive("restart scenario: Shutdown did not complete")
			return
		}
		if err := rg.restart(); err != nil {
			c.Inconclusive("restart failed: " + err.Error())
			return
		}
		for _, id := range append(ids, "block0", "fresh") {
			for _, subj := range []string{"get.svc.r." + id, "call.svc.r." + id + ".do", "access.svc.r." + id} {
				start := rg.C.Len()
				inbox, done, delivered := rg.send(subj, nil)
				c.Eval(1)
				c.Obs("requests_after_restart", 1)
				w := map[string]interface{}{"subject": subj, "cycle": cycle, "workers": workers, "scenario": "request for a resource whose work was queued when the service was stopped, sent after Serve was called again"}
				if delivered != 1 {
					c.Violation("C04/not-delivered-once", fmt.Sprintf("request %s was delivered to %d subscriptions after the restart", subj, delivered), w)
					continue
				}
				if !waitCh(done, 5*time.Second) {
					// decided on state: nothing is queued for the workers (they have nothing to do),
					// yet the request's callback sits in a work item that no worker will ever see
					_, _, queued, groups := rg.S.VerifState()
					if queued == 0 && groups > 0 {
						w["queued"], w["groups"] = queued, groups
						c.Violation("C04/no-response:after-restart", fmt.Sprintf("request %s sent after the restart is never processed: the work queue is empty while %d group work items exist that no worker holds", subj, groups), w)
						rg.stop()
						return
					} else {
						c.Inconclusive("restart scenario: request.done not seen for " + subj)
					}
					continue
				}
				if resp, _ := replies(rg.C.Since(start), inbox); len(resp) != 1 {
					c.Violation("C04/no-response:after-restart", fmt.Sprintf("request %s sent after the restart got %d responses", subj, len(resp)), w)
				}
				c.Distinct(fmt.Sprintf("restart/w%d/%d/%s", workers, cycle, subj))
			}
		}
	}
	rg.stop()
}

func subjectsOf(subs []vconn.Sub) []string {
	var out []string
	for _, s := range subs {
		out = append(out, s.Subject)
	}
	return out
}

func c04Random(c *core.Ctx, p c04Params) {
	rn := c04NewRunner(c, 1+p.Shard%5)
	if rn == nil {
		return
	}
	defer rn.rig.stop()
	r := c.Rand
	rtypes := []string{"access", "get", "call", "auth", "new"}
	getScripts := getScriptAlphabet()
	for i := 0; i < p.N; i++ {
		rt := rtypes[r.Intn(len(rtypes))]
		pats := c04PatternsFor(rt)
		pattern := pats[r.Intn(len(pats))]
		sc := randScript(r, rt, c04HType(pattern), 5)
		gs := getScripts[r.Intn(len(getScripts))]
		if r.Intn(4) == 0 {
			gs = randScript(r, "get", c04HType(pattern), 3)
		}
		ms := c04Methods(rt, pattern)
		pk := 0
		if r.Intn(3) == 0 {
			pk = r.Intn(len(c04Payloads))
		}
		if !rn.one(rt, pattern, sc, gs, pk, ms[r.Intn(len(ms))], i%5 == 0) {
			return
		}
		if i == 5 {
			c.Sample(c04Req{RType: rt, Pattern: pattern, Script: sc.String(), GetScr: gs.String(), Payload: c04Payloads[pk].data})
		}
	}
}

// c04Concurrent drives random scripts concurrently on many resources.
func c04Concurrent(c *core.Ctx, p c04Params) {
	rn := c04NewRunner(c, p.Workers)
	if rn == nil {
		return
	}
	defer rn.rig.stop()
	sched.SetPerturb(c.Batch.Seed, 1)
	defer sched.SetPerturb(0, 0)
	rn.rig.C.NoGoID = true
	type pending struct {
		req      c04Req
		inbox    string
		done     chan struct{}
		min, max int
	}
	const producers = 8
	var wg sync.WaitGroup
	results := make([][]pending, producers)
	rtypes := []string{"access", "get", "call", "auth", "new"}
	getScripts := getScriptAlphabet()
	for g := 0; g < producers; g++ {
		wg.Add(1)
		go func(g int) {
			defer wg.Done()
			r := newRand(core.SubSeed(c.Batch.Seed, fmt.Sprintf("%s/p%d", c.Batch.Name, g)))
			for i := 0; i < p.N/producers; i++ {
				rt := rtypes[r.Intn(len(rtypes))]
				pats := c04PatternsFor(rt)
				pattern := pats[r.Intn(len(pats))]
				if r.Intn(2) == 0 {
					pattern = fmt.Sprintf("h.%d", r.Intn(3))
				}
				sc := randScript(r, rt, c04HType(pattern), 4)
				gs := getScripts[r.Intn(len(getScripts))]
				ms := c04Methods(rt, pattern)
				pk := 0
				if r.Intn(4) == 0 {
					pk = r.Intn(len(c04Payloads))
				}
				id := rn.tbl.add(scriptEntry{sc: sc, getSc: gs})
				subject := c04Subject(rt, pattern, id, ms[r.Intn(len(ms))])
				inbox, done, delivered := rn.rig.send(subject, []byte(c04Payloads[pk].data))
				rn.inboxes.Store(inbox, c04Payloads[pk].kind == "http")
				if delivered != 1 {
					continue
				}
				min, max := c04Expect(rt, pattern, c04Payloads[pk].kind)
				results[g] = append(results[g], pending{req: c04Req{RType: rt, Subject: subject, Pattern: pattern, Script: sc.String(), GetScr: gs.String(), Payload: c04Payloads[pk].data},
					inbox: inbox, done: done, min: min, max: max})
			}
		}(g)
	}
	wg.Wait()
	// wait for completion of all
	for g := range results {
		for _, pd := range results[g] {
			if !waitCh(pd.done, 20*time.Second) {
				// decided on state: no callback is executing and nothing is queued for the workers,
				// so this request will never be processed and never answered
				_, _, queued, groups := rn.rig.S.VerifState()
				if sched.Count("worker.before") == sched.Count("worker.after") && queued == 0 {
					c.Violation("C04/no-response:never-processed", fmt.Sprintf("%s was delivered to the service but is never processed: the work queue is empty and no callback is running (%d group work items exist that no worker holds)", pd.req.Subject, groups),
						map[string]interface{}{"request": pd.req, "workers": p.Workers, "queued": queued, "groups": groups})
				} else {
					c.Inconclusive("request.done not seen for " + pd.req.Subject)
				}
				return
			}
		}
	}
	log := rn.rig.C.Log()
	byInbox := map[string][]vconn.Msg{}
	for _, m := range log {
		if strings.HasPrefix(m.Subject, "_INBOX.") {
			byInbox[m.Subject] = append(byInbox[m.Subject], m)
		}
	}
	for g := range results {
		for _, pd := range results[g] {
			c.Eval(1)
			resp, pre := replies(byInbox[pd.inbox], pd.inbox)
			if len(resp) < pd.min || len(resp) > pd.max {
				c.Violation("C04/concurrent-response-count", fmt.Sprintf("%s (script [%s]) got %d responses under concurrent load (want %d..%d)", pd.req.Subject, pd.req.Script, len(resp), pd.min, pd.max),
					map[string]interface{}{"request": pd.req, "responses": payloadStrs(resp), "pre": payloadStrs(pre), "workers": p.Workers})
			}
			c.Distinct("c|" + pd.req.RType + "|" + pd.req.Pattern + "|" + pd.req.Script + "|" + pd.req.Payload)
		}
	}
	rn.probe("after concurrent load")
	rn.validateNew("concurrent load")
	c.Sample(map[string]interface{}{"workers": p.Workers, "producers": producers, "requests": p.N})
}
