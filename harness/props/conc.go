package props

import (
	"encoding/json"
	"fmt"
	"hash/fnv"
	"math/rand"
	"runtime"
	"sort"
	"strings"
	"sync"
	"sync/atomic"
	"time"

	res "github.com/jirenius/go-res"

	"verif/harness/internal/core"
	"verif/harness/internal/mon"
	"verif/harness/internal/ref"
	"verif/harness/internal/sched"
	"verif/harness/internal/vconn"
)

// Shared concurrency workload for C01 (occupancy), C02 (exactly once, in
// order), C03 (shutdown) and C16 (race detector).

type concCfg struct {
	Workers    int    `json:"workers"`
	InCh       int    `json:"in_ch"`
	Producers  int    `json:"producers"`
	Ops        int    `json:"ops"` // per producer and cycle
	Perturb    int    `json:"perturb"`
	Cycles     int    `json:"cycles"`
	Query      bool   `json:"query"`
	Baton      bool   `json:"baton"`
	HotGroups  int    `json:"hot_groups"`
	Directed   string `json:"directed,omitempty"`
	BodyYield  int    `json:"body_yield"` // 0 none, 1 gosched, 2 short sleeps
	ManyGroups bool   `json:"many_groups"`
	// DirtyStop: between cycles Shutdown is called while all workers are busy and
	// callbacks are still queued on the hot groups (they may be dropped); the
	// next cycle must be unaffected by what was left behind.
	DirtyStop bool `json:"dirty_stop"`
}

type concSub struct {
	ID       string `json:"id"`
	Producer int    `json:"producer"`
	N        int    `json:"n"`
	Kind     string `json:"kind"` // req:<type> | with | withres | withgroup | unmatched
	RID      string `json:"rid"`
	Group    string `json:"group"`
	Parallel bool   `json:"parallel"`
	Cycle    int    `json:"cycle"`
	SeqCall  int64  `json:"seq_call"`
	SeqRet   int64  `json:"seq_ret"`
	Err      string `json:"err,omitempty"`
	Global   int64  `json:"global,omitempty"`   // baton order
	MayDrop  bool   `json:"may_drop,omitempty"` // submitted right before Shutdown began with all workers busy
}

type concExec struct {
	ID    string `json:"id"`
	Group string `json:"group"`
	G     int64  `json:"g"`
	Start int64  `json:"start"`
	End   int64  `json:"end"`
	Cycle int    `json:"cycle"`
}

type concEngine struct {
	c      *core.Ctx
	cfg    concCfg
	rig    *rig
	routes []ref.Route
	occ    *mon.Occupancy

	mu      sync.Mutex
	subs    map[string]*concSub
	order   []*concSub
	execs   []concExec
	scratch sync.Map // group -> *mon.GroupScratch

	cycle     int32
	submitMu  sync.Mutex
	globalN   int64
	reportOcc bool // report occupancy violations (C01)
	occViol   int64
	queryCBs  int64
	nilCBs    int64
}

// concRoutes is the harness' own table of patterns and group templates.
func concRoutes() []ref.Route {
	return []ref.Route{
		{Pattern: "svc.res.$id", Marker: "res"},
		{Pattern: "svc.sa.$id", Marker: "sa", Group: "shared"},
		{Pattern: "svc.sb.$id", Marker: "sb", Group: "shared"},
		{Pattern: "svc.tag.$g.$id", Marker: "tag", Group: "${g}"},
		{Pattern: "svc.mnt.item.$id", Marker: "mitem"},
		{Pattern: "svc.mnt.tg.$g.$id", Marker: "mtg", Group: "m${g}"},
		{Pattern: "svc.mnt.deep.x.$id", Marker: "deep", Group: "deep"},
		{Pattern: "svc.mnt.thru.$g.$id", Marker: "thru", Group: "t.${g}"},
		{Pattern: "svc.mnt.wk.$kind.$id.>", Marker: "wk", Group: "k${id}"},
		{Pattern: "svc.par.$id", Marker: "par", Parallel: true},
		// the root resource of the service and of the mounted Mux (default group = resource name)
		{Pattern: "svc", Marker: "root"},
		{Pattern: "svc.mnt", Marker: "mroot"},
		// Parallel wins over a Group set on the same handler
		{Pattern: "svc.pg.$id", Marker: "pg", Parallel: true},
		// a group that is exactly one tag, the tag being the first token of the pattern as
		// its Mux sees it (directly on the service and inside a routed Mux)
		{Pattern: "svc.$t.zfirst", Marker: "tfirst", Group: "${t}"},
		{Pattern: "svc.mnt.u.$id", Marker: "ufirst", Group: "${id}"},
		// overlapping patterns: a name may run into a dead end below the more specific branch
		// (svc.bt.foo.baz below the literal foo, svc.bt.7.zap below the placeholder) and is
		// then served by the next one
		{Pattern: "svc.bt.foo.bar", Marker: "btlit", Group: "bt"},
		{Pattern: "svc.bt.$id.baz", Marker: "btph", Group: "bt"},
		{Pattern: "svc.bt.>", Marker: "btfull", Group: "bt"},
		// options applied twice: the last one decides (shared defaults say Parallel, the
		// resource's own options take it back and name a group)
		{Pattern: "svc.pf.$id", Marker: "pf", Group: "pf"},
		// the tag of the group names the later of two placeholders whose names start alike
		{Pattern: "svc.px.$idx.$id", Marker: "px", Group: "${id}"},
		// registered through the parent below a mounted Mux, the tags of the group in another
		// order than the placeholders of the pattern
		{Pattern: "svc.mnt.ooo.$a.$b.$c", Marker: "ooo", Group: "${c}.${a}"},
	}
}

func newConcEngine(c *core.Ctx, cfg concCfg) *concEngine {
	e := &concEngine{c: c, cfg: cfg, routes: concRoutes(), subs: map[string]*concSub{}}
	e.occ = mon.NewOccupancy(func(group, first, second string) {
		atomic.AddInt64(&e.occViol, 1)
		if e.reportOcc {
			c.Violation("C01/overlap:"+e.patternOf(first)+"+"+e.patternOf(second), fmt.Sprintf("callbacks %s and %s of group %q executed at the same time", first, second, group),
				map[string]interface{}{"group": group, "first": e.subInfo(first), "second": e.subInfo(second), "config": cfg})
		}
	})
	return e
}

func (e *concEngine) subInfo(id string) interface{} {
	e.mu.Lock()
	defer e.mu.Unlock()
	base := id
	if i := strings.IndexByte(id, '/'); i >= 0 {
		base = id[:i]
	}
	if s, ok := e.subs[base]; ok {
		return map[string]interface{}{"callback": id, "submission": *s}
	}
	return id
}

func (e *concEngine) patternOf(id string) string {
	e.mu.Lock()
	defer e.mu.Unlock()
	base, suffix := id, ""
	if i := strings.IndexByte(id, '/'); i >= 0 {
		base, suffix = id[:i], "/"+strings.TrimRight(id[i+1:], "0123456789")
	}
	if s, ok := e.subs[base]; ok {
		return s.Kind + suffix
	}
	return "?"
}

// configure registers the patterns on the service (mounted arrangement).
func (e *concEngine) configure(s *res.Service) {
	s.SetWorkerCount(e.cfg.Workers)
	s.SetInChannelSize(e.cfg.InCh)
	s.SetQueryEventDuration(8 * time.Millisecond)
	h := func(kind string) []res.Option {
		return []res.Option{
			res.Access(func(r res.AccessRequest) { e.handle("access", r.(*res.Request)); r.AccessGranted() }),
			res.GetResource(func(r res.GetRequest) {
				if rq, ok := r.(*res.Request); ok {
					e.handle("get", rq)
				}
				r.Model(map[string]int{"a": 1})
			}),
			res.Call("do", func(r res.CallRequest) { e.handle("call", r.(*res.Request)); r.OK(nil) }),
			res.Auth("login", func(r res.AuthRequest) { e.handle("auth", r.(*res.Request)); r.OK(nil) }),
			res.New(func(r res.NewRequest) { e.handle("new", r.(*res.Request)); r.New("svc.res.n") }),
		}
	}
	with := func(opts []res.Option, extra ...res.Option) []res.Option { return append(opts, extra...) }
	s.Handle("res.$id", h("res")...)
	s.Handle("sa.$id", with(h("sa"), res.Group("shared"))...)
	s.Handle("sb.$id", with(h("sb"), res.Group("shared"))...)
	s.Handle("tag.$g.$id", with(h("tag"), res.Group("${g}"))...)
	s.Handle("par.$id", with(h("par"), res.Parallel(true))...)
	s.Handle("pg.$id", with(h("pg"), res.Group("pg.${id}"), res.Parallel(true))...)
	s.Handle("", h("root")...)
	s.Handle("$t.zfirst", with(h("tfirst"), res.Group("${t}"))...)
	s.Handle("bt.foo.bar", with(h("btlit"), res.Group("bt"))...)
	s.Handle("bt.$id.baz", with(h("btph"), res.Group("bt"))...)
	s.Handle("bt.>", with(h("btfull"), res.Group("bt"))...)
	s.Handle("pf.$id", with(h("pf"), res.Parallel(true), res.Group("pfx"), res.Parallel(false), res.Group("pf"))...)
	s.Handle("px.$idx.$id", with(h("px"), res.Group("${id}"))...)
	sub := res.NewMux("")
	sub.Route("u", func(m *res.Mux) {
		m.Handle("$id", with(h("ufirst"), res.Group("${id}"))...)
	})
	sub.Handle("", h("mroot")...)
	sub.Handle("item.$id", h("mitem")...)
	sub.Handle("tg.$g.$id", with(h("mtg"), res.Group("m${g}"))...)
	sub.Handle("wk.$kind.$id.>", with(h("wk"), res.Group("k${id}"))...)
	sub.Route("deep", func(m *res.Mux) {
		m.Handle("x.$id", with(h("deep"), res.Group("deep"))...)
	})
	s.Mount("mnt", sub)
	// registered through the parent below the mounted child
	s.Handle("mnt.thru.$g.$id", with(h("thru"), res.Group("t.${g}"))...)
	s.Handle("mnt.ooo.$a.$b.$c", with(h("ooo"), res.Group("${c}.${a}"))...)
}

// groupOf computes the group the documentation promises for a resource id.
func (e *concEngine) groupOf(rid string) (group string, parallel bool, ok bool) {
	name := rid
	if i := strings.IndexByte(rid, '?'); i >= 0 {
		name = rid[:i]
	}
	rt, _, g := ref.Lookup(e.routes, name)
	if rt == nil {
		return "", false, false
	}
	return g, rt.Parallel, true
}

func (e *concEngine) scratchFor(group string) *mon.GroupScratch {
	if v, ok := e.scratch.Load(group); ok {
		return v.(*mon.GroupScratch)
	}
	v, _ := e.scratch.LoadOrStore(group, &mon.GroupScratch{})
	return v.(*mon.GroupScratch)
}

// body is the instrumented callback body.
func (e *concEngine) body(id, group string, parallel bool) {
	start := mon.Seq()
	gid := mon.GoID()
	occGroup := group
	if parallel {
		occGroup = "<parallel>"
	}
	e.occ.Enter(occGroup, id, parallel)
	if !parallel {
		e.scratchFor(group).Touch(id)
	}
	switch e.cfg.BodyYield {
	case 1:
		runtime.Gosched()
	case 2:
		h := fnv.New32a()
		h.Write([]byte(id))
		switch v := h.Sum32() % 10; {
		case v < 4:
			runtime.Gosched()
		case v < 7:
			time.Sleep(time.Duration(5+h.Sum32()%60) * time.Microsecond)
		}
	}
	if !parallel {
		e.scratchFor(group).Touch(id)
	}
	e.occ.Exit(occGroup)
	end := mon.Seq()
	e.mu.Lock()
	e.execs = append(e.execs, concExec{ID: id, Group: group, G: gid, Start: start, End: end, Cycle: int(atomic.LoadInt32(&e.cycle))})
	e.mu.Unlock()
}

// handle is called by request handlers; the submission id travels in the query.
func (e *concEngine) handle(kind string, r *res.Request) {
	id := r.Query()
	if id == "" {
		return
	}
	e.mu.Lock()
	s := e.subs[id]
	e.mu.Unlock()
	if s == nil {
		e.c.Violation("C02/unknown-request-id", "handler invoked with an id that was never submitted: "+id, nil)
		return
	}
	if r.Group() != s.Group && !s.Parallel {
		// the library disagrees with the documented group rule (C06's business) - occupancy still uses the documented group
		e.c.Obs("group_mismatch", 1)
	}
	e.body(id, s.Group, s.Parallel)
	// every fourth request handler hands the request itself to WithResource: the callback
	// belongs to the same group and is queued behind the running handler
	if !s.Parallel && core.Hash64(id)%4 == 0 {
		ns := &concSub{ID: id + "+nested", Producer: -1, N: s.N, Kind: "withres-request", RID: s.RID, Group: s.Group, Cycle: s.Cycle, MayDrop: true}
		e.mu.Lock()
		e.subs[ns.ID] = ns
		e.order = append(e.order, ns)
		e.mu.Unlock()
		ns.SeqCall = mon.Seq()
		e.rig.S.WithResource(r, func() { e.body(ns.ID, ns.Group, false) })
		ns.SeqRet = mon.Seq()
		e.c.Obs("nested_withresource_from_handlers", 1)
	}
}

var concRIDs = []string{"svc.mnt.wk.a.%d.t", "svc.mnt.wk.b.%d.t.u", "svc.res.%d", "svc.sa.%d", "svc.sb.%d", "svc.tag.g%d.x", "svc.tag.g%d.y", "svc.mnt.item.%d", "svc.mnt.tg.g%d.z", "svc.mnt.deep.x.%d", "svc.mnt.thru.g%d.q", "svc.par.%d", "svc", "svc.mnt", "svc.pg.%d", "svc.t%d.zfirst", "svc.mnt.u.g%d", "svc.t%d.zfirst",
	"svc.bt.foo.baz", "svc.bt.g%d.zap", "svc.bt.foo.bar", "svc.bt.foo.zap.x%d", "svc.pf.%d", "svc.pf.%d",
	"svc.px.a.g%d", "svc.px.b.g%d", "svc.mnt.ooo.g%d.x.k", "svc.mnt.ooo.g%d.y.k"}

func (e *concEngine) randRID(r *rand.Rand) string {
	hot := e.cfg.HotGroups
	if hot <= 0 {
		hot = 3
	}
	n := r.Intn(hot)
	if e.cfg.ManyGroups && r.Intn(2) == 0 {
		n = r.Intn(400)
	}
	t := concRIDs[r.Intn(len(concRIDs))]
	if r.Intn(6) == 0 {
		t = "svc.res.%d" // keep the default-group resources hot
	}
	if !strings.Contains(t, "%d") {
		return t
	}
	return fmt.Sprintf(t, n)
}

func (e *concEngine) newSub(p, n int, kind, rid string) *concSub {
	g, par, _ := e.groupOf(rid)
	s := &concSub{ID: fmt.Sprintf("c%dp%dn%d", atomic.LoadInt32(&e.cycle), p, n), Producer: p, N: n, Kind: kind, RID: rid, Group: g, Parallel: par, Cycle: int(atomic.LoadInt32(&e.cycle))}
	e.mu.Lock()
	e.subs[s.ID] = s
	e.order = append(e.order, s)
	e.mu.Unlock()
	return s
}

// submit performs one submission of a random kind.
func (e *concEngine) submit(r *rand.Rand, p, n int) {
	rid := e.randRID(r)
	kinds := []string{"req:call", "req:call", "req:get", "req:access", "req:auth", "req:new", "with", "with", "with", "withres", "withgroup", "unmatched"}
	if e.cfg.Query {
		kinds = append(kinds, "query", "query")
	}
	kind := kinds[r.Intn(len(kinds))]
	if kind == "unmatched" {
		// no handler matches: other names, too few or too many tokens, and near
		// misses around the service name, separators and empty tokens
		unmatched := []string{"svc.nomatch.x", "other.res.1", "svc.res", "svc.tag.g1", "svcXres.1", "svc_res.1", "svcres.1", "svcsres.1?q=1",
			"sv", "sv.res.1", "svc.res.1.x", "svc.mn", "svc.mnt.item", "svc.mntXitem.1",
			"svc.mnt.wk.a.1", "Svc.res.1", "svc.RES.1", "svc.par.1.2", "svc.sa"}
		// (names that are not valid resource ids - empty tokens, wildcard characters - are left out: the property
		// speaks about resource ids)
		rid = unmatched[r.Intn(len(unmatched))]
	}
	s := e.newSub(p, n, kind, rid)
	if e.cfg.Baton {
		// mutex-ordered submissions: With* calls are totally ordered by happens-before, and
		// requests are put on the connection in one total order
		e.submitMu.Lock()
		defer e.submitMu.Unlock()
		s.Global = atomic.AddInt64(&e.globalN, 1)
	}
	svc := e.rig.S
	s.SeqCall = mon.Seq()
	switch kind {
	case "req:call", "req:get", "req:access", "req:auth", "req:new":
		t := kind[4:]
		subj := t + "." + rid
		switch t {
		case "call":
			subj += ".do"
		case "auth":
			subj += ".login"
		case "new":
			subj = "call." + rid + ".new"
		}
		pl, _ := json.Marshal(map[string]string{"query": s.ID})
		if e.rig.C.Deliver(subj, "_INBOX.c."+s.ID, pl) == 0 {
			s.Err = "not delivered"
		}
	case "with", "query":
		// a resource id may carry a query, also an empty one: the group is that of the resource
		wrid := rid
		switch core.Hash64(s.ID) % 6 {
		case 0:
			wrid += "?"
		case 1:
			wrid += "?q=" + s.ID
		}
		err := svc.With(wrid, func(rs res.Resource) {
			e.body(s.ID, s.Group, s.Parallel)
			if kind == "query" {
				var qn int32
				try(func() {
					rs.QueryEvent(func(qr res.QueryRequest) {
						if qr == nil {
							atomic.AddInt64(&e.nilCBs, 1)
							e.body(s.ID+"/nil", s.Group, s.Parallel)
							return
						}
						atomic.AddInt64(&e.queryCBs, 1)
						e.body(fmt.Sprintf("%s/q%d", s.ID, atomic.AddInt32(&qn, 1)), s.Group, s.Parallel)
					})
				})
			}
		})
		if err != nil {
			s.Err = err.Error()
		}
	case "withres":
		wrid := rid
		if core.Hash64(s.ID)%5 == 0 {
			wrid += "?"
		}
		rs, err := svc.Resource(wrid)
		if err != nil {
			s.Err = err.Error()
			break
		}
		svc.WithResource(rs, func() { e.body(s.ID, s.Group, s.Parallel) })
	case "withgroup":
		svc.WithGroup(s.Group, func(*res.Service) { e.body(s.ID, s.Group, s.Parallel) })
	case "unmatched":
		err := svc.With(rid, func(res.Resource) { e.body(s.ID, "unmatched", false) })
		if err != nil {
			s.Err = err.Error()
		}
	}
	s.SeqRet = mon.Seq()
}

// feedQueries delivers query requests to the query subjects published so far.
func (e *concEngine) feedQueries(from int) int {
	log := e.rig.C.Since(from)
	for _, m := range log {
		if strings.HasPrefix(m.Subject, "event.") && strings.HasSuffix(m.Subject, ".query") {
			var qe struct {
				Subject string `json:"subject"`
			}
			if json.Unmarshal(m.Data, &qe) == nil && qe.Subject != "" {
				for k := 0; k < 2; k++ {
					e.rig.C.Deliver(qe.Subject, newInbox(), []byte(`{"query":"a=1"}`))
				}
			}
		}
	}
	return from + len(log)
}

// runCycle runs the producers of one start/stop cycle and quiesces.
// Returns false if the outcome is inconclusive.
func (e *concEngine) runCycle() bool {
	cfg := e.cfg
	var wg sync.WaitGroup
	stopFeed := make(chan struct{})
	feedDone := make(chan struct{})
	if cfg.Query {
		go func() {
			defer close(feedDone)
			pos := 0
			for {
				pos = e.feedQueries(pos)
				select {
				case <-stopFeed:
					return
				case <-time.After(2 * time.Millisecond):
				}
			}
		}()
	} else {
		close(feedDone)
	}
	for p := 0; p < cfg.Producers; p++ {
		wg.Add(1)
		go func(p int) {
			defer wg.Done()
			r := newRand(core.SubSeed(e.c.Batch.Seed, fmt.Sprintf("%s/c%d/p%d", e.c.Batch.Name, atomic.LoadInt32(&e.cycle), p)))
			for n := 0; n < cfg.Ops; n++ {
				e.submit(r, p, n)
				if n%64 == 63 && r.Intn(3) == 0 {
					// idle phase: let groups go idle and busy again
					time.Sleep(time.Duration(r.Intn(300)) * time.Microsecond)
				}
			}
		}(p)
	}
	wg.Wait()
	if cfg.Query {
		time.Sleep(25 * time.Millisecond) // let the query events expire (nil callbacks are group callbacks too)
	}
	close(stopFeed)
	<-feedDone
	return e.quiesce()
}

// quiesce waits until everything submitted so far has had its chance to run:
// a final request passes through the listener, then a sentinel is queued on
// every group.
func (e *concEngine) quiesce() bool {
	svc := e.rig.S
	// 1. final request through the in channel (the listener is sequential)
	fin := e.newSub(-1, int(mon.Seq()), "req:call", "svc.res.final")
	pl, _ := json.Marshal(map[string]string{"query": fin.ID})
	e.rig.C.Deliver("call.svc.res.final.do", "_INBOX.c."+fin.ID, pl)
	if !e.waitExec(fin.ID, 20*time.Second) {
		return e.stuck("final request never executed")
	}
	// 2. sentinels on every group used
	e.mu.Lock()
	groups := map[string]bool{}
	for _, s := range e.order {
		if s.Kind != "unmatched" && !s.Parallel && s.Cycle == int(atomic.LoadInt32(&e.cycle)) {
			groups[s.Group] = true
		}
	}
	e.mu.Unlock()
	var sent []string
	for g := range groups {
		s := e.newSub(-2, int(mon.Seq()), "withgroup", "")
		s.Group = g
		id, grp := s.ID, g
		svc.WithGroup(g, func(*res.Service) { e.body(id, grp, false) })
		sent = append(sent, id)
	}
	for _, id := range sent {
		if !e.waitExec(id, 20*time.Second) {
			return e.stuck("sentinel never executed")
		}
	}
	// parallel callbacks have no group to flush: wait for the worker queue to drain
	deadline := time.Now().Add(20 * time.Second)
	for {
		_, _, queued, groupsLeft := svc.VerifState()
		if queued == 0 && groupsLeft == 0 && e.occ.Active() == 0 {
			break
		}
		if time.Now().After(deadline) {
			return e.stuck("work queue did not drain")
		}
		time.Sleep(200 * time.Microsecond)
	}
	return true
}

func (e *concEngine) waitExec(id string, d time.Duration) bool {
	deadline := time.Now().Add(d)
	for {
		e.mu.Lock()
		found := false
		for i := len(e.execs) - 1; i >= 0 && i >= len(e.execs)-4096; i-- {
			if e.execs[i].ID == id {
				found = true
				break
			}
		}
		e.mu.Unlock()
		if found {
			return true
		}
		if time.Now().After(deadline) {
			return false
		}
		time.Sleep(100 * time.Microsecond)
	}
}

// stuck decides on state whether the service is deadlocked (work queued, all
// workers parked) or whether the outcome is merely inconclusive.
func (e *concEngine) stuck(what string) bool {
	state, qnil, queued, groups := e.rig.S.VerifState()
	parked := mon.CountGoroutines("go-res.(*Service).startWorker", "sync.(*Cond).Wait")
	workers := mon.CountGoroutines("go-res.(*Service).startWorker")
	w := map[string]interface{}{"what": what, "state": state, "queue_nil": qnil, "queued": queued, "groups": groups, "workers": workers, "workers_parked": parked, "config": e.cfg}
	if (queued > 0 || groups > 0) && parked == workers && e.occ.Active() == 0 {
		// stable? sample again
		time.Sleep(500 * time.Millisecond)
		_, _, q2, g2 := e.rig.S.VerifState()
		p2 := mon.CountGoroutines("go-res.(*Service).startWorker", "sync.(*Cond).Wait")
		if q2 == queued && g2 == groups && p2 == parked {
			e.c.Violation("C02/lost-wakeup", fmt.Sprintf("%s: %d work items queued, %d groups pending while all %d workers are parked in Cond.Wait", what, queued, groups, workers), w)
			return false
		}
	}
	e.c.Inconclusive(fmt.Sprintf("%s (state=%d queued=%d groups=%d workers=%d parked=%d)", what, state, queued, groups, workers, parked))
	return false
}

// run executes all cycles; returns false if inconclusive.
func (e *concEngine) run() bool {
	cfg := e.cfg
	e.rig = newRig("svc", e.configure)
	e.rig.C.NoGoID = true
	sched.SetPerturb(e.c.Batch.Seed+int64(cfg.Workers), cfg.Perturb)
	defer sched.SetPerturb(0, 0)
	if err := e.rig.start(); err != nil {
		e.c.Inconclusive("service failed to start: " + err.Error())
		return false
	}
	for cy := 0; cy < cfg.Cycles; cy++ {
		atomic.StoreInt32(&e.cycle, int32(cy))
		if cy > 0 {
			if err := e.rig.restart(); err != nil {
				e.c.Violation("C03/restart-failed", "stopped service could not be served again: "+err.Error(), cfg)
				return false
			}
			e.rig.C.NoGoID = true
		}
		if !e.runCycle() {
			return false
		}
		if cfg.DirtyStop && cy < cfg.Cycles-1 {
			if !e.dirtyStop() {
				return false
			}
			continue
		}
		if err := e.rig.stop(); err != nil {
			e.c.Inconclusive("stop: " + err.Error())
			return false
		}
	}
	return true
}

// dirtyStop shuts the service down while every worker is busy and callbacks
// are queued, unreached, on the hot groups.
func (e *concEngine) dirtyStop() bool {
	svc := e.rig.S
	release := make(chan struct{})
	var started sync.WaitGroup
	nworkers := e.cfg.Workers
	if nworkers <= 0 {
		nworkers = 32 // the documented default
	}
	for i := 0; i < nworkers; i++ {
		started.Add(1)
		svc.WithGroup(fmt.Sprintf("blocker-%d", i), func(*res.Service) { started.Done(); <-release })
	}
	ok := make(chan struct{})
	go func() { started.Wait(); close(ok) }()
	if !waitCh(ok, 20*time.Second) {
		close(release)
		e.c.Inconclusive("blocking callbacks did not occupy all workers")
		return false
	}
	r := newRand(core.SubSeed(e.c.Batch.Seed, fmt.Sprintf("%s/dirty%d", e.c.Batch.Name, atomic.LoadInt32(&e.cycle))))
	for n := 0; n < 12; n++ {
		rid := e.randRID(r)
		s := e.newSub(-3, n, "with", rid)
		s.MayDrop = true
		if err := svc.With(rid, func(res.Resource) { e.body(s.ID, s.Group, s.Parallel) }); err != nil {
			s.Err = err.Error()
		}
	}
	before := sched.Count("close.flagged")
	ret := make(chan error, 1)
	go func() { ret <- svc.Shutdown() }()
	for i := 0; i < 20000 && sched.Count("close.flagged") == before; i++ {
		time.Sleep(100 * time.Microsecond)
	}
	close(release)
	select {
	case <-ret:
	case <-time.After(30 * time.Second):
		e.c.Inconclusive("Shutdown did not return after a dirty stop")
		return false
	}
	select {
	case <-e.rig.serveRet:
	case <-time.After(20 * time.Second):
		e.c.Inconclusive("Serve did not return after a dirty stop")
		return false
	}
	e.c.Obs("dirty_stops", 1)
	return true
}

// checkExactlyOnce is the offline C02 oracle over the recorded log.
func (e *concEngine) checkExactlyOnce() {
	c := e.c
	e.mu.Lock()
	defer e.mu.Unlock()
	count := map[string]int{}
	first := map[string]concExec{}
	for _, x := range e.execs {
		count[x.ID]++
		if _, ok := first[x.ID]; !ok {
			first[x.ID] = x
		}
	}
	for _, s := range e.order {
		n := count[s.ID]
		c.Eval(1)
		switch {
		case s.Kind == "unmatched":
			if s.Err == "" {
				c.Violation("C02/with-unmatched-accepted", fmt.Sprintf("With(%q) returned nil although no handler matches", s.RID), s)
			}
			if n > 0 {
				c.Violation("C02/with-unmatched-ran", fmt.Sprintf("With(%q) ran its callback although no handler matches", s.RID), s)
			}
		case s.Err != "":
			c.Violation("C02/with-error-on-match:"+s.Kind, fmt.Sprintf("%s on %q failed: %s", s.Kind, s.RID, s.Err), s)
		case n == 0 && s.MayDrop:
			c.Obs("dropped_at_shutdown", 1)
		case n == 0:
			c.Violation("C02/lost:"+s.Kind, fmt.Sprintf("callback %s (%s on %q, group %q) was accepted while the service was started but never ran", s.ID, s.Kind, s.RID, s.Group), map[string]interface{}{"submission": s, "config": e.cfg})
		case n > 1:
			c.Violation("C02/duplicate:"+s.Kind, fmt.Sprintf("callback %s (%s on %q) ran %d times", s.ID, s.Kind, s.RID, n), map[string]interface{}{"submission": s, "config": e.cfg})
		}
	}
	// order per (cycle, producer, group, channel)
	type key struct {
		cycle, p  int
		group, ch string
	}
	last := map[key]*concSub{}
	lastStart := map[key]int64{}
	contended := map[string]map[int]bool{}
	for _, s := range e.order {
		if s.Kind == "unmatched" || s.Parallel || s.Producer < 0 {
			continue
		}
		x, ok := first[s.ID]
		if !ok {
			continue
		}
		ch := "with"
		if strings.HasPrefix(s.Kind, "req:") {
			ch = "req"
		}
		k := key{s.Cycle, s.Producer, s.Group, ch}
		if prev, ok := last[k]; ok && x.Start < lastStart[k] {
			c.Violation("C02/order:"+ch, fmt.Sprintf("producer %d submitted %s before %s to group %q, but %s started first", s.Producer, prev.ID, s.ID, s.Group, s.ID),
				map[string]interface{}{"earlier": prev, "later": s, "config": e.cfg})
		}
		last[k] = s
		lastStart[k] = x.Start
		if contended[s.Group] == nil {
			contended[s.Group] = map[int]bool{}
		}
		contended[s.Group][s.Producer] = true
	}
	// real-time order of With* submissions per group: a call that returned before another call
	// began was queued first (the enqueue is synchronous) and must start first
	{
		byGroup := map[string][]*concSub{}
		for _, s := range e.order {
			if s.Parallel || s.Kind == "unmatched" || strings.HasPrefix(s.Kind, "req:") || s.Kind == "query" || s.SeqRet == 0 {
				continue
			}
			if _, ok := first[s.ID]; !ok {
				continue
			}
			k := fmt.Sprintf("%d/%s", s.Cycle, s.Group)
			byGroup[k] = append(byGroup[k], s)
		}
		for g, ss := range byGroup {
			byRet := append([]*concSub(nil), ss...)
			sort.Slice(byRet, func(i, j int) bool { return byRet[i].SeqRet < byRet[j].SeqRet })
			sort.Slice(ss, func(i, j int) bool { return ss[i].SeqCall < ss[j].SeqCall })
			var latest *concSub // the submission with the latest start among those that had returned
			k := 0
			for _, b := range ss {
				for k < len(byRet) && byRet[k].SeqRet < b.SeqCall {
					if latest == nil || first[byRet[k].ID].Start > first[latest.ID].Start {
						latest = byRet[k]
					}
					k++
				}
				if latest != nil && first[latest.ID].Start > first[b.ID].Start {
					c.Violation("C02/order:realtime", fmt.Sprintf("group %s: %s (%s) had returned before %s (%s) was called, but started after it", g, latest.ID, latest.Kind, b.ID, b.Kind),
						map[string]interface{}{"earlier": latest, "later": b, "config": e.cfg})
					break
				}
			}
		}
	}
	// baton: global order per group
	if e.cfg.Baton {
		byGroup := map[string][]*concSub{}
		for _, s := range e.order {
			if s.Global > 0 && !s.Parallel && s.Kind != "unmatched" {
				// requests and With* calls travel on different channels: each is checked on its own
				ch := "with"
				if strings.HasPrefix(s.Kind, "req:") {
					ch = "req"
				}
				k := fmt.Sprintf("%d/%s/%s", s.Cycle, s.Group, ch)
				byGroup[k] = append(byGroup[k], s)
			}
		}
		for g, ss := range byGroup {
			sort.Slice(ss, func(i, j int) bool { return ss[i].Global < ss[j].Global })
			var prev *concSub
			for _, s := range ss {
				x, ok := first[s.ID]
				if !ok {
					continue
				}
				if prev != nil && x.Start < first[prev.ID].Start {
					c.Violation("C02/order:baton", fmt.Sprintf("group %s: %s was submitted (happens-before) before %s but started after it", g, prev.ID, s.ID),
						map[string]interface{}{"earlier": prev, "later": s, "config": e.cfg})
				}
				prev = s
			}
		}
	}
	for g, ps := range contended {
		if len(ps) >= 2 {
			c.Distinct(fmt.Sprintf("%s/w%d/i%d/%s", c.Batch.Name, e.cfg.Workers, e.cfg.InCh, g))
		}
	}
}

// replyOrder checks that replies of requests appear on the connection within
// the execution interval of their callback (messages of one group are totally
// ordered consistently with the execution order).
func (e *concEngine) replyOrder(log []vconn.Msg) {
	e.mu.Lock()
	defer e.mu.Unlock()
	iv := map[string]concExec{}
	for _, x := range e.execs {
		iv[x.ID] = x
	}
	type gm struct {
		seq int64
		id  string
	}
	perGroup := map[string][]gm{}
	for _, m := range log {
		if !strings.HasPrefix(m.Subject, "_INBOX.c.") {
			continue
		}
		id := strings.TrimPrefix(m.Subject, "_INBOX.c.")
		x, ok := iv[id]
		if !ok {
			continue
		}
		if m.Seq < x.Start {
			e.c.Violation("C02/reply-before-callback", fmt.Sprintf("reply for %s was published (seq %d) before its callback started (seq %d)", id, m.Seq, x.Start), nil)
		}
		perGroup[fmt.Sprintf("%d/%s", x.Cycle, x.Group)] = append(perGroup[fmt.Sprintf("%d/%s", x.Cycle, x.Group)], gm{m.Seq, id})
	}
	for g, ms := range perGroup {
		if strings.HasSuffix(g, "/") {
			continue // parallel
		}
		for i := 1; i < len(ms); i++ {
			a, b := iv[ms[i-1].id], iv[ms[i].id]
			if a.Start > b.Start {
				e.c.Violation("C02/reply-order", fmt.Sprintf("group %s: reply of %s appears before reply of %s on the connection although its callback ran later", g, ms[i-1].id, ms[i].id), nil)
				return
			}
		}
	}
}

func (e *concEngine) report() {
	c := e.c
	e.mu.Lock()
	nExec, nSub := len(e.execs), len(e.order)
	gs := map[int64]bool{}
	groups := map[string]bool{}
	for _, x := range e.execs {
		gs[x.G] = true
		groups[x.Group] = true
	}
	e.mu.Unlock()
	c.Obs("callbacks_executed", int64(nExec))
	c.Obs("submissions", int64(nSub))
	c.Obs("parallel_overlaps_seen", e.occ.Overlaps())
	c.Obs("query_callbacks", atomic.LoadInt64(&e.queryCBs))
	c.Obs("nil_callbacks", atomic.LoadInt64(&e.nilCBs))
	c.Obs("occupancy_violations", atomic.LoadInt64(&e.occViol))
	c.Max("worker_goroutines_used", int64(len(gs)))
	c.Max("groups_used", int64(len(groups)))
	for k, v := range sched.Counts() {
		c.Obs("hook:"+k, v)
	}
}
