// Package props contains one workload + oracle per property (C01..C20).
package props

import (
	"fmt"
	"math/rand"
	"runtime"
	"sort"
	"strings"

	res "github.com/jirenius/go-res"

	"verif/harness/internal/core"
)

// try runs f and returns the recovered panic value (nil if none).
func try(f func()) (pv interface{}) {
	defer func() {
		if v := recover(); v != nil {
			pv = v
		}
	}()
	f()
	return nil
}

// tryStack is like try but also returns whether a go-res frame raised it.
func tryStack(f func()) (pv interface{}, stack string) {
	defer func() {
		if v := recover(); v != nil {
			pv = v
			buf := make([]byte, 8192)
			stack = string(buf[:runtime.Stack(buf, false)])
		}
	}()
	f()
	return nil, ""
}

func short(s string, n int) string {
	if len(s) > n {
		return s[:n] + "..."
	}
	return s
}

func sortedKeys(m map[string]string) []string {
	ks := make([]string, 0, len(m))
	for k := range m {
		ks = append(ks, k)
	}
	sort.Strings(ks)
	return ks
}

func mapStr(m map[string]string) string {
	var sb strings.Builder
	for _, k := range sortedKeys(m) {
		fmt.Fprintf(&sb, "%s=%s;", k, m[k])
	}
	return sb.String()
}

func mapsEqual(a, b map[string]string) bool {
	if len(a) != len(b) {
		return false
	}
	for k, v := range a {
		if w, ok := b[k]; !ok || w != v {
			return false
		}
	}
	return true
}

func tierPick(t core.Tier, quick, thorough int) int {
	if t == core.Thorough {
		return thorough
	}
	return quick
}

func q(s string) string { return fmt.Sprintf("%q", s) }

func newRand(seed int64) *rand.Rand { return rand.New(rand.NewSource(seed)) }

// predefinedErrors: the exported error values of the library with the code and message
// they are documented with. Handlers use them as they are (r.Error(res.ErrNotFound)), so
// nothing the library does may change them.
var predefinedErrors = []struct {
	name      string
	e         *res.Error
	code, msg string
}{
	{"ErrAccessDenied", res.ErrAccessDenied, "system.accessDenied", "Access denied"},
	{"ErrInternalError", res.ErrInternalError, "system.internalError", "Internal error"},
	{"ErrInvalidParams", res.ErrInvalidParams, "system.invalidParams", "Invalid parameters"},
	{"ErrInvalidQuery", res.ErrInvalidQuery, "system.invalidQuery", "Invalid query"},
	{"ErrMethodNotFound", res.ErrMethodNotFound, "system.methodNotFound", "Method not found"},
	{"ErrNotFound", res.ErrNotFound, "system.notFound", "Not found"},
	{"ErrTimeout", res.ErrTimeout, "system.timeout", "Request timeout"},
}

// checkPredefinedErrors reports a predefined error value that no longer has its
// documented content (called at the end of batches that drove handlers and query callbacks).
func checkPredefinedErrors(c *core.Ctx, prop string) {
	for _, pe := range predefinedErrors {
		if pe.e == nil || pe.e.Code != pe.code || pe.e.Message != pe.msg || pe.e.Data != nil {
			c.Violation(prop+"/predefined-error-altered:"+pe.name, fmt.Sprintf("res.%s is now %s; it is documented (and was at start) as code %q message %q without data: every later response built from it carries the altered content", pe.name, jsonStr(pe.e), pe.code, pe.msg), nil)
		}
	}
	c.Obs("predefined_error_checks", 1)
}
