// Package props contains one workload + oracle per property (C01..C20).
package props

import (
	"fmt"
	"math/rand"
	"runtime"
	"sort"
	"strings"

	"verif/harness/internal/core"
)

// try runs f and returns the recovered panic value (nil if none).
func try(f func()) (pv interface{}) {
	defer func() {
		if v := recover(); v != nil {
			pv = v
		}
	}()
	f()
	return nil
}

// tryStack is like try but also returns whether a go-res frame raised it.
func tryStack(f func()) (pv interface{}, stack string) {
	defer func() {
		if v := recover(); v != nil {
			pv = v
			buf := make([]byte, 8192)
			stack = string(buf[:runtime.Stack(buf, false)])
		}
	}()
	f()
	return nil, ""
}

func short(s string, n int) string {
	if len(s) > n {
		return s[:n] + "..."
	}
	return s
}

func sortedKeys(m map[string]string) []string {
	ks := make([]string, 0, len(m))
	for k := range m {
		ks = append(ks, k)
	}
	sort.Strings(ks)
	return ks
}

func mapStr(m map[string]string) string {
	var sb strings.Builder
	for _, k := range sortedKeys(m) {
		fmt.Fprintf(&sb, "%s=%s;", k, m[k])
	}
	return sb.String()
}

func mapsEqual(a, b map[string]string) bool {
	if len(a) != len(b) {
		return false
	}
	for k, v := range a {
		if w, ok := b[k]; !ok || w != v {
			return false
		}
	}
	return true
}

func tierPick(t core.Tier, quick, thorough int) int {
	if t == core.Thorough {
		return thorough
	}
	return quick
}

func q(s string) string { return fmt.Sprintf("%q", s) }

func newRand(seed int64) *rand.Rand { return rand.New(rand.NewSource(seed)) }
