package props

import (
	"fmt"
	"strings"
	"sync"
	"sync/atomic"
	"time"

	res "github.com/jirenius/go-res"
	nats "github.com/nats-io/nats.go"

	"verif/harness/internal/sched"
	"verif/harness/internal/vconn"
)

type vconnMsg = vconn.Msg

// cntLogger is a logger that counts entries and keeps the last few errors.
type cntLogger struct {
	mu     sync.Mutex
	errs   int64
	last   []string
	traces int64
}

func (l *cntLogger) Infof(string, ...interface{}) {}
func (l *cntLogger) Tracef(string, ...interface{}) {
	atomic.AddInt64(&l.traces, 1)
}
func (l *cntLogger) Errorf(format string, v ...interface{}) {
	l.mu.Lock()
	l.errs++
	if len(l.last) < 20 {
		l.last = append(l.last, short(fmt.Sprintf(format, v...), 300))
	}
	l.mu.Unlock()
}
func (l *cntLogger) Errors() int64 {
	l.mu.Lock()
	defer l.mu.Unlock()
	return l.errs
}

var (
	rigOnce   sync.Once
	doneMap   sync.Map // reply subject -> chan struct{}
	qdoneMap  sync.Map // query request reply subject -> chan struct{}
	inboxSeq  int64
	doneCount int64
)

func rigInstall() {
	rigOnce.Do(func() {
		sched.Install()
		sched.On("request.done", func(arg interface{}) {
			if m, ok := arg.(*nats.Msg); ok && m != nil {
				atomic.AddInt64(&doneCount, 1)
				if ch, ok := doneMap.LoadAndDelete(m.Reply); ok {
					close(ch.(chan struct{}))
				}
			}
		})
		sched.On("query.done", func(arg interface{}) {
			if m, ok := arg.(*nats.Msg); ok && m != nil {
				if ch, ok := qdoneMap.LoadAndDelete(m.Reply); ok {
					close(ch.(chan struct{}))
				}
			}
		})
	})
}

// rig is a go-res service served on a recording connection.
type rig struct {
	S        *res.Service
	C        *vconn.Conn
	L        *cntLogger
	serveRet chan error
	served   chan struct{}
	name     string
}

func newRig(name string, conf func(s *res.Service)) *rig {
	rigInstall()
	r := &rig{S: res.NewService(name), C: vconn.New(), L: &cntLogger{}, name: name,
		serveRet: make(chan error, 1), served: make(chan struct{})}
	r.S.SetLogger(r.L)
	if conf != nil {
		conf(r.S)
	}
	return r
}

// start serves on the connection and waits until the service is listening.
func (r *rig) start() error {
	var once sync.Once
	r.S.SetOnServe(func(*res.Service) { once.Do(func() { close(r.served) }) })
	go func() { r.serveRet <- r.S.Serve(r.C) }()
	select {
	case <-r.served:
		return nil
	case err := <-r.serveRet:
		r.serveRet <- err
		if err == nil {
			return fmt.Errorf("Serve returned nil before serving")
		}
		return err
	case <-time.After(20 * time.Second):
		return fmt.Errorf("timeout waiting for service start")
	}
}

// restart serves the same service again on a fresh connection.
func (r *rig) restart() error {
	noGoID := r.C.NoGoID
	r.C = vconn.New()
	r.C.NoGoID = noGoID // set before the connection is in use (recording reads it unsynchronised)
	r.serveRet = make(chan error, 1)
	r.served = make(chan struct{})
	return r.start()
}

func newInbox() string {
	return fmt.Sprintf("_INBOX.v%d", atomic.AddInt64(&inboxSeq, 1))
}

// send delivers a request and returns its unique reply inbox and a channel
// closed when the service has completely processed the request.
func (r *rig) send(subject string, payload []byte) (inbox string, done chan struct{}, delivered int) {
	inbox = newInbox()
	done = make(chan struct{})
	doneMap.Store(inbox, done)
	delivered = r.C.Deliver(subject, inbox, payload)
	return
}

func waitCh(ch chan struct{}, d time.Duration) bool {
	select {
	case <-ch:
		return true
	case <-time.After(d):
		return false
	}
}

// isPreResponse: payload of the documented pre-response shape key:"value".
func isPreResponse(data []byte) bool {
	return len(data) > 0 && ((data[0]|32) >= 'a' && (data[0]|32) <= 'z')
}

// replies splits the messages published on inbox into responses and
// pre-responses.
func replies(log []vconn.Msg, inbox string) (resp, pre []vconn.Msg) {
	for _, m := range log {
		if m.Subject != inbox {
			continue
		}
		if isPreResponse(m.Data) {
			pre = append(pre, m)
		} else {
			resp = append(resp, m)
		}
	}
	return
}

// stop shuts the service down and waits for Serve to return.
func (r *rig) stop() error {
	err := r.S.Shutdown()
	select {
	case <-r.serveRet:
	case <-time.After(20 * time.Second):
		return fmt.Errorf("Serve did not return after Shutdown")
	}
	return err
}

func payloadStrs(ms []vconn.Msg) []string {
	var out []string
	for _, m := range ms {
		out = append(out, short(m.Payload, 200))
	}
	return out
}

func hasPrefixAny(s string, ps ...string) bool {
	for _, p := range ps {
		if strings.HasPrefix(s, p) {
			return true
		}
	}
	return false
}
