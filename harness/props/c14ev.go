package props

import (
	"encoding/json"
	"fmt"
	"net/url"
	"sort"
	"strconv"
	"strings"
	"sync"
	"time"

	res "github.com/jirenius/go-res"
	"github.com/jirenius/go-res/store"
	"github.com/jirenius/go-res/store/mockstore"

	"verif/harness/internal/core"
)

// c14ev: the event-carrying half of store.QueryHandler. The badgerstore query
// store only ever reports "affected: fetch again"; a query store may instead
// describe the change of a result as add/remove events (store.ResultEvent),
// which the handler transforms (ids to references, or into one change event for
// model-typed results) and publishes - as events on ordinary resources, as the
// events of a query response on query resources. Here the query store is the
// shipped mockstore.QueryStore over a model owned by the harness, whose
// QueryChange.Events computes a correct event list (or asks for a reset, per
// mutation); a gateway model applies what the service publishes and must end
// up with what a fresh get returns.

type evModel struct {
	mu sync.Mutex
	m  map[string]string // id -> key
}

func (em *evModel) snapshot() map[string]string {
	em.mu.Lock()
	defer em.mu.Unlock()
	cp := make(map[string]string, len(em.m))
	for k, v := range em.m {
		cp[k] = v
	}
	return cp
}

// evResult: ids whose key starts with prefix, ordered by (key,id), reversed,
// cut by offset and limit (negative: unlimited).
func evResult(m map[string]string, q url.Values) []string {
	prefix := q.Get("prefix")
	var ids []string
	for id, k := range m {
		if strings.HasPrefix(k, prefix) {
			ids = append(ids, id)
		}
	}
	sort.Slice(ids, func(i, j int) bool {
		if m[ids[i]] != m[ids[j]] {
			return m[ids[i]] < m[ids[j]]
		}
		return ids[i] < ids[j]
	})
	if q.Get("rev") == "1" {
		for i, j := 0, len(ids)-1; i < j; i, j = i+1, j-1 {
			ids[i], ids[j] = ids[j], ids[i]
		}
	}
	off, _ := strconv.Atoi(q.Get("offset"))
	if off > len(ids) {
		off = len(ids)
	}
	ids = ids[off:]
	if lim, err := strconv.Atoi(q.Get("limit")); err == nil && lim >= 0 && lim < len(ids) {
		ids = ids[:lim]
	}
	if ids == nil {
		ids = []string{}
	}
	return ids
}

// evDiff describes rb -> ra as remove and add events; changed is the id whose key
// was mutated (the only element that may change its place among the others).
func evDiff(rb, ra []string, changed string) []store.ResultEvent {
	var evs []store.ResultEvent
	cur := append([]string(nil), rb...)
	in := map[string]bool{}
	for _, x := range ra {
		in[x] = true
	}
	for i := len(cur) - 1; i >= 0; i-- {
		if cur[i] == changed || !in[cur[i]] {
			evs = append(evs, store.ResultEvent{Name: "remove", Idx: i, Value: cur[i]})
			cur = append(cur[:i], cur[i+1:]...)
		}
	}
	for i, x := range ra {
		if i >= len(cur) || cur[i] != x {
			evs = append(evs, store.ResultEvent{Name: "add", Idx: i, Value: x})
			cur = append(cur[:i], append([]string{x}, cur[i:]...)...)
		}
	}
	return evs
}

func evNorm(q url.Values) (url.Values, string) {
	n := url.Values{}
	n.Set("prefix", q.Get("prefix"))
	for _, k := range []string{"limit", "offset"} {
		if v, err := strconv.Atoi(q.Get(k)); err == nil {
			n.Set(k, strconv.Itoa(v))
		}
	}
	if q.Get("rev") == "1" {
		n.Set("rev", "1")
	}
	return n, n.Encode()
}

type evEntry struct {
	rid, rname, query string
	model             bool
	list              []string          // collection: rids
	props             map[string]string // model: id -> rid
}

func (e *evEntry) String() string {
	if e.model {
		b, _ := json.Marshal(e.props)
		return string(b)
	}
	return strings.Join(e.list, ",")
}

func c14EventsRun(c *core.Ctx, b core.Batch) {
	var p idxParams
	json.Unmarshal(b.Params, &p)
	rigInstall()
	for h := 0; h < p.Histories; h++ {
		if !c14EventsHistory(c, p, h) {
			return
		}
	}
}

func c14EventsHistory(c *core.Ctx, p idxParams, h int) bool {
	r := newRand(core.SubSeed(c.Batch.Seed, fmt.Sprintf("%s/%d", c.Batch.Name, h)))
	em := &evModel{m: map[string]string{}}
	qs := mockstore.NewQueryStore(func(q url.Values) (interface{}, error) { return evResult(em.snapshot(), q), nil })
	toRID := func(id string) string { return "svc.item." + id }
	ctrans, mtrans := store.IDToRIDCollectionTransformer(toRID), store.IDToRIDModelTransformer(toRID)
	byKey := []string{"a", "ab", "b", "z"}
	prefixOf := func(rname string, pp map[string]string) (url.Values, error) {
		return url.Values{"prefix": {pp["p"]}}, nil
	}
	affected := func(pat res.Pattern, qc store.QueryChange) []string {
		var out []string
		for _, p := range byKey {
			out = append(out, string(pat.ReplaceTag("p", p)))
		}
		return out
	}
	qrh := func(rname string, pp map[string]string, q url.Values) (url.Values, string, error) {
		v, norm := evNorm(q)
		return v, norm, nil
	}
	rg := newRig("svc", func(s *res.Service) {
		s.SetQueryEventDuration(750 * time.Millisecond)
		s.Handle("item.$id", res.GetModel(func(r res.ModelRequest) { r.NotFound() }))
		// the With* forms of the handler options are the documented builder style
		s.Handle("all", res.Collection, store.QueryHandler{}.WithQueryStore(qs).WithTransformer(ctrans))
		s.Handle("bykey.$p", res.Collection, store.QueryHandler{QueryStore: qs}.WithTransformer(ctrans).WithRequestHandler(prefixOf).WithAffectedResources(affected))
		s.Handle("search", res.Collection, store.QueryHandler{QueryStore: qs, Transformer: ctrans}.WithQueryRequestHandler(qrh))
		s.Handle("members", res.Model, store.QueryHandler{QueryStore: qs, Transformer: mtrans})
		s.Handle("mbykey.$p", res.Model, store.QueryHandler{QueryStore: qs, Transformer: mtrans, RequestHandler: prefixOf, AffectedResources: affected})
		s.Handle("msearch", res.Model, store.QueryHandler{QueryStore: qs, Transformer: mtrans, QueryRequestHandler: qrh})
		// untransformed: the store's ids are served as they are
		s.Handle("rawids", res.Collection, store.QueryHandler{QueryStore: qs})
	})
	rg.C.NoGoID = true
	if err := rg.start(); err != nil {
		c.Inconclusive("start: " + err.Error())
		return false
	}
	defer rg.stop()

	get := func(e *evEntry) (ok bool) {
		q := ""
		if i := strings.IndexByte(e.rid, '?'); i >= 0 {
			q = e.rid[i+1:]
		}
		pl, _ := json.Marshal(map[string]string{"query": q})
		start := rg.C.Len()
		inbox, done, n := rg.send("get."+e.rname, pl)
		if n != 1 || !waitCh(done, 10*time.Second) {
			c.Inconclusive("get " + e.rid + " not processed")
			return false
		}
		resp, _ := replies(rg.C.Since(start), inbox)
		if len(resp) != 1 {
			c.Inconclusive("get " + e.rid + " no response")
			return false
		}
		var rr struct {
			Result struct {
				Collection []json.RawMessage          `json:"collection"`
				Model      map[string]json.RawMessage `json:"model"`
				Query      string                     `json:"query"`
			} `json:"result"`
			Error *res.Error `json:"error"`
		}
		if err := json.Unmarshal(resp[0].Data, &rr); err != nil || rr.Error != nil {
			c.Violation("C14/events:get-error", fmt.Sprintf("get %s answered %s", e.rid, resp[0].Payload), nil)
			return false
		}
		e.query = rr.Result.Query
		e.list, e.props = []string{}, map[string]string{}
		for _, x := range rr.Result.Collection {
			e.list = append(e.list, evRefOrString(x))
		}
		for k, x := range rr.Result.Model {
			e.props[k] = evRefOrString(x)
		}
		return true
	}
	rids := []string{"svc.all", "svc.bykey.a", "svc.bykey.ab", "svc.bykey.z", "svc.members", "svc.mbykey.a", "svc.mbykey.b", "svc.rawids",
		"svc.search?prefix=a", "svc.search?prefix=&limit=3", "svc.search?prefix=&limit=2&offset=1", "svc.search?prefix=&rev=1&limit=4", "svc.search?prefix=b&offset=1",
		"svc.msearch?prefix=a", "svc.msearch?prefix=&limit=3", "svc.msearch?prefix=&rev=1&limit=2&offset=1"}
	var cache []*evEntry
	for _, rid := range rids {
		e := &evEntry{rid: rid, rname: rid, model: strings.HasPrefix(rid, "svc.m")}
		if i := strings.IndexByte(rid, '?'); i >= 0 {
			e.rname = rid[:i]
		}
		if !get(e) {
			return false
		}
		cache = append(cache, e)
	}
	applyEvent := func(e *evEntry, name string, data json.RawMessage) {
		switch name {
		case "add", "remove":
			var d struct {
				Idx   int             `json:"idx"`
				Value json.RawMessage `json:"value"`
			}
			json.Unmarshal(data, &d)
			if e.model {
				c.Violation("C14/events:collection-event-on-model", fmt.Sprintf("%s event published for the model %s", name, e.rid), nil)
				return
			}
			if name == "add" {
				if d.Idx < 0 || d.Idx > len(e.list) {
					c.Violation("C14/events:index-range", fmt.Sprintf("add event idx %d out of range for the client's list of %s (length %d)", d.Idx, e.rid, len(e.list)), nil)
					return
				}
				e.list = append(e.list[:d.Idx], append([]string{evRefOrString(d.Value)}, e.list[d.Idx:]...)...)
			} else {
				if d.Idx < 0 || d.Idx >= len(e.list) {
					c.Violation("C14/events:index-range", fmt.Sprintf("remove event idx %d out of range for the client's list of %s (length %d)", d.Idx, e.rid, len(e.list)), nil)
					return
				}
				e.list = append(e.list[:d.Idx], e.list[d.Idx+1:]...)
			}
		case "change":
			var d struct {
				Values map[string]json.RawMessage `json:"values"`
			}
			json.Unmarshal(data, &d)
			if !e.model {
				c.Violation("C14/events:model-event-on-collection", fmt.Sprintf("change event published for the collection %s", e.rid), nil)
				return
			}
			for k, v := range d.Values {
				if strings.Contains(string(v), `"action"`) {
					delete(e.props, k)
				} else {
					e.props[k] = evRefOrString(v)
				}
			}
		}
	}
	ids := []string{"i1", "i2", "i3", "i4", "i5", "i6", "i7"}
	keys := []string{"a", "ab", "abc", "b", "ba", "c"}
	pos := rg.C.Len()
	nEvents, nResets, nQueryEvents := 0, 0, 0
	for n := 1; n <= 30+r.Intn(30); n++ {
		id := ids[r.Intn(len(ids))]
		mb := em.snapshot()
		em.mu.Lock()
		kb, had := em.m[id]
		var before, after interface{}
		if had {
			before = kb
		}
		if had && r.Intn(3) == 0 {
			delete(em.m, id)
		} else {
			k := keys[r.Intn(len(keys))]
			em.m[id] = k
			after = k
		}
		em.mu.Unlock()
		ma := em.snapshot()
		mode := []string{"events", "events", "events", "reset"}[r.Intn(4)]
		mut := map[string]interface{}{"id": id, "before": before, "after": after, "query_store_reports": mode}
		qs.TriggerQueryChange(mockstore.QueryChange{IDValue: id, BeforeValue: before, AfterValue: after,
			OnEvents: func(q url.Values) ([]store.ResultEvent, bool, error) {
				rb, ra := evResult(mb, q), evResult(ma, q)
				if strings.Join(rb, ",") == strings.Join(ra, ",") {
					return nil, false, nil
				}
				if mode == "reset" {
					return nil, true, nil
				}
				return evDiff(rb, ra, id), false, nil
			}})
		c.Eval(1)
		log := rg.C.Since(pos)
		for _, msg := range log {
			switch {
			case msg.Subject == "system.reset":
				var re struct {
					Resources []string `json:"resources"`
				}
				json.Unmarshal(msg.Data, &re)
				for _, e := range cache {
					for _, pat := range re.Resources {
						if res.Pattern(pat).Matches(e.rname) {
							if !get(e) {
								return false
							}
							nResets++
						}
					}
				}
			case strings.HasPrefix(msg.Subject, "event.") && strings.HasSuffix(msg.Subject, ".query"):
				rname := strings.TrimSuffix(strings.TrimPrefix(msg.Subject, "event."), ".query")
				var qe struct {
					Subject string `json:"subject"`
				}
				json.Unmarshal(msg.Data, &qe)
				for _, e := range cache {
					if e.rname != rname || e.query == "" {
						continue
					}
					inbox, qd := newInbox(), make(chan struct{})
					qdoneMap.Store(inbox, qd)
					pl, _ := json.Marshal(map[string]string{"query": e.query})
					start := rg.C.Len()
					if rg.C.Deliver(qe.Subject, inbox, pl) != 1 || !waitCh(qd, 10*time.Second) {
						c.Inconclusive("query request not processed")
						return false
					}
					resp, _ := replies(rg.C.Since(start), inbox)
					if len(resp) != 1 {
						c.Violation("C14/events:query-request-response-count", fmt.Sprintf("query request got %d responses", len(resp)), mut)
						continue
					}
					nQueryEvents++
					var qr struct {
						Result *struct {
							Events []struct {
								Event string          `json:"event"`
								Data  json.RawMessage `json:"data"`
							} `json:"events"`
							Collection *[]json.RawMessage          `json:"collection"`
							Model      *map[string]json.RawMessage `json:"model"`
						} `json:"result"`
						Error *res.Error `json:"error"`
					}
					if err := json.Unmarshal(resp[0].Data, &qr); err != nil || qr.Error != nil || qr.Result == nil {
						c.Violation("C14/events:query-request-error", "query request for "+e.rid+" answered "+resp[0].Payload, mut)
						continue
					}
					if qr.Result.Collection != nil {
						e.list = []string{}
						for _, x := range *qr.Result.Collection {
							e.list = append(e.list, evRefOrString(x))
						}
					}
					if qr.Result.Model != nil {
						e.props = map[string]string{}
						for k, x := range *qr.Result.Model {
							e.props[k] = evRefOrString(x)
						}
					}
					for _, ev := range qr.Result.Events {
						nEvents++
						c.Obs("events_store_in_query_response:"+ev.Event, 1)
						applyEvent(e, ev.Event, ev.Data)
					}
				}
			case strings.HasPrefix(msg.Subject, "event."):
				rest := strings.TrimPrefix(msg.Subject, "event.")
				i := strings.LastIndexByte(rest, '.')
				rname, name := rest[:i], rest[i+1:]
				for _, e := range cache {
					if e.rname == rname && e.query == "" {
						nEvents++
						c.Obs("events_store_published:"+name, 1)
						applyEvent(e, name, msg.Data)
					}
				}
			}
		}
		pos = rg.C.Len()
		// coherence, and the served result against the reference
		for _, e := range cache {
			held := e.String()
			fresh := &evEntry{rid: e.rid, rname: e.rname, model: e.model}
			if !get(fresh) {
				return false
			}
			if fresh.String() != held {
				kind := "ordinary"
				if e.query != "" {
					kind = "query"
				}
				typ := "collection"
				if e.model {
					typ = "model"
				}
				d := copyDesc(mut)
				d["rid"], d["client_holds"], d["fresh_get"] = e.rid, held, fresh.String()
				c.Violation("C14/events:stale-client:"+kind+":"+typ, fmt.Sprintf("after mutation %v (query store reports %s) a client of %s applied what was published and holds %s, a fresh get returns %s", mut, mode, e.rid, held, fresh.String()), d)
				e.list, e.props = fresh.list, fresh.props
			} else if len(e.list)+len(e.props) > 0 {
				c.Distinct(fmt.Sprintf("%s/%d/%d/%s", c.Batch.Name, h, n, e.rid))
			}
			want := evExpected(ma, e, toRID)
			if fresh.String() != want {
				c.Violation("C14/events:get-mismatch:"+e.rname, fmt.Sprintf("get %s returned %s, the query store's result transforms to %s", e.rid, fresh.String(), want), mut)
			}
		}
		pos = rg.C.Len()
	}
	c.Obs("events_store_mutations", 1)
	c.Obs("events_applied", int64(nEvents))
	c.Obs("events_store_resets", int64(nResets))
	c.Obs("events_store_query_requests", int64(nQueryEvents))
	if h == 0 {
		c.Sample(map[string]interface{}{"scenario": "mockstore.QueryStore reporting add/remove events", "client_holds": rids, "events_applied": nEvents, "resets": nResets, "query_requests": nQueryEvents})
	}
	return true
}

func evRefOrString(raw json.RawMessage) string {
	var ref struct {
		RID string `json:"rid"`
	}
	if json.Unmarshal(raw, &ref) == nil && ref.RID != "" {
		return ref.RID
	}
	var s string
	if json.Unmarshal(raw, &s) == nil {
		return "str:" + s
	}
	return "raw:" + string(raw)
}

// evExpected: what a get of the entry's resource must return for model m.
func evExpected(m map[string]string, e *evEntry, toRID func(string) string) string {
	q := url.Values{}
	if i := strings.IndexByte(e.rid, '?'); i >= 0 {
		v, _ := url.ParseQuery(e.rid[i+1:])
		q, _ = evNorm(v)
	}
	for _, pre := range []string{"svc.bykey.", "svc.mbykey."} {
		if strings.HasPrefix(e.rname, pre) {
			q = url.Values{"prefix": {strings.TrimPrefix(e.rname, pre)}}
		}
	}
	ids := evResult(m, q)
	w := &evEntry{model: e.model, list: []string{}, props: map[string]string{}}
	for _, id := range ids {
		switch {
		case e.rname == "svc.rawids":
			w.list = append(w.list, "str:"+id)
		case e.model:
			w.props[id] = toRID(id)
		default:
			w.list = append(w.list, toRID(id))
		}
	}
	return w.String()
}
