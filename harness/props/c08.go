package props

import (
	"encoding/json"
	"errors"
	"fmt"
	"math/rand"
	"strings"
	"sync"
	"sync/atomic"
	"time"

	res "github.com/jirenius/go-res"

	"verif/harness/internal/core"
	"verif/harness/internal/mon"
	"verif/harness/internal/sched"
)

// C08 - Events apply, publish and notify in order; failed applies publish nothing.

type c08Params struct {
	Kind  string `json:"kind"` // scripts | concurrent
	Shard int    `json:"shard"`
	N     int    `json:"n"`
}

func init() {
	core.Register(&core.Prop{
		ID:    "C08",
		Level: "exploration",
		Rule: "a case is one callback (call handler or With callback) executing a script of event calls (change/add/remove/create/delete/custom/reaccess, valid and invalid, interleaved with Timeout and the reply) on a real Service; one global log is fed by the harness apply handlers, the recording connection and the listeners (sequence number + goroutine id each) and compared with the log computed from the script: apply, publish, listeners in that order on the calling goroutine; nothing after a failed / no-op / invalid call; listener arguments = (name, resource, new values, values returned by apply); messages of a callback in program order. " +
			"configurations: every apply handler present/absent (random subsets) with dynamic outcome ok/fail/nothing-changed, listeners direct, via Handler.Listeners, on mounted muxes and several per pattern, model/collection/untyped resources; a concurrent batch checks that message blocks of callbacks of one group never interleave. distinct non-trivial = distinct (configuration, script) pairs with at least one event call that has an apply handler or a listener",
		Assumptions: []string{
			"event calls in With callbacks are wrapped in recover by the harness (the library does not recover there); in request handlers a panicking event call ends the script like in user code",
		},
		Batches: func(seed int64, tier core.Tier) []core.Batch {
			var bs []core.Batch
			for s := 0; s < tierPick(tier, 8, 32); s++ {
				bs = append(bs, core.Batch{Name: fmt.Sprintf("scripts-%d", s), TimeoutS: 600, Params: core.Params(c08Params{Kind: "scripts", Shard: s, N: tierPick(tier, 2000, 15000)})})
			}
			for s := 0; s < tierPick(tier, 2, 6); s++ {
				bs = append(bs, core.Batch{Name: fmt.Sprintf("concurrent-%d", s), TimeoutS: 600, Params: core.Params(c08Params{Kind: "concurrent", Shard: s, N: tierPick(tier, 3000, 15000)})})
				bs = append(bs, core.Batch{Name: fmt.Sprintf("concurrent-race-%d", s), TimeoutS: 900, Race: true, Params: core.Params(c08Params{Kind: "concurrent", Shard: s, N: tierPick(tier, 1500, 6000)})})
			}
			return bs
		},
		MinEvaluations: func(t core.Tier) int64 { return 3000 },
		Run:            c08Run,
	})
}

type c08Entry struct {
	Seq    int64  `json:"seq"`
	G      int64  `json:"g"`
	Kind   string `json:"kind"` // apply | publish | listener
	Detail string `json:"detail"`
}

type c08Step struct {
	Ev    string `json:"ev"`    // change add remove create delete custom reaccess timeout reply
	Arg   string `json:"arg"`   // variant
	Apply string `json:"apply"` // ok fail nochange (dynamic outcome of the apply handler when present)
}

type c08Env struct {
	c        *core.Ctx
	rig      *rig
	mu       sync.Mutex
	log      []c08Entry
	present  map[string]bool // apply handler presence per event type
	outcome  string          // dynamic outcome for the next apply call
	nlisten  map[string]int  // listeners per pattern key (m, c, u, sub.m)
	applyRet interface{}     // what the apply handler returned last
	nfail    int64           // failing apply calls so far (selects the error returned)
	nest     bool            // the first listener of a pattern answers every event with a "pong" event on the same resource
}

func (e *c08Env) add(kind, detail string) {
	e.mu.Lock()
	e.log = append(e.log, c08Entry{Seq: mon.Seq(), G: mon.GoID(), Kind: kind, Detail: detail})
	e.mu.Unlock()
}

// the names the documentation of Resource.Event lists as pre-defined or reserved
var c08Reserved = []string{"change", "delete", "add", "remove", "patch", "reaccess", "unsubscribe", "query"}

var errApply = errors.New("apply failed")

// errApplyPool: what a failing apply handler may return - also the library's own
// predefined errors, which are failures like any other.
var errApplyPool = []error{errApply, res.ErrNotFound, res.ErrTimeout, res.ErrAccessDenied, &res.Error{Code: "system.notFound", Message: "gone"}, res.ErrInternalError, errApply}

func (e *c08Env) applyErr() error {
	return errApplyPool[int(atomic.AddInt64(&e.nfail, 1))%len(errApplyPool)]
}

// malformed event names: every one must be refused (nothing published, no listener)
var c08BadNames = []string{"a.b", "", "a b", " a", "a ", "a*b", "*", "a>b", ">", "a?b", "\ta", "a\n", "a\x7fb", "é", "a\x00", ".", "a."}

func jsonStr(v interface{}) string {
	b, err := json.Marshal(v)
	if err != nil {
		return "<unmarshalable>"
	}
	return string(b)
}

func (e *c08Env) configure(s *res.Service, r *rand.Rand) {
	e.present = map[string]bool{}
	e.nlisten = map[string]int{}
	for _, ev := range []string{"change", "add", "remove", "create", "delete"} {
		e.present[ev] = r.Intn(3) > 0
	}
	opts := func(typ string) []res.Option {
		o := []res.Option{res.Call("run", func(rq res.CallRequest) { e.runInHandler(rq) })}
		switch typ {
		case "m":
			o = append(o, res.Model)
		case "c":
			o = append(o, res.Collection)
		}
		if e.present["change"] {
			o = append(o, res.ApplyChange(func(rs res.Resource, ch map[string]interface{}) (map[string]interface{}, error) {
				e.add("apply", "change:"+rs.ResourceName()+":"+jsonStr(ch))
				switch e.outcome {
				case "fail":
					return nil, e.applyErr()
				case "nochange":
					return map[string]interface{}{}, nil
				}
				rev := map[string]interface{}{"old": "value", "n": 7}
				e.applyRet = rev
				return rev, nil
			}))
		}
		if e.present["add"] {
			o = append(o, res.ApplyAdd(func(rs res.Resource, v interface{}, idx int) error {
				e.add("apply", fmt.Sprintf("add:%s:%s@%d", rs.ResourceName(), jsonStr(v), idx))
				if e.outcome == "fail" {
					return e.applyErr()
				}
				return nil
			}))
		}
		if e.present["remove"] {
			o = append(o, res.ApplyRemove(func(rs res.Resource, idx int) (interface{}, error) {
				e.add("apply", fmt.Sprintf("remove:%s@%d", rs.ResourceName(), idx))
				if e.outcome == "fail" {
					return nil, e.applyErr()
				}
				e.applyRet = "removed-value"
				return "removed-value", nil
			}))
		}
		if e.present["create"] {
			o = append(o, res.ApplyCreate(func(rs res.Resource, data interface{}) error {
				e.add("apply", "create:"+rs.ResourceName()+":"+jsonStr(data))
				if e.outcome == "fail" {
					return e.applyErr()
				}
				return nil
			}))
		}
		if e.present["delete"] {
			o = append(o, res.ApplyDelete(func(rs res.Resource) (interface{}, error) {
				e.add("apply", "delete:"+rs.ResourceName())
				if e.outcome == "fail" {
					return nil, e.applyErr()
				}
				e.applyRet = map[string]interface{}{"deleted": "data"}
				return e.applyRet, nil
			}))
		}
		return o
	}
	listener := func(key string, n int) func(*res.Event) {
		return func(ev *res.Event) {
			d := map[string]interface{}{"name": ev.Name, "rname": ev.Resource.ResourceName()}
			switch ev.Name {
			case "change":
				d["new"], d["old"] = ev.NewValues, ev.OldValues
			case "add":
				d["value"], d["idx"] = ev.Value, ev.Idx
			case "remove":
				d["value"], d["idx"] = ev.Value, ev.Idx
			case "create", "delete":
				d["data"] = ev.Data
			default:
				d["payload"] = ev.Payload
			}
			e.add("listener", fmt.Sprintf("%s#%d@%s:%s", key, n, ev.Name, jsonStr(d)))
			if e.nest && n == 0 && ev.Name != "pong" {
				// an event sent from inside a listener: it is complete (published, heard by every
				// listener) before the outer event reaches the next listener - with the outer
				// event's own name and values
				ev.Resource.Event("pong", map[string]interface{}{"q": 2})
			}
		}
	}
	addL := func(mx *res.Mux, key, pattern string) {
		for k := 0; k < r.Intn(4); k++ {
			mx.AddListener(pattern, listener(key, e.nlisten[key]))
			e.nlisten[key]++
		}
	}
	// direct patterns, listeners through Handler.Listeners option and AddListener
	mo := opts("m")
	switch r.Intn(3) {
	case 0:
		n := e.nlisten["m"]
		mo = append(mo, res.OptionFunc(func(h *res.Handler) {
			h.Listeners = map[string]func(*res.Event){"m.$id": listener("m", n)}
		}))
		e.nlisten["m"]++
	case 1:
		// the Listeners map is keyed by the pattern listened on, which need not be the handler's own
		n, nc := e.nlisten["m"], e.nlisten["c"]
		mo = append(mo, res.OptionFunc(func(h *res.Handler) {
			h.Listeners = map[string]func(*res.Event){"m.$id": listener("m", n), "c.$id": listener("c", nc)}
		}))
		e.nlisten["m"]++
		e.nlisten["c"]++
	}
	s.Handle("m.$id", mo...)
	addL(s.Mux, "m", "m.$id")
	s.Handle("c.$id", opts("c")...)
	addL(s.Mux, "c", "c.$id")
	s.Handle("u.$id", opts("u")...)
	addL(s.Mux, "u", "u.$id")
	// the service's root resource (pattern "") and the root of a mounted mux
	s.Handle("", opts("m")...)
	addL(s.Mux, "root", "")
	sub := res.NewMux("")
	sub.Handle("m.$id", opts("m")...)
	addL(sub, "sub.m", "m.$id")
	sub.Handle("", opts("m")...)
	addL(sub, "sub.root", "")
	s.Mount("sub", sub)
	if r.Intn(2) == 0 { // listener registered through the parent on a mounted pattern
		s.AddListener("sub.m.$id", listener("sub.m", e.nlisten["sub.m"]))
		e.nlisten["sub.m"]++
	}
}

var c08Cur struct {
	mu    sync.Mutex
	steps []c08Step
	env   *c08Env
	rid   string
}

// runInHandler executes the current script inside a call handler: a panicking
// event call ends the script (the library answers with an error).
func (e *c08Env) runInHandler(rq res.CallRequest) {
	c08Cur.mu.Lock()
	steps := c08Cur.steps
	c08Cur.mu.Unlock()
	for _, st := range steps {
		e.outcome = st.Apply
		e.step(rq, rq.(*res.Request), st)
	}
}

func (e *c08Env) step(rs res.Resource, rq *res.Request, st c08Step) {
	switch st.Ev {
	case "change":
		switch st.Arg {
		case "empty":
			rs.ChangeEvent(map[string]interface{}{})
		default:
			rs.ChangeEvent(map[string]interface{}{"a": 1, "b": "x"})
		}
	case "add":
		if st.Arg == "neg" {
			rs.AddEvent("v", -1)
		} else {
			rs.AddEvent("v", 2)
		}
	case "remove":
		if st.Arg == "neg" {
			rs.RemoveEvent(-2)
		} else {
			rs.RemoveEvent(1)
		}
	case "create":
		if st.Arg == "nil" {
			rs.CreateEvent(nil) // a create event without data is still applied, published, heard
		} else {
			rs.CreateEvent(map[string]interface{}{"c": true})
		}
	case "delete":
		rs.DeleteEvent()
	case "reaccess":
		rs.ReaccessEvent()
	case "custom":
		switch st.Arg {
		case "reserved":
			// every event name the protocol reserves
			rs.Event(c08Reserved[int(mon.Now())%len(c08Reserved)], []interface{}{nil, map[string]int{"x": 1}}[int(mon.Now())%2])
		case "invalid":
			rs.Event(c08BadNames[int(mon.Now())%len(c08BadNames)], map[string]int{"x": 1})
		case "nil":
			rs.Event("ping", nil)
		default:
			rs.Event("ping", map[string]interface{}{"p": 1})
		}
	case "timeout":
		if rq != nil {
			rq.Timeout(1200 * time.Millisecond)
		}
	case "reply":
		if rq != nil {
			rq.OK("done")
		}
	}
}

// expected computes the expected log kinds/details of one step. stop=true
// when the step panics (ends a handler script).
func (e *c08Env) expected(st c08Step, typ, key, rname string) (exp []string, stop bool) {
	nl := e.nlisten[key]
	var evName string
	pub := func(ev string) { evName = ev; exp = append(exp, "publish:event."+rname+"."+ev) }
	listeners := func() {
		for i := 0; i < nl; i++ {
			exp = append(exp, fmt.Sprintf("listener:%s#%d@%s", key, i, evName))
			if i == 0 && e.nest {
				exp = append(exp, "publish:event."+rname+".pong")
				for j := 0; j < nl; j++ {
					exp = append(exp, fmt.Sprintf("listener:%s#%d@pong", key, j))
				}
			}
		}
	}
	applies := func(ev string) (cont bool) {
		if !e.present[ev] {
			return true
		}
		exp = append(exp, "apply:"+ev)
		switch st.Apply {
		case "fail":
			stop = true
			return false
		case "nochange":
			if ev == "change" {
				return false
			}
		}
		return true
	}
	switch st.Ev {
	case "change":
		if typ == "c" {
			return nil, true
		}
		if st.Arg == "empty" {
			return nil, false
		}
		if applies("change") {
			pub("change")
			listeners()
		}
	case "add", "remove":
		if typ == "m" || st.Arg == "neg" {
			return nil, true
		}
		if applies(st.Ev) {
			pub(st.Ev)
			listeners()
		}
	case "create", "delete":
		if applies(st.Ev) {
			pub(st.Ev)
			listeners()
		}
	case "reaccess":
		pub("reaccess")
	case "custom":
		if st.Arg == "reserved" || st.Arg == "invalid" {
			return nil, true
		}
		pub("ping")
		listeners()
	case "timeout":
		exp = append(exp, "publish:pre")
	case "reply":
		exp = append(exp, "publish:reply")
	}
	return exp, stop
}

func c08Run(c *core.Ctx, b core.Batch) {
	var p c08Params
	json.Unmarshal(b.Params, &p)
	rigInstall()
	if p.Kind == "concurrent" {
		c08Concurrent(c, p)
		return
	}
	r := c.Rand
	evs := []string{"change", "change", "add", "remove", "create", "delete", "custom", "reaccess", "timeout"}
	for done := 0; done < p.N; {
		env := &c08Env{c: c}
		env.rig = newRig("svc", func(s *res.Service) { env.configure(s, r) })
		// every other environment has a connection that refuses some event messages (as a NATS
		// connection does for an oversized message or a full reconnect buffer): a refused publish
		// is no failed apply, no-op change or invalid call - the listeners are still told
		flaky := done/60%2 == 1
		if flaky {
			env.rig.C.FailPublish = func(subject string, n int) error {
				if strings.HasPrefix(subject, "event.") && n%3 == 0 {
					return errors.New("injected publish failure")
				}
				return nil
			}
		}
		if err := env.rig.start(); err != nil {
			c.Inconclusive("start: " + err.Error())
			return
		}
		cfgDesc := map[string]interface{}{"apply_handlers": env.present, "listeners": env.nlisten, "connection_refuses_some_events": flaky}
		for k := 0; k < 60 && done < p.N; k++ {
			done++
			// script
			n := 1 + r.Intn(5)
			var steps []c08Step
			replied := false
			for i := 0; i < n; i++ {
				st := c08Step{Ev: evs[r.Intn(len(evs))], Apply: "ok"}
				switch r.Intn(8) {
				case 0:
					st.Apply = "fail"
				case 1:
					st.Apply = "nochange"
				}
				switch st.Ev {
				case "change":
					if r.Intn(5) == 0 {
						st.Arg = "empty"
					}
				case "add", "remove":
					if r.Intn(6) == 0 {
						st.Arg = "neg"
					}
				case "custom":
					st.Arg = []string{"", "nil", "reserved", "invalid", "nil"}[r.Intn(5)]
				case "create":
					if r.Intn(3) == 0 {
						st.Arg = "nil"
					}
				}
				steps = append(steps, st)
				if !replied && r.Intn(4) == 0 {
					steps = append(steps, c08Step{Ev: "reply"})
					replied = true
				}
			}
			typ := []string{"m", "c", "u", "sub.m", "m", "c", "u", "sub.m", "root", "sub.root"}[r.Intn(10)]
			key, rname := typ, "svc."+typ+fmt.Sprintf(".r%d", r.Intn(3))
			rtyp := typ
			switch typ {
			case "sub.m":
				rtyp = "m"
			case "root":
				rtyp, rname = "m", "svc"
			case "sub.root":
				rtyp, rname = "m", "svc.sub"
			}
			c.SetAdd("resource_shapes", typ)
			inHandler := r.Intn(2) == 0
			env.nest = r.Intn(4) == 0
			// every sixth script runs inside the callback of a query event, on the QueryRequest it
			// is given: that is a Resource too. Its change, add and remove methods collect events
			// for the query response instead of sending them, so the script keeps to the others.
			inQuery := false
			if k%6 == 5 {
				var qs []c08Step
				for _, st := range steps {
					if (st.Ev == "custom" || st.Ev == "create" || st.Ev == "delete" || st.Ev == "reaccess") && st.Arg != "reserved" && st.Arg != "invalid" {
						qs = append(qs, st)
					}
				}
				if len(qs) > 0 {
					steps, inHandler, inQuery = qs, false, true
				}
			}
			c08One(c, env, steps, rtyp, key, rname, inHandler, inQuery, cfgDesc)
			if done == 3 {
				c.Sample(map[string]interface{}{"config": cfgDesc, "script": steps, "resource": rname, "in_handler": inHandler})
			}
		}
		env.rig.stop()
	}
	for k, v := range sched.Counts() {
		c.Obs("hook:"+k, v)
	}
}

func c08One(c *core.Ctx, env *c08Env, steps []c08Step, typ, key, rname string, inHandler, inQuery bool, cfgDesc map[string]interface{}) {
	c.Eval(1)
	env.mu.Lock()
	env.log = env.log[:0]
	env.mu.Unlock()
	pos := env.rig.C.Len()
	env.rig.C.NoGoID = false
	var callerG int64
	var inbox, qinbox string
	// expected log
	var exp []string
	nontrivial := false
	for _, st := range steps {
		x, stop := env.expected(st, typ, key, rname)
		exp = append(exp, x...)
		for _, s := range x {
			if strings.HasPrefix(s, "apply:") || strings.HasPrefix(s, "listener:") {
				nontrivial = true
			}
		}
		if stop && inHandler {
			break
		}
	}
	if inHandler {
		c08Cur.mu.Lock()
		c08Cur.steps = steps
		c08Cur.mu.Unlock()
		var done chan struct{}
		inbox, done, _ = env.rig.send("call."+rname+".run", nil)
		if !waitCh(done, 10*time.Second) {
			c.Inconclusive("request.done not seen")
			return
		}
	} else if inQuery {
		done := make(chan struct{})
		var once sync.Once
		sent := make(chan struct{})
		err := env.rig.S.With(rname, func(rs res.Resource) {
			defer close(sent)
			rs.QueryEvent(func(qr res.QueryRequest) {
				if qr == nil {
					return
				}
				ran := false
				once.Do(func() { ran = true })
				if !ran {
					return
				}
				defer close(done)
				callerG = mon.GoID()
				for _, st := range steps {
					env.outcome = st.Apply
					try(func() { env.step(qr, nil, st) })
				}
			})
		})
		if err != nil {
			c.Violation("C08/with-error", "With failed: "+err.Error(), nil)
			return
		}
		if !waitCh(sent, 10*time.Second) {
			c.Inconclusive("With callback did not run")
			return
		}
		qsubj := ""
		for _, m := range env.rig.C.Since(pos) {
			if m.Subject == "event."+rname+".query" {
				var qe struct {
					Subject string `json:"subject"`
				}
				json.Unmarshal(m.Data, &qe)
				qsubj = qe.Subject
			}
		}
		if qsubj == "" {
			if fl, _ := cfgDesc["connection_refuses_some_events"].(bool); !fl {
				c.Inconclusive("query event not published")
			}
			return // (the flaky connection refused the query event itself)
		}
		qinbox = newInbox()
		processed := make(chan struct{})
		qdoneMap.Store(qinbox, processed)
		if n := env.rig.C.Deliver(qsubj, qinbox, []byte(`{"query":"a=1"}`)); n != 1 {
			c.Inconclusive("query request not delivered")
			return
		}
		// the callback has run and the response to the query request has been sent
		if !waitCh(done, 10*time.Second) || !waitCh(processed, 10*time.Second) {
			c.Inconclusive("query callback did not run")
			return
		}
		c.Obs("scripts_run_in_query_callbacks", 1)
		var e2 []string
		for _, s := range exp {
			if s != "publish:pre" && s != "publish:reply" {
				e2 = append(e2, s)
			}
		}
		exp = e2
	} else {
		done := make(chan struct{})
		err := env.rig.S.With(rname, func(rs res.Resource) {
			defer close(done)
			callerG = mon.GoID()
			for _, st := range steps {
				env.outcome = st.Apply
				try(func() { env.step(rs, nil, st) })
			}
		})
		if err != nil {
			c.Violation("C08/with-error", "With failed: "+err.Error(), nil)
			return
		}
		if !waitCh(done, 10*time.Second) {
			c.Inconclusive("With callback did not run")
			return
		}
		// timeout/reply steps do nothing in With callbacks
		var e2 []string
		for _, s := range exp {
			if s != "publish:pre" && s != "publish:reply" {
				e2 = append(e2, s)
			}
		}
		exp = e2
	}
	// observed: merge the harness log and the connection log by sequence number
	env.mu.Lock()
	obs := append([]c08Entry(nil), env.log...)
	env.mu.Unlock()
	for _, m := range env.rig.C.Since(pos) {
		if inQuery && (m.Subject == qinbox || m.Subject == "event."+rname+".query") {
			continue // the query event itself and the response to the query request
		}
		d := "publish:" + m.Subject
		switch {
		case m.Subject == inbox && isPreResponse(m.Data):
			d = "publish:pre"
		case m.Subject == inbox:
			d = "publish:reply"
		}
		obs = append(obs, c08Entry{Seq: m.Seq, G: m.G, Kind: "publish", Detail: strings.TrimPrefix(d, "publish:")})
	}
	sortEntries(obs)
	var got []string
	gs := map[int64]bool{}
	for _, o := range obs {
		d := o.Detail
		switch o.Kind {
		case "apply":
			d = strings.SplitN(d, ":", 2)[0]
		case "listener":
			d = strings.SplitN(d, ":", 2)[0]
		}
		got = append(got, o.Kind+":"+d)
		gs[o.G] = true
	}
	// In a handler a missing reply / error reply is appended by the library: drop a trailing reply the script did not make
	if inHandler && len(got) > 0 && got[len(got)-1] == "publish:reply" && (len(exp) == 0 || !containsStr(exp, "publish:reply")) {
		got = got[:len(got)-1]
		delete(gs, 0)
	}
	desc := map[string]interface{}{"config": cfgDesc, "script": steps, "resource": rname, "in_handler": inHandler, "in_query_callback": inQuery, "first_listener_sends_pong_event": env.nest, "expected": exp, "observed": got}
	if strings.Join(got, "|") != strings.Join(exp, "|") {
		c.Violation("C08/effect-order:"+c08Diff(exp, got), fmt.Sprintf("script %v on %s: observed effects %v, expected %v", steps, rname, got, exp), desc)
		return
	}
	if len(gs) > 1 {
		c.Violation("C08/foreign-goroutine", fmt.Sprintf("effects of one callback ran on %d different goroutines", len(gs)), desc)
	}
	if callerG != 0 && len(gs) == 1 && !gs[callerG] {
		c.Violation("C08/foreign-goroutine", "effects ran on a goroutine other than the one running the callback", desc)
	}
	// listener arguments
	for _, o := range obs {
		if o.Kind != "listener" {
			continue
		}
		arg := o.Detail[strings.IndexByte(o.Detail, ':')+1:]
		var d map[string]interface{}
		json.Unmarshal([]byte(arg), &d)
		want := map[string]interface{}{"rname": rname}
		switch d["name"] {
		case "change":
			want["new"] = map[string]interface{}{"a": 1.0, "b": "x"}
			if env.present["change"] {
				want["old"] = map[string]interface{}{"old": "value", "n": 7.0}
			} else {
				want["old"] = nil
			}
		case "add":
			want["value"], want["idx"] = "v", 2.0
		case "remove":
			want["idx"] = 1.0
			if env.present["remove"] {
				want["value"] = "removed-value"
			} else {
				want["value"] = nil
			}
		case "create":
			want["data"] = map[string]interface{}{"c": true}
			if d["data"] == nil {
				// one of the script's create events was made without data
				for _, st := range steps {
					if st.Ev == "create" && st.Arg == "nil" {
						want["data"] = nil
					}
				}
			}
		case "delete":
			if env.present["delete"] {
				want["data"] = map[string]interface{}{"deleted": "data"}
			} else {
				want["data"] = nil
			}
		case "ping":
			if d["payload"] != nil {
				want["payload"] = map[string]interface{}{"p": 1.0}
			}
		case "pong":
			want["payload"] = map[string]interface{}{"q": 2.0}
		}
		for k, w := range want {
			if jsonStr(d[k]) != jsonStr(w) {
				dd := copyDesc(desc)
				dd["listener_got"], dd["field"], dd["want"] = d, k, w
				c.Violation(fmt.Sprintf("C08/listener-args:%v:%s", d["name"], k), fmt.Sprintf("listener of %v event on %s got %s=%s, want %s", d["name"], rname, k, jsonStr(d[k]), jsonStr(w)), dd)
			}
		}
	}
	if nontrivial {
		c.Distinct(fmt.Sprintf("%v|%v|%v|%s|%v|%v|%v", env.present, env.nlisten, steps, typ, inHandler, env.nest, inQuery))
	}
}

func containsStr(l []string, s string) bool {
	for _, x := range l {
		if x == s {
			return true
		}
	}
	return false
}

func sortEntries(es []c08Entry) {
	for i := 1; i < len(es); i++ {
		for j := i; j > 0 && es[j].Seq < es[j-1].Seq; j-- {
			es[j], es[j-1] = es[j-1], es[j]
		}
	}
}

// c08Diff classifies the first difference between expected and observed.
func c08Diff(exp, got []string) string {
	i := 0
	for i < len(exp) && i < len(got) && exp[i] == got[i] {
		i++
	}
	kind := func(s string) string {
		if j := strings.IndexByte(s, ':'); j >= 0 {
			rest := s[j+1:]
			if k := strings.LastIndexByte(rest, '.'); k >= 0 && strings.HasPrefix(rest, "event.") {
				rest = "event." + rest[k+1:]
			}
			if k := strings.IndexByte(rest, '#'); k >= 0 {
				name := ""
				if a := strings.IndexByte(rest[k:], '@'); a >= 0 {
					name = rest[k+a:]
				}
				rest = rest[:k] + name
			}
			return s[:j] + ":" + rest
		}
		return s
	}
	e, g := "<end>", "<end>"
	if i < len(exp) {
		e = kind(exp[i])
	}
	if i < len(got) {
		g = kind(got[i])
	}
	return "want=" + e + ",got=" + g
}

// c08Concurrent: messages of one callback are contiguous within its group.
func c08Concurrent(c *core.Ctx, p c08Params) {
	rg := newRig("svc", func(s *res.Service) {
		s.SetWorkerCount([]int{2, 8, 32}[p.Shard%3])
		s.Handle("g.$grp.$id", res.Group("${grp}"), res.Call("run", func(r res.CallRequest) {
			id := r.Query()
			for k := 0; k < 3; k++ {
				r.Event("step", map[string]interface{}{"cb": id, "k": k})
			}
			r.OK(id)
		}))
	})
	rg.C.NoGoID = true
	if err := rg.start(); err != nil {
		c.Inconclusive("start: " + err.Error())
		return
	}
	defer rg.stop()
	sched.SetPerturb(c.Batch.Seed, 1)
	defer sched.SetPerturb(0, 0)
	var wg sync.WaitGroup
	const producers = 8
	per := p.N / producers
	dones := make([][]chan struct{}, producers)
	for g := 0; g < producers; g++ {
		wg.Add(1)
		go func(g int) {
			defer wg.Done()
			r := newRand(core.SubSeed(c.Batch.Seed, fmt.Sprintf("%s/%d", c.Batch.Name, g)))
			for i := 0; i < per; i++ {
				id := fmt.Sprintf("p%dn%d", g, i)
				grp := fmt.Sprintf("grp%d", r.Intn(3))
				rid := fmt.Sprintf("svc.g.%s.%d", grp, r.Intn(5))
				if r.Intn(2) == 0 {
					pl, _ := json.Marshal(map[string]string{"query": id})
					_, d, _ := rg.send("call."+rid+".run", pl)
					dones[g] = append(dones[g], d)
				} else {
					d := make(chan struct{})
					dones[g] = append(dones[g], d)
					rg.S.With(rid, func(rs res.Resource) {
						for k := 0; k < 3; k++ {
							rs.Event("step", map[string]interface{}{"cb": id, "k": k})
						}
						close(d)
					})
				}
			}
		}(g)
	}
	wg.Wait()
	for _, ds := range dones {
		for _, d := range ds {
			if !waitCh(d, 30*time.Second) {
				c.Inconclusive("callback did not complete")
				return
			}
		}
	}
	// per group: blocks contiguous, k in order
	type st struct {
		cur  string
		k    int
		seen map[string]bool
	}
	groups := map[string]*st{}
	for _, m := range rg.C.Log() {
		if !strings.HasPrefix(m.Subject, "event.svc.g.") {
			continue
		}
		toks := strings.Split(m.Subject, ".")
		grp := toks[3]
		var d struct {
			CB string `json:"cb"`
			K  int    `json:"k"`
		}
		json.Unmarshal(m.Data, &d)
		s := groups[grp]
		if s == nil {
			s = &st{seen: map[string]bool{}}
			groups[grp] = s
		}
		c.Eval(1)
		if d.CB != s.cur {
			if s.cur != "" && s.k != 2 {
				c.Violation("C08/interleaved-messages", fmt.Sprintf("group %s: messages of callback %s were interrupted by callback %s after %d of 3 messages", grp, s.cur, d.CB, s.k+1), nil)
			}
			if s.seen[d.CB] {
				c.Violation("C08/interleaved-messages", fmt.Sprintf("group %s: messages of callback %s appear in two separate blocks", grp, d.CB), nil)
			}
			s.seen[d.CB] = true
			s.cur, s.k = d.CB, -1
		}
		if d.K != s.k+1 {
			c.Violation("C08/program-order", fmt.Sprintf("group %s: callback %s message %d follows message %d", grp, d.CB, d.K, s.k), nil)
		}
		s.k = d.K
		c.Distinct(grp + "/" + d.CB)
	}
	c.Sample(map[string]interface{}{"scenario": "8 producers, 3 groups, 3 events per callback", "callbacks": p.N})
}
