package props

import (
	"bytes"
	"encoding/json"
	"fmt"
	"math/rand"
	"reflect"
	"runtime"
	"sort"
	"strings"
	"time"

	res "github.com/jirenius/go-res"

	"verif/harness/internal/core"
	"verif/harness/internal/ref"
	"verif/harness/internal/sched"
)

// C05 - Requests are dispatched to the right handler with unaltered data.

type c05Params struct {
	Kind  string `json:"kind"` // dispatch | fields
	Shard int    `json:"shard"`
	N     int    `json:"n"`
}

func init() {
	core.Register(&core.Prop{
		ID:    "C05",
		Level: "exploration",
		Rule: "a case is one request delivered to a real Service whose handlers are closures carrying (pattern, kind, method key); the invoked handler, everything it can read from the request object and the response code are compared with a reference dispatcher (type = up to first dot, call/auth method = after last dot, resource routed by the reference router, method -> * -> not found, new prefers the New handler). " +
			"configurations: seeded random handler sets over dotted, method-like patterns (test.a, test.a.set, test.a.$id, test.a.>, ...); requests: every (type, resource name, method) combination over fixed lists per configuration; payloads: every subset of the nine request fields (exhaustive, 512) with hostile strings, and random field values; " +
			"distinct non-trivial = distinct (configuration, subject) pairs where the resource name has >= 2 candidate patterns or the last token could be read as method or resource part, plus distinct field subsets",
		Assumptions: []string{
			"where two error conditions hold at once (malformed JSON and no handler) either documented code is accepted",
			"params/token sent as JSON null are not compared (RawParams doc: nil if the request had no parameters)",
			"requests are sent one at a time: this is an input-space property",
		},
		Batches: func(seed int64, tier core.Tier) []core.Batch {
			var bs []core.Batch
			for s := 0; s < tierPick(tier, 8, 32); s++ {
				bs = append(bs, core.Batch{Name: fmt.Sprintf("dispatch-%d", s), TimeoutS: 600,
					Params: core.Params(c05Params{Kind: "dispatch", Shard: s, N: tierPick(tier, 100, 800)})})
			}
			for s := 0; s < tierPick(tier, 2, 8); s++ {
				bs = append(bs, core.Batch{Name: fmt.Sprintf("fields-%d", s), TimeoutS: 600,
					Params: core.Params(c05Params{Kind: "fields", Shard: s, N: tierPick(tier, 2, 30)})})
			}
			return bs
		},
		MinEvaluations: func(t core.Tier) int64 { return 5000 },
		Run:            c05Run,
	})
}

// snapshot of what a handler saw.
type c05Snap struct {
	Marker     string
	RName      string
	Params     map[string]string
	Query      string
	Type       string
	Method     string
	CID        string
	RawParams  []byte
	RawToken   []byte
	Header     map[string][]string
	Host       string
	RemoteAddr string
	URI        string
	IsHTTP     bool
	Group      string
	// what ParseParams / ParseToken delivered into a json.RawMessage (nil: left untouched)
	ParsedParams, ParsedToken json.RawMessage
	ParsePanic                string
}

type c05HandlerSpec struct {
	Pattern string   `json:"pattern"` // relative to service name
	Access  bool     `json:"access,omitempty"`
	Get     bool     `json:"get,omitempty"`
	Call    []string `json:"call,omitempty"`
	Auth    []string `json:"auth,omitempty"`
	New     bool     `json:"new,omitempty"`
}

type c05State struct {
	snaps   []c05Snap
	outcome string
	errv    *res.Error // the library error value used by the *-reserr outcomes
}

// c05ErrPool: handler-built errors of the library's error type, including ones
// that reuse the predefined system codes with their own message and data.
var c05ErrPool = []*res.Error{
	errRes,
	{Code: "system.notFound", Message: "User 42 does not exist", Data: map[string]interface{}{"userId": 42}},
	{Code: "system.methodNotFound", Message: "No such method here", Data: []int{1, 2}},
	{Code: "system.accessDenied", Message: "Need role admin", Data: "admin"},
	{Code: "system.internalError", Message: "disk full", Data: map[string]interface{}{"free": 0}},
	{Code: "system.invalidParams", Message: "name too long", Data: map[string]interface{}{"max": 8}},
	{Code: "system.invalidQuery", Message: "bad limit"},
	{Code: "system.timeout", Message: "backend timed out", Data: 30},
	{Code: "system.notFound", Message: "Not found", Data: true},
	{Code: "system.accessDenied", Message: "access denied"},
	{Code: "a.b", Message: ""},
}

func (st *c05State) err() *res.Error {
	if st.errv == nil {
		return errRes
	}
	return st.errv
}

var c05Outcomes = []string{"marker", "marker", "marker", "error-reserr", "error-plain", "panic-reserr", "panic-err", "panic-str", "panic-int", "none", "error-std-notfound", "error-wrapped", "panic-wrapped", "panic-nil"}

// an error of another type that merely wraps a *res.Error is not "an error value of the library's error type"
var errWrapped = fmt.Errorf("wrapped: %w", errRes)

func c05Snapshot(marker string, r *res.Request) c05Snap {
	sn := c05SnapshotFields(marker, r)
	if pn := try(func() {
		if r.Type() == "call" || r.Type() == "auth" {
			r.ParseParams(&sn.ParsedParams)
		}
		if r.Type() != "get" {
			r.ParseToken(&sn.ParsedToken)
		}
	}); pn != nil {
		sn.ParsePanic = fmt.Sprint(pn)
	}
	return sn
}

func c05SnapshotFields(marker string, r *res.Request) c05Snap {
	return c05Snap{Marker: marker, RName: r.ResourceName(), Params: r.PathParams(), Query: r.Query(), Type: r.Type(), Method: r.Method(),
		CID: r.CID(), RawParams: r.RawParams(), RawToken: r.RawToken(), Header: r.Header(), Host: r.Host(), RemoteAddr: r.RemoteAddr(), URI: r.URI(), IsHTTP: r.IsHTTP(), Group: r.Group()}
}

func c05Handle(st *c05State, marker string, rq interface{}, reply func(r *res.Request)) {
	r := rq.(*res.Request)
	st.snaps = append(st.snaps, c05Snapshot(marker, r))
	switch st.outcome {
	case "marker":
		reply(r)
	case "error-reserr":
		r.Error(st.err())
	case "error-plain":
		r.Error(errPlain)
	case "error-std-notfound":
		r.Error(res.ErrNotFound)
	case "panic-reserr":
		panic(st.err())
	case "panic-err":
		panic(errPlain)
	case "error-wrapped":
		r.Error(errWrapped)
	case "panic-wrapped":
		panic(errWrapped)
	case "panic-nil":
		panic(nil)
	case "panic-str":
		panic("boom")
	case "panic-int":
		panic(7)
	case "none":
	}
}

func c05Register(s *res.Service, specs []c05HandlerSpec, st *c05State, mounted bool) {
	// mounted: the patterns below "a" are registered on a Mux of their own that is mounted at
	// "a" - the same routes, so the same handler and parameters for every request, also for
	// one that enters the mounted Mux but is served by a pattern outside of it
	var sub *res.Mux
	// option values made once and used, as first call/auth option, for every pattern that
	// has methods of its own (an application's list of common options): what one pattern
	// registers next to them stays that pattern's
	sharedCall := res.Call("zzshared", func(r res.CallRequest) { r.OK("shared") })
	sharedAuth := res.Auth("zzshared", func(r res.AuthRequest) { r.OK("shared") })
	for _, sp := range specs {
		sp := sp
		var opts []res.Option
		if len(sp.Call) > 0 {
			opts = append(opts, sharedCall)
		}
		if len(sp.Auth) > 0 {
			opts = append(opts, sharedAuth)
		}
		mk := func(kind string) string { return sp.Pattern + "|" + kind }
		if sp.Access {
			m := mk("access")
			opts = append(opts, res.Access(func(r res.AccessRequest) {
				c05Handle(st, m, r, func(r *res.Request) { r.Access(true, m) })
			}))
		}
		if sp.Get {
			m := mk("get")
			opts = append(opts, res.GetResource(func(r res.GetRequest) {
				c05Handle(st, m, r, func(r *res.Request) { r.Model(map[string]string{"h": m}) })
			}))
		}
		for _, meth := range sp.Call {
			m := mk("call:" + meth)
			h := func(r res.CallRequest) {
				c05Handle(st, m, r, func(r *res.Request) { r.OK(m) })
			}
			if meth == "set" && len(sp.Pattern)%2 == 0 {
				opts = append(opts, res.Set(h)) // the documented alias of Call("set", h)
			} else {
				opts = append(opts, res.Call(meth, h))
			}
		}
		for _, meth := range sp.Auth {
			m := mk("auth:" + meth)
			opts = append(opts, res.Auth(meth, func(r res.AuthRequest) {
				c05Handle(st, m, r, func(r *res.Request) { r.OK(m) })
			}))
		}
		if sp.New {
			m := mk("new")
			opts = append(opts, res.New(func(r res.NewRequest) {
				c05Handle(st, m, r, func(r *res.Request) { r.OK(m) })
			}))
		}
		switch {
		case mounted && sp.Pattern == "a":
			if sub == nil {
				sub = res.NewMux("")
			}
			sub.Handle("", opts...)
		case mounted && strings.HasPrefix(sp.Pattern, "a."):
			if sub == nil {
				sub = res.NewMux("")
			}
			sub.Handle(sp.Pattern[2:], opts...)
		default:
			s.Handle(sp.Pattern, opts...)
		}
	}
	if sub != nil {
		s.Mount("a", sub)
	}
}

// c05Reference computes the expected handler marker for a subject, or the
// expected error code. noResponse is set for access without access handler.
func c05Reference(specs []c05HandlerSpec, subject string) (marker, code string, noResponse bool, rname, method string, params map[string]string, candidates int) {
	i := strings.IndexByte(subject, '.')
	rtype, rest := subject[:i], subject[i+1:]
	rname = rest
	if rtype == "call" || rtype == "auth" {
		j := strings.LastIndexByte(rest, '.')
		if j < 0 {
			return "", "", true, "", "", nil, 0
		}
		rname, method = rest[:j], rest[j+1:]
	}
	var routes []ref.Route
	for k, sp := range specs {
		routes = append(routes, ref.Route{Pattern: mergeDots("test", sp.Pattern), Marker: fmt.Sprint(k)})
	}
	for _, rt := range routes {
		if _, ok := ref.Match(rt.Pattern, rname); ok {
			candidates++
		}
	}
	rt, params, _ := ref.Lookup(routes, rname)
	if rt == nil {
		return "", "system.notFound", false, rname, method, nil, candidates
	}
	var sp c05HandlerSpec
	for k := range specs {
		if fmt.Sprint(k) == rt.Marker {
			sp = specs[k]
		}
	}
	has := func(l []string, m string) bool {
		for _, x := range l {
			if x == m {
				return true
			}
		}
		return false
	}
	switch rtype {
	case "access":
		if !sp.Access {
			return "", "", true, rname, method, params, candidates
		}
		return sp.Pattern + "|access", "", false, rname, method, params, candidates
	case "get":
		if !sp.Get {
			return "", "system.notFound", false, rname, method, params, candidates
		}
		return sp.Pattern + "|get", "", false, rname, method, params, candidates
	case "call":
		if method == "new" && sp.New {
			return sp.Pattern + "|new", "", false, rname, method, params, candidates
		}
		if has(sp.Call, method) {
			return sp.Pattern + "|call:" + method, "", false, rname, method, params, candidates
		}
		if has(sp.Call, "*") {
			return sp.Pattern + "|call:*", "", false, rname, method, params, candidates
		}
		return "", "system.methodNotFound", false, rname, method, params, candidates
	case "auth":
		if has(sp.Auth, method) {
			return sp.Pattern + "|auth:" + method, "", false, rname, method, params, candidates
		}
		if has(sp.Auth, "*") {
			return sp.Pattern + "|auth:*", "", false, rname, method, params, candidates
		}
		return "", "system.methodNotFound", false, rname, method, params, candidates
	}
	return "", "", true, rname, method, params, candidates
}

var c05PatternPool = []string{"a", "a.set", "a.$id", "a.>", "a.$id.set", "a.$id.$sub", "b", "b.*", "a.new", "a.$id.new", "$any", "", ">", "", "$any.$id", "$any.x.$sub"}
var c05RNames = []string{"test.a", "test.a.set", "test.a.x", "test.a.x.set", "test.a.x.y", "test.a.x.y.z", "test.b", "test.b.set", "test", "test.a.new", "test.a.x.new", "test.q", "test.a.*",
	// reach the service only when it owns more than its own name (every third configuration owns ">")
	"test_a", "testxa.set", "testsa.x", "tes.a", "testa", "other.a", "test_a.x",
	// shorter than the service name, and a strict prefix of it
	"a", "tes", "t.a", "te.st"}
var c05StarOwnership = []string{"test", "test.*", "test.*.*", "test.*.*.*", "test.*.*.*.*"}
var c05Methods = []string{"set", "new", "foo", "login", "x"}

func c05RandSpecs(r *rand.Rand) []c05HandlerSpec {
	var specs []c05HandlerSpec
	seen := map[string]bool{}
	n := 1 + r.Intn(6)
	for len(specs) < n {
		p := c05PatternPool[r.Intn(len(c05PatternPool))]
		if seen[ref.Canon(p)] {
			n--
			continue
		}
		seen[ref.Canon(p)] = true
		sp := c05HandlerSpec{Pattern: p, Access: r.Intn(3) > 0, Get: r.Intn(3) > 0, New: r.Intn(4) == 0}
		for _, m := range []string{"set", "new", "foo", "*"} {
			if r.Intn(3) == 0 {
				sp.Call = append(sp.Call, m)
			}
		}
		for _, m := range []string{"login", "set", "*"} {
			if r.Intn(3) == 0 {
				sp.Auth = append(sp.Auth, m)
			}
		}
		specs = append(specs, sp)
	}
	// make sure the service owns resources and access
	specs[0].Get, specs[0].Access = true, true
	return specs
}

type c05Sent struct {
	set        map[string]bool
	CID        string
	Params     string
	Token      string
	Header     map[string][]string
	Host       string
	RemoteAddr string
	URI        string
	Query      string
	IsHTTP     bool
}

var c05Fields = []string{"cid", "params", "token", "header", "host", "remoteAddr", "uri", "query", "isHttp"}

var c05Strings = []string{"abc", "", "q\"uo\\te", "line\nbreak\ttab", "é€😀", "<script>&amp;", "a.b.c", "sp ace", strings.Repeat("x", 300), "\u0000\u001f"}
var c05JSONs = []string{`{"a":1}`, `[1,2,3]`, `"str"`, `42`, `true`, `{"nested":{"deep":[{"x":null}]},"s":"q\"x"}`, ` { "sp" : [ 1 , 2 ] } `, `{"big":123456789012345678901234567890}`, `1e400`, `{"dup":1,"dup":2}`, `""`, `{}`}

func c05BuildPayload(r *rand.Rand, mask int) ([]byte, c05Sent) {
	s := c05Sent{set: map[string]bool{}}
	var parts []string
	js := func(v interface{}) string { b, _ := json.Marshal(v); return string(b) }
	for i, f := range c05Fields {
		if mask&(1<<uint(i)) == 0 {
			continue
		}
		s.set[f] = true
		switch f {
		case "cid":
			s.CID = c05Strings[r.Intn(len(c05Strings))]
			parts = append(parts, `"cid":`+js(s.CID))
		case "params":
			s.Params = c05JSONs[r.Intn(len(c05JSONs))]
			parts = append(parts, `"params":`+s.Params)
		case "token":
			s.Token = c05JSONs[r.Intn(len(c05JSONs))]
			parts = append(parts, `"token":`+s.Token)
		case "header":
			s.Header = map[string][]string{"Accept": {"a", "b"}, "X-" + c05Strings[r.Intn(3)]: {c05Strings[r.Intn(len(c05Strings))]}, "Empty": {}}
			parts = append(parts, `"header":`+js(s.Header))
		case "host":
			s.Host = c05Strings[r.Intn(len(c05Strings))]
			parts = append(parts, `"host":`+js(s.Host))
		case "remoteAddr":
			s.RemoteAddr = c05Strings[r.Intn(len(c05Strings))]
			parts = append(parts, `"remoteAddr":`+js(s.RemoteAddr))
		case "uri":
			s.URI = c05Strings[r.Intn(len(c05Strings))]
			parts = append(parts, `"uri":`+js(s.URI))
		case "query":
			s.Query = []string{"a=1&b=2", "", "q=%20x&é", "??&&=="}[r.Intn(4)]
			parts = append(parts, `"query":`+js(s.Query))
		case "isHttp":
			s.IsHTTP = r.Intn(2) == 0
			parts = append(parts, `"isHttp":`+js(s.IsHTTP))
		}
	}
	r.Shuffle(len(parts), func(i, j int) { parts[i], parts[j] = parts[j], parts[i] })
	if r.Intn(4) == 0 {
		parts = append(parts, `"unknownField":{"x":1}`)
	}
	sep := ","
	if r.Intn(3) == 0 {
		sep = " ,\n "
	}
	return []byte("{" + strings.Join(parts, sep) + "}"), s
}

func jsonEqual(a, b []byte) bool {
	var x, y interface{}
	da := json.NewDecoder(bytes.NewReader(a))
	da.UseNumber()
	db := json.NewDecoder(bytes.NewReader(b))
	db.UseNumber()
	if da.Decode(&x) != nil || db.Decode(&y) != nil {
		return false
	}
	return reflect.DeepEqual(x, y)
}

func c05CheckFields(c *core.Ctx, sn c05Snap, sent c05Sent, desc map[string]interface{}) {
	bad := func(field string, got, want interface{}) {
		d := map[string]interface{}{"field": field, "got": fmt.Sprint(got), "want": fmt.Sprint(want)}
		for k, v := range desc {
			d[k] = v
		}
		c.Violation("C05/field-altered:"+field, fmt.Sprintf("handler saw %s = %q but %q was sent", field, fmt.Sprint(got), fmt.Sprint(want)), d)
	}
	if sn.CID != sent.CID {
		bad("cid", sn.CID, sent.CID)
	}
	if sn.Host != sent.Host {
		bad("host", sn.Host, sent.Host)
	}
	if sn.RemoteAddr != sent.RemoteAddr {
		bad("remoteAddr", sn.RemoteAddr, sent.RemoteAddr)
	}
	if sn.URI != sent.URI {
		bad("uri", sn.URI, sent.URI)
	}
	if sn.Query != sent.Query {
		bad("query", sn.Query, sent.Query)
	}
	if sn.IsHTTP != sent.IsHTTP {
		bad("isHttp", sn.IsHTTP, sent.IsHTTP)
	}
	if sent.set["params"] {
		if !jsonEqual(sn.RawParams, []byte(sent.Params)) {
			bad("params", string(sn.RawParams), sent.Params)
		} else if !strings.ContainsAny(sent.Params, " \n") && string(sn.RawParams) != sent.Params {
			bad("params-bytes", string(sn.RawParams), sent.Params)
		}
	} else if sn.RawParams != nil {
		bad("params", string(sn.RawParams), "<nil>")
	}
	if sent.set["token"] {
		if !jsonEqual(sn.RawToken, []byte(sent.Token)) {
			bad("token", string(sn.RawToken), sent.Token)
		}
	} else if sn.RawToken != nil {
		bad("token", string(sn.RawToken), "<nil>")
	}
	// the parsing helpers deliver the same data (and leave the target alone when the field is absent)
	if sn.ParsePanic != "" {
		bad("ParseParams/ParseToken panic", sn.ParsePanic, "<no panic on valid JSON into a json.RawMessage>")
	}
	if sn.Type == "call" || sn.Type == "auth" {
		if sent.set["params"] && sent.Params != "null" {
			if !jsonEqual(sn.ParsedParams, []byte(sent.Params)) {
				bad("ParseParams", string(sn.ParsedParams), sent.Params)
			}
		} else if !sent.set["params"] && sn.ParsedParams != nil {
			bad("ParseParams", string(sn.ParsedParams), "<untouched>")
		}
	}
	if sn.Type != "get" {
		if sent.set["token"] && sent.Token != "null" {
			if !jsonEqual(sn.ParsedToken, []byte(sent.Token)) {
				bad("ParseToken", string(sn.ParsedToken), sent.Token)
			}
		} else if !sent.set["token"] && sn.ParsedToken != nil {
			bad("ParseToken", string(sn.ParsedToken), "<untouched>")
		}
	}
	if sent.set["header"] {
		if !reflect.DeepEqual(sn.Header, sent.Header) {
			bad("header", sn.Header, sent.Header)
		}
	} else if sn.Header != nil {
		bad("header", sn.Header, "<nil>")
	}
}

// c05Corrupt turns a valid request payload into a text that is not JSON
// (decided by encoding/json's validator): trailing or leading garbage, a second
// value, truncation, a damaged character.
func c05Corrupt(r *rand.Rand) string {
	pl, _ := c05BuildPayload(r, r.Intn(64))
	if len(bytes.TrimSpace(pl)) == 0 {
		pl = []byte(`{"cid":"abc","params":{"a":1}}`)
	}
	var m []byte
	switch r.Intn(6) {
	case 0, 1:
		m = append(append([]byte{}, pl...), []string{"}", "]", " xyz", "{", "{}", ",", "\"", " 0", " null", "\n}", "\x00"}[r.Intn(11)]...)
	case 2:
		m = append([]byte([]string{"x", "}", ",", "\xef\xbb\xbf", "0 "}[r.Intn(5)]), pl...)
	case 3:
		m = append([]byte{}, pl[:1+r.Intn(len(pl)-1)]...)
	case 4:
		m = append([]byte{}, pl...)
		m[r.Intn(len(m))] = "'\\,:}x"[r.Intn(6)]
	default:
		m = bytes.Replace(pl, []byte(`:`), []byte(`=`), 1)
	}
	if json.Valid(m) || len(bytes.TrimSpace(m)) == 0 {
		return ""
	}
	return string(m)
}

func c05Run(c *core.Ctx, b core.Batch) {
	var p c05Params
	json.Unmarshal(b.Params, &p)
	r := c.Rand
	for cfgi := 0; cfgi < p.N; cfgi++ {
		specs := c05RandSpecs(r)
		if cfgi%8 == 4 {
			// a service whose only resource is the one named like the service itself
			specs = []c05HandlerSpec{{Pattern: "", Access: cfgi%16 == 4, Get: true, Call: []string{"set", "*"}, Auth: []string{"login"}}}
		}
		st := &c05State{outcome: "marker"}
		rg := newRig("test", func(s *res.Service) {
			c05Register(s, specs, st, cfgi%4 >= 2)
			if cfgi%3 == 2 {
				s.SetOwnedResources([]string{">"}, []string{">"})
			}
			if cfgi%3 == 1 {
				// the own name space spelt out level by level with * wildcards
				s.SetOwnedResources(c05StarOwnership, c05StarOwnership)
			}
		})
		rg.C.NoGoID = true
		if err := rg.start(); err != nil {
			if strings.Contains(err.Error(), "timeout waiting") {
				c.Inconclusive("service failed to start: " + err.Error())
				return
			}
			// every configuration has a get handler: there is something to serve
			c.Violation("C05/serve-failed", "Serve failed for a service with handlers: "+err.Error(), map[string]interface{}{"handlers": specs, "ownership": []string{"default", "level by level with *", ">"}[cfgi%3], "subscriptions": subjectsOf(rg.C.Subs())})
			continue
		}
		cfgKey := fmt.Sprintf("%d/%d", p.Shard, cfgi)
		// meanwhile another goroutine looks resources up (as Service.Resource, With and store
		// callbacks on foreign goroutines do): lookups do not disturb the dispatch of requests
		lookStop, lookDone := make(chan struct{}), make(chan struct{})
		go func() {
			defer close(lookDone)
			names := []string{"test.kkkkk.zzzzz.yy.qq", "test.a.kkkkk", "test.kkkkk", "test.a.x.kkkkk.zzzzz", "other.kkkkk"}
			for n := 0; ; n++ {
				select {
				case <-lookStop:
					return
				default:
				}
				try(func() { rg.S.GetHandler(names[n%len(names)]) })
				if n%64 == 0 {
					runtime.Gosched()
				}
			}
		}()
		stopLook := func() { close(lookStop); <-lookDone; c.Obs("configs_with_concurrent_lookups", 1) }
		one := func(subject string, payload []byte, sent *c05Sent, malformed bool) bool {
			st.snaps = st.snaps[:0]
			st.outcome = c05Outcomes[r.Intn(len(c05Outcomes))]
			st.errv = c05ErrPool[r.Intn(len(c05ErrPool))]
			start := rg.C.Len()
			inbox, done, delivered := rg.send(subject, payload)
			if delivered == 0 {
				if cfgi%3 == 1 && !malformed {
					// with the level-by-level ownership every request for a resource of one to five
					// tokens below the service name belongs to the service
					if _, _, _, rname, _, _, _ := c05Reference(specs, subject); rname != "" {
						for _, op := range c05StarOwnership {
							if _, ok := ref.Match(op, rname); ok {
								c.Violation("C05/owned-request-not-delivered:"+subject[:strings.IndexByte(subject, '.')], fmt.Sprintf("the service owns %q, which covers %q, but request %s reaches none of its subscriptions", op, rname, subject),
									map[string]interface{}{"handlers": specs, "subject": subject, "owned": c05StarOwnership, "subscriptions": subjectsOf(rg.C.Subs())})
								return true
							}
						}
					}
				}
				if cfgi%3 == 0 && !malformed {
					// default ownership: a service owns what its handlers can serve, so a request
					// some registered handler would get must reach one of its subscriptions
					if wm, _, _, rname, _, _, _ := c05Reference(specs, subject); wm != "" {
						c.Violation("C05/handled-request-not-delivered:"+subject[:strings.IndexByte(subject, '.')], fmt.Sprintf("handler %q is registered for %q, the ownership is the default, but request %s reaches none of the service's subscriptions", wm, rname, subject),
							map[string]interface{}{"handlers": specs, "subject": subject, "subscriptions": subjectsOf(rg.C.Subs())})
						return true
					}
				}
				return true // not a request the service subscribed to
			}
			c.Eval(1)
			desc := map[string]interface{}{"handlers": specs, "subject": subject, "payload": short(string(payload), 400), "outcome": st.outcome}
			if !waitCh(done, 15*time.Second) {
				c.Inconclusive("request.done not seen for " + subject)
				return false
			}
			resp, _ := replies(rg.C.Since(start), inbox)
			wantMarker, wantCode, noResp, rname, method, wparams, cands := c05Reference(specs, subject)
			if cands >= 2 || (method != "" && wantMarker != "") {
				c.Distinct(cfgKey + "|" + subject)
			}
			var got struct {
				Result json.RawMessage `json:"result"`
				Error  *struct {
					Code    string          `json:"code"`
					Message string          `json:"message"`
					Data    json.RawMessage `json:"data"`
				} `json:"error"`
			}
			if len(resp) > 0 {
				json.Unmarshal(resp[0].Data, &got)
			}
			gotCode := ""
			if got.Error != nil {
				gotCode = got.Error.Code
			}
			if malformed {
				// payload not JSON: internalError; with no resource either code
				if len(st.snaps) > 0 {
					c.Violation("C05/handler-called-on-malformed", "a handler was invoked although the payload is not valid JSON", desc)
				}
				ok := gotCode == "system.internalError" || (wantCode != "" && gotCode == wantCode) || (noResp && len(resp) == 0)
				if !ok {
					desc["response"] = payloadStrs(resp)
					c.Violation("C05/malformed-code", fmt.Sprintf("malformed payload answered with %v, want system.internalError", payloadStrs(resp)), desc)
				}
				return true
			}
			if wantMarker == "" {
				if len(st.snaps) > 0 {
					desc["invoked"] = st.snaps[0].Marker
					c.Violation("C05/spurious-handler", fmt.Sprintf("handler %s invoked for %s although the dispatch rules select none", st.snaps[0].Marker, subject), desc)
					return true
				}
				if noResp {
					return true // C04 decides the response count
				}
				if gotCode != wantCode {
					desc["response"] = payloadStrs(resp)
					c.Violation("C05/error-code:"+wantCode, fmt.Sprintf("%s answered %v, want error code %s", subject, payloadStrs(resp), wantCode), desc)
				}
				return true
			}
			if len(st.snaps) != 1 {
				desc["invoked"] = len(st.snaps)
				c.Violation("C05/handler-count", fmt.Sprintf("%s invoked %d handlers, want exactly %s", subject, len(st.snaps), wantMarker), desc)
				return true
			}
			sn := st.snaps[0]
			if sn.Marker != wantMarker {
				desc["invoked"], desc["want"] = sn.Marker, wantMarker
				c.Violation("C05/wrong-handler:"+kindOf(sn.Marker)+"-instead-of-"+kindOf(wantMarker), fmt.Sprintf("%s invoked handler %s, want %s", subject, sn.Marker, wantMarker), desc)
				return true
			}
			i := strings.IndexByte(subject, '.')
			if sn.RName != rname || sn.Method != method || sn.Type != subject[:i] || !mapsEqual(sn.Params, wparams) {
				desc["saw"] = fmt.Sprintf("rname=%s method=%s type=%s params=%v", sn.RName, sn.Method, sn.Type, sn.Params)
				desc["want"] = fmt.Sprintf("rname=%s method=%s type=%s params=%v", rname, method, subject[:i], wparams)
				c.Violation("C05/request-identity", fmt.Sprintf("%s: handler saw %v, want %v", subject, desc["saw"], desc["want"]), desc)
			}
			if sent != nil {
				c05CheckFields(c, sn, *sent, desc)
			}
			// outcome mapping
			desc["response"] = payloadStrs(resp)
			switch st.outcome {
			case "marker":
				if got.Error != nil || !bytes.Contains(got.Result, []byte(sn.Marker)) && !bytes.Contains(resp0(resp), []byte(jsonEsc(sn.Marker))) {
					c.Violation("C05/result-altered", fmt.Sprintf("%s: response %v does not carry the handler's result %q", subject, payloadStrs(resp), sn.Marker), desc)
				}
			case "error-reserr", "panic-reserr":
				we := st.err()
				wd, _ := json.Marshal(we.Data)
				if we.Data == nil {
					wd = nil
				}
				desc["error_value"] = we
				c.SetAdd("error_codes_returned", we.Code)
				if got.Error == nil || got.Error.Code != we.Code || got.Error.Message != we.Message || (wd == nil) != (len(got.Error.Data) == 0) || wd != nil && !jsonEqual(got.Error.Data, wd) {
					c.Violation("C05/error-not-verbatim:"+st.outcome, fmt.Sprintf("%s: *res.Error outcome %s answered %v, want the error verbatim", subject, st.outcome, payloadStrs(resp)), desc)
				}
			case "error-std-notfound":
				if gotCode != "system.notFound" {
					c.Violation("C05/error-not-verbatim:notfound", fmt.Sprintf("%s: Error(res.ErrNotFound) answered %v", subject, payloadStrs(resp)), desc)
				}
			default:
				if gotCode != "system.internalError" {
					c.Violation("C05/outcome-code:"+st.outcome, fmt.Sprintf("%s: outcome %s answered %v, want system.internalError", subject, st.outcome, payloadStrs(resp)), desc)
				}
			}
			c.SetAdd("outcomes", st.outcome)
			c.SetAdd("handler_kinds", kindOf(sn.Marker))
			return true
		}
		ok := true
		if p.Kind == "dispatch" {
		outer:
			for _, rn := range c05RNames {
				for _, t := range []string{"access", "get"} {
					pl, sent := c05BuildPayload(r, r.Intn(512))
					if ok = one(t+"."+rn, pl, &sent, false); !ok {
						break outer
					}
				}
				for _, t := range []string{"call", "auth"} {
					for _, m := range c05Methods {
						pl, sent := c05BuildPayload(r, r.Intn(512))
						if ok = one(t+"."+rn+"."+m, pl, &sent, false); !ok {
							break outer
						}
					}
				}
				bads := []string{`{"cid":`, `nope`, `{"cid":5}`, `[]`}
				// texts that are not JSON although they start with (or contain) a complete JSON value
				for k := 0; k < 4; k++ {
					if m := c05Corrupt(r); m != "" {
						bads = append(bads, m)
					}
				}
				for _, bad := range bads {
					// well-formed subjects only: call and auth always carry a method token
					subj := []string{"get.", "access."}[r.Intn(2)] + rn + []string{"", ".set"}[r.Intn(2)]
					if r.Intn(2) == 0 {
						subj = []string{"call.", "auth."}[r.Intn(2)] + rn + ".set"
					}
					if ok = one(subj, []byte(bad), nil, true); !ok {
						break outer
					}
				}
			}
			if cfgi == 1 {
				c.Sample(map[string]interface{}{"handlers": specs, "resource_names": c05RNames, "methods": c05Methods})
			}
		} else {
			// every subset of the nine fields, on each request type
			subjects := []string{"access." + mergeDots("test", specs[0].patternInstance()), "get." + mergeDots("test", specs[0].patternInstance())}
			for _, sp := range specs {
				if len(sp.Call) > 0 {
					subjects = append(subjects, "call."+mergeDots("test", sp.patternInstance())+"."+strings.Replace(sp.Call[0], "*", "any", 1))
				}
				if len(sp.Auth) > 0 {
					subjects = append(subjects, "auth."+mergeDots("test", sp.patternInstance())+"."+strings.Replace(sp.Auth[0], "*", "any", 1))
				}
			}
			sort.Strings(subjects)
		fields:
			for mask := 0; mask < 512; mask++ {
				for _, subj := range subjects {
					pl, sent := c05BuildPayload(r, mask)
					if ok = one(subj, pl, &sent, false); !ok {
						break fields
					}
				}
				c.Distinct(fmt.Sprintf("mask-%d", mask))
			}
			if cfgi == 0 {
				pl, _ := c05BuildPayload(r, 511)
				c.Sample(map[string]interface{}{"subjects": subjects, "payload_all_fields": string(pl)})
			}
		}
		stopLook()
		rg.stop()
		if !ok {
			return
		}
	}
	for k, v := range sched.Counts() {
		c.Obs("hook:"+k, v)
	}
}

func (sp c05HandlerSpec) patternInstance() string {
	toks := strings.Split(sp.Pattern, ".")
	for i, t := range toks {
		switch ref.ClassifyToken(t) {
		case ref.TokTag, ref.TokAnon:
			toks[i] = "v" + fmt.Sprint(i)
		case ref.TokFull:
			toks[i] = "w.x"
		}
	}
	return strings.Join(toks, ".")
}

func kindOf(marker string) string {
	if i := strings.IndexByte(marker, '|'); i >= 0 {
		return marker[i+1:]
	}
	return marker
}

func resp0(resp []vconnMsg) []byte {
	if len(resp) == 0 {
		return nil
	}
	return resp[0].Data
}

func jsonEsc(s string) string {
	b, _ := json.Marshal(s)
	return string(b[1 : len(b)-1])
}
