package props

import (
	"encoding/json"
	"fmt"
	"math"
	"math/rand"
	"net/url"
	"os"
	"reflect"
	"sort"
	"strconv"
	"strings"
	"sync"
	"sync/atomic"
	"time"

	"github.com/dgraph-io/badger"
	res "github.com/jirenius/go-res"
	"github.com/jirenius/go-res/middleware"
	"github.com/jirenius/go-res/middleware/resbadger"

	"verif/harness/internal/core"
)

// C20 - Legacy BadgerDB middleware serves the fold of the events it applied.

type c20Cfg struct {
	Pkg     string `json:"pkg"`  // middleware | resbadger
	Type    string `json:"type"` // model | collection
	Default bool   `json:"default"`
	Index   bool   `json:"index"` // resbadger model with index set + query collection (typed)
}

type c20Params struct {
	Cfg c20Cfg `json:"cfg"`
	N   int    `json:"n"`
}

func init() {
	core.Register(&core.Prop{
		ID:    "C20",
		Level: "exploration",
		Rule: "a case is one event (change with set/delete/no-op keys, add, remove, create, delete; applicable or not) emitted on a resource using the deprecated BadgerDB middleware (package middleware and package resbadger; model and collection; with and without default; typed model with an index set and a query collection) of a real Service over a real Badger database: after each event the get response, Value() and the raw stored bytes are compared with the events folded over the initial/default value by a reference, listener OldValues / delete Data are compared with the previous stored value, inapplicable events must publish nothing and leave the stored bytes identical, index listeners must receive (before, after) and query collection results must equal a reference scan; at the end the database is closed and reopened under a new service and compared again. " +
			"distinct non-trivial = distinct (configuration, sequence index, event) that were applicable and changed the stored value",
		Assumptions: []string{
			"delete on a missing resource is not in the statement's list of inapplicable events and is not asserted",
			"values are JSON-stable Go values (float64, string, bool, nil, generic maps/slices) so that DeepEqual coincides with JSON equality",
		},
		Parallel: 8,
		Batches: func(seed int64, tier core.Tier) []core.Batch {
			var bs []core.Batch
			i := 0
			for _, pkg := range []string{"middleware", "resbadger"} {
				for _, typ := range []string{"model", "collection"} {
					for _, def := range []bool{false, true} {
						bs = append(bs, core.Batch{Name: fmt.Sprintf("seq-%d", i), TimeoutS: 600, Params: core.Params(c20Params{Cfg: c20Cfg{pkg, typ, def, false}, N: tierPick(tier, 30, 500)})})
						i++
					}
				}
			}
			for s := 0; s < tierPick(tier, 2, 8); s++ {
				bs = append(bs, core.Batch{Name: fmt.Sprintf("index-%d", s), TimeoutS: 600, Params: core.Params(c20Params{Cfg: c20Cfg{"resbadger", "model", false, true}, N: tierPick(tier, 25, 300)})})
			}
			return bs
		},
		MinEvaluations: func(t core.Tier) int64 { return 1500 },
		Run:            c20Run,
	})
}

// c20Item is the typed model of the index configuration.
type c20Item struct {
	K string      `json:"k"`
	A interface{} `json:"a"`
}

type c20Env struct {
	c    *core.Ctx
	cfg  c20Cfg
	dir  string
	db   *badger.DB
	rig  *rig
	def  interface{}
	lev  []*res.Event // listener events
	idxL []string     // index listener calls
	seq  int          // sequence number (varies the default value)
	// model is the handler option of indexed configurations (for RebuildIndexes)
	model resbadger.Model
	// mapped: the model option has a Map callback adding the member zzmapped to what get serves
	mapped bool
	// parallel: the handler is registered with Parallel(true) (listener calls are then counted under lmu)
	parallel bool
	lmu      sync.Mutex
}

func (e *c20Env) open() error {
	db, err := openBadger(e.dir)
	if err != nil {
		return err
	}
	e.db = db
	cfg := e.cfg
	if cfg.Default {
		if cfg.Type == "model" {
			e.def = map[string]interface{}{"a": "dflt", "z": 1.0}
		} else {
			// default collections of different lengths (0-5 items)
			l := []interface{}{}
			for k := 0; k < []int{2, 3, 1, 5, 0, 4}[e.seq%6]; k++ {
				l = append(l, fmt.Sprintf("d%d", k))
			}
			e.def = l
		}
	}
	// every other environment configures the middleware with the With* methods
	rb := func() resbadger.BadgerDB {
		if e.seq%2 == 1 {
			return resbadger.BadgerDB{}.WithDB(db)
		}
		return resbadger.BadgerDB{DB: db}
	}
	e.rig = newRig("svc", func(s *res.Service) {
		var opt res.Option
		switch {
		case cfg.Index:
			keyFn := func(v interface{}) []byte {
				it, ok := v.(c20Item)
				if !ok || it.K == "" {
					return nil
				}
				// "<FF>" stands for the byte 0xFF, which a JSON string cannot carry; "<00>" for
				// the byte the index uses as separator in front of the resource name (binary keys
				// such as big-endian numbers contain it)
				return []byte(strings.ReplaceAll(strings.ReplaceAll(it.K, "<FF>", "\xff"), "<00>", "\x00"))
			}
			// a second index with a one-letter name ("keep it rather short"), which happens to be
			// the first letter of the resource names
			idxs := &resbadger.IndexSet{Indexes: []resbadger.Index{{Name: "idxk", Key: keyFn}, {Name: "s", Key: keyFn}}}
			idxs.Listen(func(r res.Resource, before, after interface{}) {
				e.idxL = append(e.idxL, fmt.Sprintf("any:%s:%s>%s", r.ResourceName(), jsonStr(before), jsonStr(after)))
			})
			idxs.ListenIndex("idxk", func(r res.Resource, before, after interface{}) {
				e.idxL = append(e.idxL, fmt.Sprintf("idxk:%s:%s>%s", r.ResourceName(), jsonStr(before), jsonStr(after)))
			})
			e.model = rb().Model().WithType(c20Item{}).WithIndexSet(idxs)
			opt = e.model
			s.Handle("q", rb().QueryCollection().WithIndexSet(idxs).WithQueryCallback(
				func(idxs *resbadger.IndexSet, rname string, params map[string]string, q url.Values) (*resbadger.IndexQuery, string, error) {
					idx, err := idxs.GetIndex("idxk")
					if err != nil {
						return nil, "", err
					}
					lim, err := strconv.Atoi(q.Get("limit"))
					if err != nil {
						lim = -1
					}
					off, _ := strconv.Atoi(q.Get("offset"))
					return &resbadger.IndexQuery{Index: idx, KeyPrefix: []byte(q.Get("prefix")), Limit: lim, Offset: off, Reverse: q.Get("rev") == "1"}, "", nil
				}))
		case cfg.Pkg == "middleware":
			// the middleware package needs the resource type set first
			m := middleware.BadgerDB{DB: db}
			if cfg.Default {
				m = m.WithDefault(e.def)
			}
			if e.seq%2 == 1 {
				// an option template (default set, no database yet) bound to the database last
				m = middleware.BadgerDB{}
				if cfg.Default {
					m = m.WithDefault(e.def)
				}
				m = m.WithDB(db)
			}
			if cfg.Type == "model" {
				opt = res.OptionFunc(func(h *res.Handler) { res.Model.SetOption(h); m.SetOption(h) })
			} else {
				opt = res.OptionFunc(func(h *res.Handler) { res.Collection.SetOption(h); m.SetOption(h) })
			}
		case cfg.Type == "model":
			m := rb().Model()
			if cfg.Default {
				m = m.WithDefault(e.def)
			} else if e.seq%3 == 2 {
				// a mapping of what get serves (documented as concerning the get response only): the
				// stored model with a marker added. Value() still hands out the stored model
				e.mapped = true
				m = m.WithMap(func(v interface{}) (interface{}, error) {
					mm, ok := v.(map[string]interface{})
					if !ok {
						return nil, fmt.Errorf("Map callback got a %T", v)
					}
					out := map[string]interface{}{"zzmapped": true}
					for k, x := range mm {
						out[k] = x
					}
					return out, nil
				})
			}
			opt = m
		default:
			m := rb().Collection()
			if cfg.Default {
				m = m.WithDefault(e.def)
			}
			opt = m
		}
		if e.parallel {
			s.Handle("r.$id", opt, res.Parallel(true))
		} else {
			s.Handle("r.$id", opt)
		}
		s.AddListener("r.$id", func(ev *res.Event) {
			e.lmu.Lock()
			e.lev = append(e.lev, ev)
			e.lmu.Unlock()
		})
	})
	e.rig.C.NoGoID = true
	return e.rig.start()
}

func (e *c20Env) closeAll() {
	e.rig.stop()
	e.db.Close()
}

type c20Ev struct {
	Kind  string      `json:"kind"`
	Vals  interface{} `json:"vals,omitempty"`
	Idx   int         `json:"idx,omitempty"`
	Value interface{} `json:"value,omitempty"`
}

// The value domain of this check stays within IEEE doubles: the legacy middleware
// decodes stored values generically on change and remove events and in Value(), so
// integers beyond 2^53 are rounded by the unchanged code as well (seeded change C20-f,
// which extends that rounding to add events, is therefore outside the domain).
var c20Vals = []interface{}{"s", "t", 1.0, 2.5, true, nil, "1", "2.5", "true", "<nil>", "1", 1.0, "true", true, // same spelling, different JSON type
	map[string]interface{}{"rid": "svc.r.x"}, map[string]interface{}{"data": []interface{}{1.0, "a"}}}

// c20Unenc stands in the recorded event for a value encoding/json cannot encode (NaN):
// an event carrying it cannot be applied.
const c20Unenc = "<unencodable>"

func c20Real(v interface{}) interface{} {
	switch t := v.(type) {
	case string:
		if t == c20Unenc {
			return math.NaN()
		}
	case map[string]interface{}:
		m := make(map[string]interface{}, len(t))
		for k, x := range t {
			m[k] = c20Real(x)
		}
		return m
	case []interface{}:
		l := make([]interface{}, len(t))
		for i, x := range t {
			l[i] = c20Real(x)
		}
		return l
	}
	return v
}

func c20HasUnenc(v interface{}) bool {
	switch t := v.(type) {
	case string:
		return t == c20Unenc
	case map[string]interface{}:
		for _, x := range t {
			if c20HasUnenc(x) {
				return true
			}
		}
	case []interface{}:
		for _, x := range t {
			if c20HasUnenc(x) {
				return true
			}
		}
	}
	return false
}

func c20RandEvent(r *rand.Rand, cfg c20Cfg) c20Ev {
	ev := c20RandEvent0(r, cfg)
	if r.Intn(12) != 0 {
		return ev
	}
	switch ev.Kind {
	case "change":
		if m := ev.Vals.(map[string]interface{}); !cfg.Index {
			m[[]string{"a", "b", "c"}[r.Intn(3)]] = c20Unenc
		}
	case "add":
		ev.Value = c20Unenc
	case "create":
		if m, ok := ev.Value.(map[string]interface{}); ok {
			m["a"] = c20Unenc
		} else if l, ok := ev.Value.([]interface{}); ok {
			ev.Value = append(l, c20Unenc)
		}
	}
	return ev
}

func c20RandEvent0(r *rand.Rand, cfg c20Cfg) c20Ev {
	if cfg.Type == "model" {
		switch r.Intn(8) {
		case 0:
			if cfg.Index {
				return c20Ev{Kind: "create", Value: c20Item{K: []string{"a", "ab", "b", "", "a<FF>", "a<FF>b", "n<00>n"}[r.Intn(7)], A: "new"}}
			}
			m := map[string]interface{}{"pad": strings.Repeat(fmt.Sprintf("%04d-", r.Intn(10000)), 1500)}
			for _, k := range []string{"a", "b"} {
				if r.Intn(2) == 0 {
					m[k] = c20Vals[r.Intn(len(c20Vals))]
				}
			}
			return c20Ev{Kind: "create", Value: m}
		case 1:
			return c20Ev{Kind: "delete"}
		}
		ch := map[string]interface{}{}
		keys := []string{"a", "b", "c"}
		if cfg.Index {
			keys = []string{"k", "a"}
		}
		for _, k := range keys {
			switch r.Intn(4) {
			case 0:
				if !cfg.Index {
					ch[k] = res.DeleteAction
				}
			case 1, 2:
				if k == "k" {
					ch[k] = []string{"a", "ab", "b", "", "abc", "a<FF>", "a<FF><FF>", "n<00>n"}[r.Intn(8)]
				} else if cfg.Index {
					ch[k] = []interface{}{"s", "t", 1.0}[r.Intn(3)]
				} else {
					ch[k] = c20Vals[r.Intn(len(c20Vals))]
				}
			}
		}
		return c20Ev{Kind: "change", Vals: ch}
	}
	switch r.Intn(8) {
	case 0:
		n := r.Intn(3)
		l := make([]interface{}, n)
		for i := range l {
			l[i] = c20Vals[r.Intn(len(c20Vals))]
		}
		return c20Ev{Kind: "create", Value: l}
	case 1:
		return c20Ev{Kind: "delete"}
	case 2, 3, 4:
		return c20Ev{Kind: "add", Value: c20Vals[r.Intn(len(c20Vals))], Idx: r.Intn(5)}
	}
	return c20Ev{Kind: "remove", Idx: r.Intn(4)}
}

// c20Fold applies an event to the reference state. state==nil: missing.
// Returns the new state, whether the event is applicable, whether it changes
// anything, the expected OldValues (change) and removed data (delete).
func c20Fold(cfg c20Cfg, def, state interface{}, ev c20Ev) (next interface{}, applicable, changed bool, rev map[string]interface{}, deleted interface{}) {
	base := state
	if base == nil && def != nil {
		base = def
	}
	if c20HasUnenc(ev.Vals) || c20HasUnenc(ev.Value) {
		return state, false, false, nil, nil
	}
	switch ev.Kind {
	case "change":
		if base == nil {
			return state, false, false, nil, nil
		}
		m := map[string]interface{}{}
		for k, v := range jsonNorm(base).(map[string]interface{}) {
			m[k] = v
		}
		rev = map[string]interface{}{}
		for k, v := range ev.Vals.(map[string]interface{}) {
			ov, ok := m[k]
			switch {
			case !ok:
				if v != interface{}(res.DeleteAction) {
					m[k] = v
					rev[k] = res.DeleteAction
				}
			case v == interface{}(res.DeleteAction):
				delete(m, k)
				rev[k] = ov
			case !reflect.DeepEqual(v, ov):
				m[k] = v
				rev[k] = ov
			}
		}
		if len(rev) == 0 {
			return state, true, false, rev, nil
		}
		return m, true, true, rev, nil
	case "add":
		var l []interface{}
		if base != nil {
			l = append(l, jsonNorm(base).([]interface{})...)
		}
		if ev.Idx > len(l) {
			return state, false, false, nil, nil
		}
		nl := append([]interface{}{}, l[:ev.Idx]...)
		nl = append(nl, ev.Value)
		nl = append(nl, l[ev.Idx:]...)
		return nl, true, true, nil, nil
	case "remove":
		if base == nil {
			return state, false, false, nil, nil
		}
		l := jsonNorm(base).([]interface{})
		if ev.Idx >= len(l) {
			return state, false, false, nil, nil
		}
		nl := append([]interface{}{}, l[:ev.Idx]...)
		nl = append(nl, l[ev.Idx+1:]...)
		return nl, true, true, nil, nil
	case "create":
		if state != nil || def != nil {
			return state, false, false, nil, nil
		}
		return jsonNorm(ev.Value), true, true, nil, nil
	case "delete":
		return nil, true, state != nil, nil, state
	}
	return state, false, false, nil, nil
}

func (e *c20Env) raw(rid string) []byte {
	var out []byte
	e.db.View(func(txn *badger.Txn) error {
		it, err := txn.Get([]byte(rid))
		if err != nil {
			return nil
		}
		out, _ = it.ValueCopy(nil)
		return nil
	})
	return out
}

// served returns the get response (canonical JSON of the model/collection, or "notFound"/error code).
func (e *c20Env) served(rid string) (string, bool) {
	start := e.rig.C.Len()
	inbox, done, n := e.rig.send("get."+rid, nil)
	if n != 1 || !waitCh(done, 10*time.Second) {
		e.c.Inconclusive("get not processed")
		return "", false
	}
	resp, _ := replies(e.rig.C.Since(start), inbox)
	if len(resp) != 1 {
		e.c.Inconclusive("get without response")
		return "", false
	}
	var rr struct {
		Result *struct {
			Model      json.RawMessage `json:"model"`
			Collection json.RawMessage `json:"collection"`
		} `json:"result"`
		Error *res.Error `json:"error"`
	}
	json.Unmarshal(resp[0].Data, &rr)
	if rr.Error != nil {
		return rr.Error.Code, true
	}
	if rr.Result == nil {
		return "malformed:" + resp[0].Payload, true
	}
	raw := rr.Result.Model
	if e.cfg.Type == "collection" {
		raw = rr.Result.Collection
	}
	if e.mapped {
		// the get response went through the Map callback: the marker is there, the rest is the model
		var mm map[string]interface{}
		if json.Unmarshal(raw, &mm) != nil || mm["zzmapped"] != true {
			return "not-mapped:" + string(raw), true
		}
		delete(mm, "zzmapped")
		return canon(mm), true
	}
	return canon(json.RawMessage(raw)), true
}

// c20Burst sends gets for all resources without waiting for the responses (they are
// handled by different workers at the same time) and compares every response with the
// fold of its own resource.
func c20Burst(c *core.Ctx, e *c20Env, rids []string, states map[string]interface{}, sigCfg string, hist []string) bool {
	type pend struct {
		rid, inbox string
		done       chan struct{}
	}
	start := e.rig.C.Len()
	var ps []pend
	for k := 0; k < 90; k++ {
		rid := rids[k%len(rids)]
		inbox, done, n := e.rig.send("get."+rid, nil)
		if n != 1 {
			c.Inconclusive("burst get not delivered")
			return false
		}
		ps = append(ps, pend{rid, inbox, done})
	}
	for _, p := range ps {
		if !waitCh(p.done, 10*time.Second) {
			c.Inconclusive("burst get not processed")
			return false
		}
	}
	log := e.rig.C.Since(start)
	for _, p := range ps {
		resp, _ := replies(log, p.inbox)
		c.Obs("burst_gets", 1)
		if len(resp) != 1 {
			continue
		}
		var rr struct {
			Result *struct {
				Model      json.RawMessage `json:"model"`
				Collection json.RawMessage `json:"collection"`
			} `json:"result"`
			Error *res.Error `json:"error"`
		}
		got := "malformed:" + short(resp[0].Payload, 80)
		if json.Unmarshal(resp[0].Data, &rr) == nil {
			switch {
			case rr.Error != nil:
				got = rr.Error.Code
			case rr.Result != nil && e.cfg.Type == "collection":
				got = canon(json.RawMessage(rr.Result.Collection))
			case rr.Result != nil:
				got = canon(json.RawMessage(rr.Result.Model))
				if e.mapped {
					var mm map[string]interface{}
					if json.Unmarshal(rr.Result.Model, &mm) == nil && mm["zzmapped"] == true {
						delete(mm, "zzmapped")
						got = canon(mm)
					}
				}
			}
		}
		if want := e.expectServed(states[p.rid]); got != want {
			c.Violation("C20/get-not-fold:concurrent-gets:"+sigCfg, fmt.Sprintf("with gets for %d resources of the handler in flight at the same time, get %s serves %s, its events folded give %s", len(rids), p.rid, short(got, 200), short(want, 200)),
				map[string]interface{}{"config": e.cfg, "rid": p.rid, "served": got, "want": want, "history": hist})
			return true
		}
	}
	return true
}

func (e *c20Env) expectServed(state interface{}) string {
	if state == nil {
		if e.def != nil {
			return canon(e.def)
		}
		return "system.notFound"
	}
	return canon(state)
}

func c20Run(c *core.Ctx, b core.Batch) {
	var p c20Params
	json.Unmarshal(b.Params, &p)
	rigInstall()
	r := c.Rand
	for seq := 0; seq < p.N; seq++ {
		dir, err := os.MkdirTemp("", "rvmon-c20-")
		if err != nil {
			c.Inconclusive(err.Error())
			return
		}
		ok := c20Sequence(c, p.Cfg, dir, r, seq)
		os.RemoveAll(dir)
		if !ok {
			return
		}
		if p.Cfg.Type == "collection" && !p.Cfg.Default && seq%5 == 0 {
			dir, err := os.MkdirTemp("", "rvmon-c20-")
			if err != nil {
				c.Inconclusive(err.Error())
				return
			}
			ok := c20ParallelRemoves(c, p.Cfg, dir, seq)
			os.RemoveAll(dir)
			if !ok {
				return
			}
		}
	}
}

// c20ParallelRemoves: a collection registered with Parallel(true) gets remove events from
// sixteen callbacks at once. Some are applied, the others refused (the middleware's
// transaction meets a conflict): what get serves afterwards is the initial collection
// minus one item per applied event, and exactly the applied ones were published.
func c20ParallelRemoves(c *core.Ctx, cfg c20Cfg, dir string, seq int) bool {
	e := &c20Env{c: c, cfg: cfg, dir: dir, seq: seq, parallel: true}
	if err := e.open(); err != nil {
		c.Inconclusive("open: " + err.Error())
		return false
	}
	defer e.closeAll()
	const rid, items, rounds, par = "svc.r.par", 60, 3, 16
	var init []interface{}
	for k := 0; k < items; k++ {
		init = append(init, fmt.Sprintf("i%02d", k))
	}
	created := make(chan interface{}, 1)
	if err := e.rig.S.With(rid, func(rs res.Resource) { created <- try(func() { rs.CreateEvent(init) }) }); err != nil {
		c.Inconclusive("With: " + err.Error())
		return false
	}
	select {
	case pn := <-created:
		if pn != nil {
			c.Inconclusive(fmt.Sprintf("parallel removes: create failed: %v", pn))
			return false
		}
	case <-time.After(10 * time.Second):
		c.Inconclusive("parallel removes: create not processed")
		return false
	}
	pos := e.rig.C.Len()
	var applied int64
	for round := 0; round < rounds; round++ {
		var wg sync.WaitGroup
		start := make(chan struct{})
		for g := 0; g < par; g++ {
			wg.Add(1)
			err := e.rig.S.With(rid, func(rs res.Resource) {
				defer wg.Done()
				<-start
				if try(func() { rs.RemoveEvent(0) }) == nil {
					atomic.AddInt64(&applied, 1)
				}
			})
			if err != nil {
				wg.Done()
			}
		}
		close(start)
		done := make(chan struct{})
		go func() { wg.Wait(); close(done) }()
		if !waitCh(done, 20*time.Second) {
			c.Inconclusive("parallel removes: callbacks did not finish")
			return false
		}
	}
	c.Eval(rounds * par)
	c.Obs("parallel_remove_events", rounds*par)
	c.Obs("parallel_remove_events_applied", atomic.LoadInt64(&applied))
	published := 0
	for _, m := range e.rig.C.Since(pos) {
		if m.Subject == "event."+rid+".remove" {
			published++
		}
	}
	got, ok := e.served(rid)
	if !ok {
		return false
	}
	var l []interface{}
	json.Unmarshal([]byte(got), &l)
	sig := fmt.Sprintf("%s/%s", cfg.Pkg, cfg.Type)
	desc := map[string]interface{}{"config": cfg, "handler": "Parallel(true)", "initial_items": items, "remove_events_sent": rounds * par, "applied_without_error": applied, "published": published, "items_served_afterwards": len(l)}
	c.Distinct(fmt.Sprintf("parallel-removes/%s/%d", sig, seq))
	if int64(published) != applied {
		c.Violation("C20/parallel-removes:published:"+sig, fmt.Sprintf("%d remove events were applied without error, %d were published", applied, published), desc)
	}
	if int64(len(l)) != items-applied {
		c.Violation("C20/parallel-removes:get-not-fold:"+sig, fmt.Sprintf("%d items, %d remove events applied without error: get serves %d items, the fold has %d", items, applied, len(l), items-applied), desc)
	}
	return true
}

func c20Sequence(c *core.Ctx, cfg c20Cfg, dir string, r *rand.Rand, seq int) bool {
	e := &c20Env{c: c, cfg: cfg, dir: dir, seq: seq}
	if err := e.open(); err != nil {
		c.Inconclusive("open: " + err.Error())
		return false
	}
	rids := []string{"svc.r.1", "svc.r.2", "svc.r.3"}
	states := map[string]interface{}{}
	sigCfg := fmt.Sprintf("%s/%s/default=%v/index=%v", cfg.Pkg, cfg.Type, cfg.Default, cfg.Index)
	var hist []string
	for step := 0; step < 25; step++ {
		rid := rids[r.Intn(len(rids))]
		ev := c20RandEvent(r, cfg)
		c.Eval(1)
		before := states[rid]
		next, applicable, changed, rev, deleted := c20Fold(cfg, e.def, before, ev)
		rawBefore := e.raw(rid)
		e.lev, e.idxL = nil, nil
		pos := e.rig.C.Len()
		done := make(chan struct{})
		var pn interface{}
		var val interface{}
		var valErr error
		err := e.rig.S.With(rid, func(rs res.Resource) {
			defer close(done)
			if step%2 == 1 {
				// the handle has been used to read the value before the event: what it gives
				// afterwards is still the fold including the event
				rs.Value()
			}
			pn = try(func() {
				switch ev.Kind {
				case "change":
					rs.ChangeEvent(c20Real(ev.Vals).(map[string]interface{}))
				case "add":
					rs.AddEvent(c20Real(ev.Value), ev.Idx)
				case "remove":
					rs.RemoveEvent(ev.Idx)
				case "create":
					rs.CreateEvent(c20Real(ev.Value))
				case "delete":
					rs.DeleteEvent()
				}
			})
			val, valErr = rs.Value()
		})
		if err != nil || !waitCh(done, 10*time.Second) {
			c.Inconclusive("With did not run")
			e.closeAll()
			return false
		}
		hist = append(hist, fmt.Sprintf("%s %s", rid, jsonStr(ev)))
		desc := map[string]interface{}{"config": cfg, "rid": rid, "event": ev, "state_before": before, "history": hist, "panic": fmt.Sprint(pn)}
		var published []string
		for _, m := range e.rig.C.Since(pos) {
			if strings.HasPrefix(m.Subject, "event."+rid+".") && !strings.HasSuffix(m.Subject, ".query") {
				published = append(published, strings.TrimPrefix(m.Subject, "event."+rid+".")+":"+short(m.Payload, 100))
			}
		}
		desc["published"] = published
		rawAfter := e.raw(rid)
		if !applicable {
			if len(published) > 0 {
				c.Violation("C20/inapplicable-event-published:"+ev.Kind+":"+sigCfg, fmt.Sprintf("%s event on %s cannot be applied (state %s) but %v was published", ev.Kind, rid, jsonStr(before), published), desc)
			}
			if string(rawBefore) != string(rawAfter) {
				c.Violation("C20/inapplicable-event-changed-storage:"+ev.Kind+":"+sigCfg, fmt.Sprintf("%s event on %s cannot be applied but storage changed from %s to %s", ev.Kind, rid, rawBefore, rawAfter), desc)
			}
		} else {
			states[rid] = next
			// delete on a missing resource is not asserted (not in the statement's list)
			if changed {
				if len(published) != 1 {
					c.Violation("C20/applicable-event-publish-count:"+ev.Kind+":"+sigCfg, fmt.Sprintf("%s event on %s is applicable but %d messages were published", ev.Kind, rid, len(published)), desc)
				}
			}
			if ev.Kind == "change" && !changed && len(published) > 0 {
				c.Violation("C20/noop-change-published:"+sigCfg, "a change event that changes nothing was published", desc)
			}
			if changed {
				c.Distinct(fmt.Sprintf("%s/%d/%d", sigCfg, seq, step))
			}
		}
		// served value and Value()
		got, ok := e.served(rid)
		if !ok {
			e.closeAll()
			return false
		}
		want := e.expectServed(states[rid])
		if got != want {
			desc["served"], desc["want"] = got, want
			c.Violation("C20/get-not-fold:"+ev.Kind+":"+sigCfg, fmt.Sprintf("after %s on %s get serves %s, the events folded over the initial/default value give %s", ev.Kind, rid, got, want), desc)
			states[rid] = nil
			if got != "system.notFound" && !strings.HasPrefix(got, "system.") {
				var x interface{}
				json.Unmarshal([]byte(got), &x)
				states[rid] = x
			}
		}
		gotVal := "system.notFound"
		if valErr == nil {
			gotVal = canon(val)
		} else if re, ok := valErr.(*res.Error); ok {
			gotVal = re.Code
		}
		if gotVal != want && applicable {
			desc["value"], desc["want"] = gotVal, want
			c.Violation("C20/value-not-fold:"+ev.Kind+":"+sigCfg, fmt.Sprintf("after %s on %s Value() gives %s, the fold gives %s", ev.Kind, rid, gotVal, want), desc)
		}
		// listeners
		if applicable && len(published) == 1 && len(e.lev) == 1 {
			le := e.lev[0]
			switch ev.Kind {
			case "change":
				wantRev := map[string]interface{}{}
				for k, v := range rev {
					wantRev[k] = v
				}
				if canon(le.OldValues) != canon(wantRev) {
					desc["old_values"], desc["want_old_values"] = canon(le.OldValues), canon(wantRev)
					c.Violation("C20/listener-old-values:"+sigCfg, fmt.Sprintf("change listener got OldValues %s, previous stored values were %s", canon(le.OldValues), canon(wantRev)), desc)
				}
			case "delete":
				if deleted != nil && canon(le.Data) != canon(deleted) {
					desc["data"], desc["want_data"] = canon(le.Data), canon(deleted)
					c.Violation("C20/listener-delete-data:"+sigCfg, fmt.Sprintf("delete listener got Data %s, previous stored value was %s", canon(le.Data), canon(deleted)), desc)
				}
			}
		} else if applicable && len(published) == 1 && len(e.lev) != 1 {
			c.Violation("C20/listener-count:"+sigCfg, fmt.Sprintf("%d listener calls for one published event", len(e.lev)), desc)
		}
		if cfg.Index {
			if !c20CheckIndex(c, e, states, before, states[rid], rid, ev, desc, sigCfg) {
				e.closeAll()
				return false
			}
		}
	}
	// the resources of one handler served at the same time: every get still serves its own fold
	if !c20Burst(c, e, rids, states, sigCfg, hist) {
		e.closeAll()
		return false
	}
	// reopen under a new service
	e.closeAll()
	e2 := &c20Env{c: c, cfg: cfg, dir: dir}
	if err := e2.open(); err != nil {
		c.Violation("C20/reopen-failed:"+sigCfg, "database could not be reopened: "+err.Error(), nil)
		return true
	}
	if cfg.Index && seq%2 == 0 {
		// what an application does after opening a database whose index definitions may have
		// changed: rebuild the index entries of the handler's resources
		if err := e2.model.RebuildIndexes("svc.r.$id"); err != nil {
			c.Violation("C20/rebuild-indexes-failed:"+sigCfg, "RebuildIndexes after reopening failed: "+err.Error(), map[string]interface{}{"config": cfg, "history": hist})
		}
		c.Obs("rebuilds_after_reopen", 1)
	}
	for _, rid := range rids {
		c.Eval(1)
		got, ok := e2.served(rid)
		if !ok {
			break
		}
		if want := e2.expectServed(states[rid]); got != want {
			c.Violation("C20/reopen-differs:"+sigCfg, fmt.Sprintf("after reopening the database get %s serves %s, before it was %s", rid, got, want), map[string]interface{}{"config": cfg, "history": hist})
		}
	}
	if cfg.Index {
		c20CheckIndex(c, e2, states, nil, nil, "", c20Ev{Kind: "reopen"}, map[string]interface{}{"config": cfg, "history": hist}, sigCfg)
	}
	e2.closeAll()
	if seq == 0 {
		c.Sample(map[string]interface{}{"config": cfg, "history": hist[:minInt(6, len(hist))]})
	}
	return true
}

// c20CheckIndex checks index listener calls and query collection results.
func c20CheckIndex(c *core.Ctx, e *c20Env, states map[string]interface{}, before, after interface{}, rid string, ev c20Ev, desc map[string]interface{}, sigCfg string) bool {
	keyOf := func(v interface{}) string {
		if v == nil {
			return ""
		}
		m, _ := jsonNorm(v).(map[string]interface{})
		s, _ := m["k"].(string)
		return strings.ReplaceAll(strings.ReplaceAll(s, "<FF>", "\xff"), "<00>", "\x00")
	}
	if rid != "" && !(ev.Kind == "delete" && before == nil) {
		bk, ak := keyOf(before), keyOf(after)
		nIdx, nAny := 0, 0
		for _, l := range e.idxL {
			if strings.HasPrefix(l, "idxk:") {
				nIdx++
			} else {
				nAny++
			}
		}
		wantIdx := 0
		if bk != ak {
			wantIdx = 1
		}
		// the general listener is also called on every delete (not covered by the statement): tolerated
		okAny := nAny == wantIdx || (ev.Kind == "delete" && nAny == 1)
		if nIdx != wantIdx || !okAny {
			d := copyDesc(desc)
			d["index_listener_calls"] = e.idxL
			c.Violation("C20/index-listener-count:"+ev.Kind, fmt.Sprintf("index key of %s changed %q -> %q: %d calls of the index's listener and %d of the general listener, want %d", rid, bk, ak, nIdx, nAny, wantIdx), d)
		}
	}
	// query collection versus reference scan
	type ent struct{ key, rid string }
	var es []ent
	for id, st := range states {
		if k := keyOf(st); k != "" {
			es = append(es, ent{k, id})
		}
	}
	sort.Slice(es, func(i, j int) bool {
		if es[i].key != es[j].key {
			return es[i].key < es[j].key
		}
		return es[i].rid < es[j].rid
	})
	for _, q := range []struct {
		prefix string
		rev    bool
		limit  int
		offset int
	}{{"", false, -1, 0}, {"a", false, -1, 0}, {"ab", false, -1, 0}, {"", true, -1, 0}, {"a", true, 2, 0}, {"", false, 1, 1}, {"zz", false, -1, 0},
		{"a", true, -1, 0}, {"a\xff", true, -1, 0}, {"a\xff", false, -1, 0}, {"ab", true, -1, 1}, {"n", false, -1, 0}, {"n", true, -1, 0}} {
		var want []string
		for _, x := range es {
			if strings.HasPrefix(x.key, q.prefix) {
				want = append(want, x.rid)
			}
		}
		if q.rev {
			for i, j := 0, len(want)-1; i < j; i, j = i+1, j-1 {
				want[i], want[j] = want[j], want[i]
			}
		}
		if q.offset < len(want) {
			want = want[q.offset:]
		} else {
			want = nil
		}
		if q.limit >= 0 && q.limit < len(want) {
			want = want[:q.limit]
		}
		qs := fmt.Sprintf("prefix=%s&limit=%d&offset=%d", strings.ReplaceAll(q.prefix, "\xff", "%FF"), q.limit, q.offset)
		if q.rev {
			qs += "&rev=1"
		}
		pl, _ := json.Marshal(map[string]string{"query": qs})
		start := e.rig.C.Len()
		inbox, done, n := e.rig.send("get.svc.q", pl)
		if n != 1 || !waitCh(done, 10*time.Second) {
			c.Inconclusive("query get not processed")
			return false
		}
		resp, _ := replies(e.rig.C.Since(start), inbox)
		var rr struct {
			Result struct {
				Collection []struct {
					RID string `json:"rid"`
				} `json:"collection"`
			} `json:"result"`
		}
		if len(resp) == 1 {
			json.Unmarshal(resp[0].Data, &rr)
		}
		var got []string
		for _, x := range rr.Result.Collection {
			got = append(got, x.RID)
		}
		c.Obs("index_queries", 1)
		if strings.Join(got, ",") != strings.Join(want, ",") {
			d := copyDesc(desc)
			d["query"], d["got"], d["want"] = qs, got, want
			dir := "forward"
			if q.rev {
				dir = "reverse"
			}
			c.Violation("C20/query-collection:"+dir, fmt.Sprintf("query collection %q returns %v, reference scan gives %v", qs, got, want), d)
			break
		}
	}
	return true
}
