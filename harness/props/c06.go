package props

import (
	"encoding/json"
	"fmt"
	"math/rand"
	"sort"
	"strings"

	res "github.com/jirenius/go-res"

	"verif/harness/internal/core"
	"verif/harness/internal/ref"
)

// C06 - Routing returns the most specific matching pattern, params and group.

type c06Params struct {
	Kind    string `json:"kind"` // enum | random | hostile
	SetSize int    `json:"set_size"`
	Shard   int    `json:"shard"`
	Shards  int    `json:"shards"`
	N       int    `json:"n"`
}

func init() {
	core.Register(&core.Prop{
		ID:    "C06",
		Level: "exploration",
		Rule: "a case is one (pattern set, arrangement across Mount/Route/path prefixes, resource name) lookup compared with a brute-force reference router, or one registration verdict; " +
			"pattern sets: every set of <=2 (quick) / <=3 (thorough) patterns of <=3 tokens over {a,b,$x,$y,*,>} with every name of <=4 tokens over {a,b,c}, in 7 arrangements, plus seeded random sets of <=12 patterns of <=6 tokens with group templates and listeners; " +
			"non-trivial = lookups where >=2 registered patterns match the name (specificity decides) or the matched pattern has placeholders/group tags; counted per (set,arrangement,name), disjoint across shards",
		Assumptions: []string{
			"for strings that are not valid resource names only absence of panics is asserted",
			"listener-only patterns are rejected at Serve and are not generated for lookups",
			"reference router in internal/ref/router.go implements the documented rule: literal beats placeholder beats full wildcard, compared token by token from the left",
		},
		Batches: func(seed int64, tier core.Tier) []core.Batch {
			var bs []core.Batch
			shards := tierPick(tier, 16, 16)
			for s := 0; s < shards; s++ {
				bs = append(bs, core.Batch{Name: fmt.Sprintf("enum2-%d", s), TimeoutS: 900,
					Params: core.Params(c06Params{Kind: "enum", SetSize: 2, Shard: s, Shards: shards})})
			}
			if tier == core.Thorough {
				for s := 0; s < 64; s++ {
					bs = append(bs, core.Batch{Name: fmt.Sprintf("enum3-%d", s), TimeoutS: 1800,
						Params: core.Params(c06Params{Kind: "enum", SetSize: 3, Shard: s, Shards: 64})})
				}
			}
			nr := tierPick(tier, 8, 32)
			for s := 0; s < nr; s++ {
				bs = append(bs, core.Batch{Name: fmt.Sprintf("random-%d", s), TimeoutS: 900,
					Params: core.Params(c06Params{Kind: "random", N: tierPick(tier, 1500, 8000), Shard: s})})
			}
			bs = append(bs, core.Batch{Name: "hostile", TimeoutS: 600, Params: core.Params(c06Params{Kind: "hostile", N: tierPick(tier, 300, 3000)})})
			return bs
		},
		Exhaustive:     func(core.Tier) bool { return false },
		MinEvaluations: func(t core.Tier) int64 { return 1000000 },
		Run:            c06Run,
	})
}

type c06Route struct {
	ref.Route
	rel string // pattern relative to the mux currently being built
}

const (
	arrDirect = iota
	arrMountEmpty
	arrMountPath
	arrRoute
	arrThroughParent
	arrMountThenHandle
	arrMountBoth
	arrCount
)

var arrNames = []string{"direct", "mount-emptypath-sub", "mount-sub-with-path", "route", "through-parent", "mount-then-handle", "mount-path-plus-sub-path"}

type c06Builder struct {
	choose       func(depth int, tok string) int
	listenerFn   func(id string) func(*res.Event)
	listenerRoot bool
	root         *res.Mux
	rootPrefix   string // pattern prefix below the root mux for listeners registered via root
	regErr       interface{}
	used         map[int]bool // arrangement kinds actually used
	deferred     []func()
	// onRegister receives what the handlers' OnRegister callbacks are told
	onRegister func(marker string, s *res.Service, pattern string)
}

func (b *c06Builder) handler(r c06Route) res.Handler {
	h := res.Handler{Call: map[string]res.CallHandler{r.Marker: nil}, Group: r.Group, Parallel: r.Parallel}
	if b.onRegister != nil {
		marker := r.Marker
		h.OnRegister = func(s *res.Service, p res.Pattern, _ res.Handler) { b.onRegister(marker, s, string(p)) }
	}
	return h
}

// build registers the routes (with patterns relative to m) on m.
func (b *c06Builder) build(m *res.Mux, routes []c06Route, depth int, prefix string) {
	groups := map[string][]c06Route{}
	var order []string
	var direct []c06Route
	for _, r := range routes {
		toks := ref.Tokens(r.rel)
		if len(toks) == 0 || ref.ClassifyToken(toks[0]) != ref.TokLiteral {
			direct = append(direct, r)
			continue
		}
		if _, ok := groups[toks[0]]; !ok {
			order = append(order, toks[0])
		}
		groups[toks[0]] = append(groups[toks[0]], r)
	}
	reg := func(mx *res.Mux, r c06Route, pfx string) {
		mx.AddHandler(r.rel, b.handler(r))
		for _, l := range r.Listeners {
			if b.listenerRoot {
				// registered through the root after the whole tree is mounted
				full, fn := mergeDots(pfx, r.rel), b.listenerFn(l)
				b.deferred = append(b.deferred, func() { b.root.AddListener(full, fn) })
			} else {
				mx.AddListener(r.rel, b.listenerFn(l))
			}
		}
	}
	for _, r := range direct {
		reg(m, r, prefix)
	}
	strip := func(rs []c06Route) []c06Route {
		out := make([]c06Route, len(rs))
		for i, r := range rs {
			out[i] = r
			toks := ref.Tokens(r.rel)
			out[i].rel = strings.Join(toks[1:], ".")
		}
		return out
	}
	for _, t := range order {
		rs := groups[t]
		ch := b.choose(depth, t)
		b.used[ch] = true
		sp := mergeDots(prefix, t)
		switch ch {
		case arrDirect:
			for _, r := range rs {
				reg(m, r, prefix)
			}
		case arrMountEmpty:
			sub := res.NewMux("")
			b.build(sub, strip(rs), depth+1, sp)
			m.Mount(t, sub)
		case arrMountPath:
			sub := res.NewMux(t)
			b.build(sub, strip(rs), depth+1, sp)
			m.Mount("", sub)
		case arrRoute:
			m.Route(t, func(sub *res.Mux) {
				b.build(sub, strip(rs), depth+1, sp)
			})
		case arrThroughParent:
			sub := res.NewMux("")
			m.Mount(t, sub)
			if len(rs) > 1 {
				b.build(sub, strip(rs[:1]), depth+1, sp)
				for _, r := range rs[1:] {
					reg(m, r, prefix)
				}
			} else {
				reg(m, rs[0], prefix)
			}
		case arrMountThenHandle:
			sub := res.NewMux("")
			m.Mount(t, sub)
			b.build(sub, strip(rs), depth+1, sp)
		case arrMountBoth:
			// a child Mux with a path of its own (the common literal second token), mounted
			// at the first token: the handlers live under <mount path>.<child path>
			u, ok := "", true
			for i, r := range rs {
				toks := ref.Tokens(r.rel)
				if len(toks) < 3 || ref.ClassifyToken(toks[1]) != ref.TokLiteral || (i > 0 && toks[1] != u) {
					ok = false
					break
				}
				u = toks[1]
			}
			if !ok {
				sub := res.NewMux("")
				b.build(sub, strip(rs), depth+1, sp)
				m.Mount(t, sub)
				break
			}
			sub := res.NewMux(u)
			b.build(sub, strip(strip(rs)), depth+1, mergeDots(sp, u))
			m.Mount(t, sub)
		}
	}
}

func mergeDots(a, b string) string {
	if a == "" {
		return b
	}
	if b == "" {
		return a
	}
	return a + "." + b
}

// c06Config is one pattern set in one arrangement.
type c06Config struct {
	routes   []ref.Route // full patterns
	rootPath string
	arr      string
	mux      *res.Mux
	hits     *[]string // listener ids invoked
	// registered: marker -> patterns reported to the handler's OnRegister callback
	registered map[string][]string
	service    *res.Service
	// full patterns that carry listeners only (no handler): what a lookup gives for a name
	// one of them matches is not stated - it must still not panic
	listenerOnly []string
}

// c06Build builds the mux for the routes; returns the panic value if
// registration panicked.
func c06Build(routes []ref.Route, rootPath string, service bool, choose func(int, string) int, listenerRoot bool) (cfg *c06Config, pn interface{}, used map[int]bool) {
	hits := &[]string{}
	cfg = &c06Config{routes: routes, rootPath: rootPath, hits: hits}
	var root *res.Mux
	cfg.registered = map[string][]string{}
	if service {
		cfg.service = res.NewService(rootPath)
		root = cfg.service.Mux
	} else {
		root = res.NewMux(rootPath)
	}
	cfg.mux = root
	b := &c06Builder{choose: choose, root: root, listenerRoot: listenerRoot, used: map[int]bool{},
		listenerFn: func(id string) func(*res.Event) {
			return func(*res.Event) { *hits = append(*hits, id) }
		},
		onRegister: func(marker string, s *res.Service, pattern string) {
			if s == nil || (cfg.service != nil && s != cfg.service) {
				pattern = "<wrong service> " + pattern
			}
			cfg.registered[marker] = append(cfg.registered[marker], pattern)
		}}
	rel := make([]c06Route, len(routes))
	for i, r := range routes {
		rel[i] = c06Route{Route: r, rel: strings.TrimPrefix(strings.TrimPrefix(r.Pattern, rootPath), ".")}
		if rootPath == "" {
			rel[i].rel = r.Pattern
		}
	}
	pn = try(func() {
		b.build(root, rel, 0, "")
		for _, f := range b.deferred {
			f()
		}
	})
	return cfg, pn, b.used
}

// c06CheckOnRegister: every handler's OnRegister callback is told, exactly once, the
// full pattern it was registered with - in whatever order the tree of Mux values was
// put together and attached to the service (handlers added before or after their Mux
// was mounted, at any nesting depth). A Mux built on its own is attached to a service here.
func c06CheckOnRegister(c *core.Ctx, cfg *c06Config) {
	prefix := ""
	desc := map[string]interface{}{"arrangement": cfg.arr, "root_path": cfg.rootPath}
	if cfg.service == nil {
		if len(cfg.registered) > 0 {
			c.Violation("C06/onregister:called-without-service", fmt.Sprintf("OnRegister callbacks ran although the Mux is not attached to a service: %v", cfg.registered), desc)
			return
		}
		cfg.service = res.NewService("top")
		at := ""
		if cfg.rootPath == "" {
			at = "mnt"
		}
		prefix = mergeDots("top", at)
		desc["attached_late_at"] = prefix
		if pn := try(func() { cfg.service.Mount(at, cfg.mux) }); pn != nil {
			c.Violation("C06/onregister:mount-panics", fmt.Sprintf("mounting the finished Mux on a service panicked: %v", pn), desc)
			return
		}
	}
	c.Eval(1)
	c.Obs("onregister_configs", 1)
	for _, rt := range cfg.routes {
		want := mergeDots(prefix, rt.Pattern)
		got := cfg.registered[rt.Marker]
		c.Obs("onregister_callbacks", int64(len(got)))
		if len(got) != 1 || got[0] != want {
			desc["pattern"], desc["reported"] = want, got
			var ps []string
			for _, x := range cfg.routes {
				ps = append(ps, x.Pattern)
			}
			desc["patterns"] = ps
			kind := "wrong-pattern"
			if len(got) != 1 {
				kind = fmt.Sprintf("called-%d-times", len(got))
			}
			c.Violation("C06/onregister:"+kind, fmt.Sprintf("the handler registered as %q was told %q by OnRegister (arrangement %s)", want, got, cfg.arr), desc)
			return
		}
	}
}

// c06CheckLookup compares one lookup with the reference. Returns whether the
// case is non-trivial.
func c06CheckLookup(c *core.Ctx, cfg *c06Config, name string) bool {
	c.Eval(1)
	var mh *res.Match
	pn, stack := tryStack(func() { mh = cfg.mux.GetHandler(name) })
	desc := func() map[string]interface{} {
		var ps []string
		for _, r := range cfg.routes {
			g := r.Group
			if r.Parallel {
				g = "<parallel>"
			}
			ps = append(ps, fmt.Sprintf("%s[group=%s listeners=%v]", r.Pattern, g, r.Listeners))
		}
		return map[string]interface{}{"patterns": ps, "arrangement": cfg.arr, "root_path": cfg.rootPath, "name": name}
	}
	if pn != nil {
		w := desc()
		w["panic"] = fmt.Sprint(pn)
		w["stack"] = short(stack, 1500)
		w["listener_only_patterns"] = cfg.listenerOnly
		c.Violation("C06/lookup-panic:"+cfg.arr, fmt.Sprintf("GetHandler(%q) panicked: %v", name, pn), w)
		return false
	}
	for _, lp := range cfg.listenerOnly {
		if _, ok := ref.Match(lp, name); ok {
			c.Obs("lookups_matching_listener_only_patterns", 1)
			return false
		}
	}
	if !ref.ValidName(name) {
		return false
	}
	want, wparams, wgroup := ref.Lookup(cfg.routes, name)
	if want == nil {
		if mh != nil {
			w := desc()
			w["got"] = c06Marker(mh)
			c.Violation("C06/spurious-match:"+cfg.arr, fmt.Sprintf("GetHandler(%q) returned handler %s but no registered pattern matches", name, c06Marker(mh)), w)
		}
		return false
	}
	nmatch := 0
	for _, r := range cfg.routes {
		if _, ok := ref.Match(r.Pattern, name); ok {
			nmatch++
		}
	}
	nontrivial := nmatch >= 2 || len(wparams) > 0 || strings.Contains(want.Group, "${")
	if mh == nil {
		w := desc()
		w["want"] = want.Pattern
		c.Violation("C06/no-match:"+cfg.arr, fmt.Sprintf("GetHandler(%q) returned nil but pattern %q matches", name, want.Pattern), w)
		return nontrivial
	}
	if got := c06Marker(mh); got != want.Marker {
		w := desc()
		w["got_marker"], w["want_pattern"] = got, want.Pattern
		c.Violation("C06/wrong-handler:"+cfg.arr, fmt.Sprintf("GetHandler(%q) returned handler %s, most specific pattern is %q (%s)", name, got, want.Pattern, want.Marker), w)
		return nontrivial
	}
	if !mapsEqual(mh.Params, wparams) {
		w := desc()
		w["got"], w["want"] = mh.Params, wparams
		c.Violation("C06/params:"+cfg.arr, fmt.Sprintf("GetHandler(%q) params %v, want %v (pattern %q)", name, mh.Params, wparams, want.Pattern), w)
	}
	if mh.Group != wgroup {
		w := desc()
		w["got"], w["want"] = mh.Group, wgroup
		c.Violation("C06/group:"+cfg.arr, fmt.Sprintf("GetHandler(%q) group %q, want %q (pattern %q group template %q)", name, mh.Group, wgroup, want.Pattern, want.Group), w)
	}
	// listeners
	*cfg.hits = (*cfg.hits)[:0]
	for _, l := range mh.Listeners {
		l(&res.Event{})
	}
	got := append([]string(nil), *cfg.hits...)
	sort.Strings(got)
	wl := append([]string(nil), want.Listeners...)
	sort.Strings(wl)
	if strings.Join(got, ",") != strings.Join(wl, ",") {
		w := desc()
		w["got"], w["want"] = got, wl
		c.Violation("C06/listeners:"+cfg.arr, fmt.Sprintf("GetHandler(%q) listeners %v, want %v", name, got, wl), w)
	}
	return nontrivial
}

func c06Marker(mh *res.Match) string {
	for k := range mh.Handler.Call {
		return k
	}
	return "?"
}

func c06Run(c *core.Ctx, b core.Batch) {
	var p c06Params
	json.Unmarshal(b.Params, &p)
	switch p.Kind {
	case "enum":
		c06Enum(c, p)
	case "random":
		c06Random(c, p)
		c06ListenerConflicts(c, p)
	case "hostile":
		c06Hostile(c, p)
	}
}

func c06EnumPatterns() []string {
	toks := []string{"a", "b", "$x", "$y", "*", ">"}
	var out []string
	var rec func(cur []string)
	rec = func(cur []string) {
		if len(cur) > 0 {
			out = append(out, strings.Join(cur, "."))
		}
		if len(cur) == 3 || (len(cur) > 0 && cur[len(cur)-1] == ">") {
			return
		}
		for _, t := range toks {
			dup := false
			for _, u := range cur {
				if u == t && t[0] == '$' {
					dup = true
				}
			}
			if dup {
				continue
			}
			rec(append(append([]string(nil), cur...), t))
		}
	}
	rec(nil)
	return out
}

func c06EnumNames() []string {
	var out []string
	var rec func(cur []string)
	rec = func(cur []string) {
		if len(cur) > 0 {
			out = append(out, strings.Join(cur, "."))
		}
		if len(cur) == 4 {
			return
		}
		for _, t := range []string{"a", "b", "c"} {
			rec(append(append([]string(nil), cur...), t))
		}
	}
	rec(nil)
	return out
}

// c06GroupFor derives a group template deterministically from a pattern.
func c06GroupFor(p string, k int) (group string, parallel bool) {
	var tags []string
	for _, t := range ref.Tokens(p) {
		if ref.ClassifyToken(t) == ref.TokTag {
			tags = append(tags, t[1:])
		}
	}
	switch k % 5 {
	case 0:
		return "", false
	case 1:
		return "shared", false
	case 2:
		if len(tags) > 0 {
			return "${" + tags[len(tags)-1] + "}", false
		}
		return "", false
	case 3:
		if len(tags) > 1 {
			return "g.${" + tags[1] + "}-${" + tags[0] + "}", false
		}
		if len(tags) == 1 {
			return "g.${" + tags[0] + "}.${" + tags[0] + "}", false
		}
		return "lit", false
	}
	return "", true
}

func c06Enum(c *core.Ctx, p c06Params) {
	pats := c06EnumPatterns()
	names := c06EnumNames()
	idx := 0
	var nontrivial int64
	runSet := func(set []string) {
		idx++
		if idx%p.Shards != p.Shard {
			return
		}
		// conflicts?
		conflict := false
		seen := map[string]bool{}
		for _, s := range set {
			cn := ref.Canon(s)
			if seen[cn] {
				conflict = true
			}
			seen[cn] = true
		}
		for arr := 0; arr <= arrCount; arr++ {
			routes := make([]ref.Route, len(set))
			rootPath := ""
			if arr == arrCount {
				rootPath = "svc"
			}
			for i, s := range set {
				g, par := c06GroupFor(s, idx+i+arr)
				routes[i] = ref.Route{Pattern: mergeDots(rootPath, s), Marker: fmt.Sprintf("m%d", i), Group: g, Parallel: par}
				if (idx+i)%3 == 0 {
					routes[i].Listeners = []string{fmt.Sprintf("l%d", i)}
				}
			}
			a := arr
			if arr == arrCount {
				a = arrMountEmpty
			}
			cfg, pn, used := c06Build(routes, rootPath, arr == arrCount, func(int, string) int { return a }, arr%2 == 1)
			cfg.arr = arrNames[a]
			if !used[a] {
				cfg.arr = "direct"
				if arr != arrDirect && arr != arrCount {
					continue // arrangement not applicable (no literal first token): same as direct
				}
			}
			c.Obs("configs", 1)
			c.SetAdd("arrangements", cfg.arr)
			if conflict {
				c.Eval(1)
				if pn == nil {
					c.Violation("C06/register-accepts-conflict:"+cfg.arr, fmt.Sprintf("conflicting patterns %v were both accepted", set), map[string]interface{}{"patterns": set, "arrangement": cfg.arr})
				}
				c.Obs("conflicts_rejected", 1)
				continue
			}
			if pn != nil {
				c.Eval(1)
				c.Violation("C06/register-rejects:"+cfg.arr, fmt.Sprintf("registering valid, non-conflicting patterns %v panicked: %v", set, pn),
					map[string]interface{}{"patterns": set, "arrangement": cfg.arr, "panic": fmt.Sprint(pn)})
				continue
			}
			for _, n := range names {
				if c06CheckLookup(c, cfg, mergeDots(rootPath, n)) {
					nontrivial++
				}
			}
			if rootPath != "" {
				c06CheckLookup(c, cfg, rootPath)
				c06CheckLookup(c, cfg, "svcx.a")
				c06CheckLookup(c, cfg, "sv")
			}
			c06CheckOnRegister(c, cfg)
		}
		if idx%977 == 0 {
			c.Sample(map[string]interface{}{"pattern_set": set, "names": len(names), "arrangements": arrCount + 1})
		}
	}
	for i := range pats {
		if p.SetSize == 2 {
			runSet([]string{pats[i]})
		}
		for j := range pats {
			if p.SetSize == 2 {
				if j != i && (j > i || ref.Canon(pats[i]) == ref.Canon(pats[j])) {
					runSet([]string{pats[i], pats[j]})
				}
				continue
			}
			if j <= i {
				continue
			}
			for k := j + 1; k < len(pats); k++ {
				runSet([]string{pats[i], pats[j], pats[k]})
			}
		}
	}
	c.DistinctN(nontrivial)
	c.Max("pattern_sets_total", int64(idx))
}

var c06Tokens = []string{"a", "b", "c", "dd", "e1", "x-y", "$x", "$y", "$z", "$id", "*", "*", "A", "_"}

// c06RandPatternRoot also yields the root resource (pattern "", only below a
// non-empty Mux path), a lone full wildcard and a lone placeholder.
func c06RandPatternRoot(r *rand.Rand, hasRoot bool) string {
	switch k := r.Intn(24); {
	case k == 0 && hasRoot:
		return ""
	case k == 1:
		return ">"
	case k == 2:
		return []string{"$id", "*"}[r.Intn(2)]
	}
	return c06RandPattern(r)
}

func c06RandPattern(r *rand.Rand) string {
	n := 1 + r.Intn(6)
	var toks []string
	used := map[string]bool{}
	for i := 0; i < n; i++ {
		if i == n-1 && i > 0 && r.Intn(6) == 0 {
			toks = append(toks, ">")
			break
		}
		t := c06Tokens[r.Intn(len(c06Tokens))]
		if i < 2 && r.Intn(2) == 0 {
			t = []string{"a", "b", "c"}[r.Intn(3)]
		}
		if t[0] == '$' {
			if used[t] {
				t = "*"
			}
			used[t] = true
		}
		toks = append(toks, t)
	}
	return strings.Join(toks, ".")
}

func c06RandGroup(r *rand.Rand, p string) (string, bool) {
	var tags []string
	for _, t := range ref.Tokens(p) {
		if ref.ClassifyToken(t) == ref.TokTag {
			tags = append(tags, t[1:])
		}
	}
	switch k := r.Intn(8); {
	case k == 0:
		return "", true
	case k < 3:
		return "", false
	case k == 3:
		// (a Parallel handler that also has a Group: the group is ignored)
		return []string{"g", "shared", "x.y"}[r.Intn(3)], r.Intn(5) == 0
	}
	if len(tags) == 0 {
		return "", false
	}
	var sb strings.Builder
	for i := 0; i <= r.Intn(3); i++ {
		if r.Intn(2) == 0 {
			sb.WriteString([]string{"g.", "-", "p"}[r.Intn(3)])
		}
		sb.WriteString("${" + tags[r.Intn(len(tags))] + "}")
	}
	if r.Intn(3) == 0 {
		sb.WriteString(".t")
	}
	return sb.String(), r.Intn(6) == 0
}

func c06Random(c *core.Ctx, p c06Params) {
	r := c.Rand
	for i := 0; i < p.N; i++ {
		n := 1 + r.Intn(12)
		seen := map[string]bool{}
		var routes []ref.Route
		rootPath := []string{"", "", "svc", "a.b"}[r.Intn(4)]
		for len(routes) < n {
			pat := c06RandPatternRoot(r, rootPath != "")
			if seen[ref.Canon(pat)] {
				n--
				continue
			}
			seen[ref.Canon(pat)] = true
			g, par := c06RandGroup(r, pat)
			rt := ref.Route{Pattern: mergeDots(rootPath, pat), Marker: fmt.Sprintf("m%d", len(routes)), Group: g, Parallel: par}
			for k := 0; k < r.Intn(3); k++ {
				rt.Listeners = append(rt.Listeners, fmt.Sprintf("l%d.%d", len(routes), k))
			}
			routes = append(routes, rt)
		}
		choices := map[string]int{}
		cfg, pn, used := c06Build(routes, rootPath, r.Intn(2) == 0, func(d int, t string) int {
			k := fmt.Sprintf("%d/%s", d, t)
			if v, ok := choices[k]; ok {
				return v
			}
			v := r.Intn(arrCount)
			choices[k] = v
			return v
		}, r.Intn(2) == 0)
		var us []string
		for k := range used {
			us = append(us, arrNames[k])
			c.SetAdd("arrangements", arrNames[k])
		}
		sort.Strings(us)
		cfg.arr = "mixed(" + strings.Join(us, "+") + ")"
		c.Obs("configs", 1)
		if pn != nil {
			c.Eval(1)
			var ps []string
			for _, rt := range routes {
				ps = append(ps, rt.Pattern+"["+rt.Group+"]")
			}
			c.Violation("C06/register-rejects:"+cfg.arr, fmt.Sprintf("registering valid, non-conflicting patterns panicked: %v", pn),
				map[string]interface{}{"patterns": ps, "arrangement": cfg.arr, "panic": fmt.Sprint(pn)})
			continue
		}
		if i%3 == 2 {
			// patterns with listeners but no handler, registered last through the root
			for k := 0; k < 1+r.Intn(3); k++ {
				pat := c06RandPatternRoot(r, rootPath != "")
				if k == 0 && !strings.HasSuffix(pat, ">") {
					pat = mergeDots(pat, ">")
				}
				if seen[ref.Canon(pat)] || ref.PatternValidity(pat) != 1 {
					continue
				}
				seen[ref.Canon(pat)] = true
				// a placeholder named differently from one registered at the same position is refused
				if try(func() { cfg.mux.AddListener(pat, func(*res.Event) {}) }) == nil {
					cfg.listenerOnly = append(cfg.listenerOnly, mergeDots(rootPath, pat))
					c.Obs("listener_only_patterns", 1)
				}
			}
		}
		for k := 0; k < 60; k++ {
			rt := routes[r.Intn(len(routes))]
			var name string
			switch r.Intn(4) {
			case 0:
				name = c17Instantiate(r, rt.Pattern, true)
			case 1:
				name = mergeDots(rootPath, c17RandString(r, 5, 2, false))
			default:
				name = c17Instantiate(r, rt.Pattern, false)
			}
			if len(cfg.listenerOnly) > 0 && k%4 == 3 {
				name = c17Instantiate(r, cfg.listenerOnly[r.Intn(len(cfg.listenerOnly))], k%8 == 3)
			}
			// bias instantiations towards tokens that appear as literals
			if r.Intn(2) == 0 {
				toks := strings.Split(name, ".")
				j := r.Intn(len(toks))
				toks[j] = []string{"a", "b", "c", "dd", "e1"}[r.Intn(5)]
				name = strings.Join(toks, ".")
			}
			if c06CheckLookup(c, cfg, name) {
				c.Distinct(fmt.Sprintf("%d/%d/%s", p.Shard, i, name))
			}
		}
		c06CheckOnRegister(c, cfg)
		if i == 3 {
			var ps []string
			for _, rt := range routes {
				ps = append(ps, rt.Pattern+"[group="+rt.Group+"]")
			}
			c.Sample(map[string]interface{}{"patterns": ps, "arrangement": cfg.arr, "root_path": rootPath})
		}
	}
}

// c06ListenerConflicts: a listener and a handler (or two listeners) on the same
// pattern position with different placeholder names are a conflict and must be
// rejected at registration, in either order and also across a mounted Mux;
// with equal names they are accepted and the lookup reports both.
func c06ListenerConflicts(c *core.Ctx, p c06Params) {
	r := c.Rand
	for i := 0; i < p.N/4+20; i++ {
		var pat string
		var toks []string
		for {
			pat = "lit." + c06RandPattern(r)
			toks = ref.Tokens(pat)
			has := false
			for _, t := range toks {
				if ref.ClassifyToken(t) == ref.TokTag {
					has = true
				}
			}
			if has {
				break
			}
		}
		// rename one tag / turn it into the anonymous placeholder
		var tagIdx []int
		for k, t := range toks {
			if ref.ClassifyToken(t) == ref.TokTag {
				tagIdx = append(tagIdx, k)
			}
		}
		alt := append([]string{}, toks...)
		k := tagIdx[r.Intn(len(tagIdx))]
		// (a named against an anonymous placeholder is left out: whether that is a
		// conflict for a listener is not specified)
		how := "renamed"
		alt[k] = "$zz"
		other := strings.Join(alt, ".")
		listener := func(*res.Event) {}
		for variant := 0; variant < 6; variant++ {
			second := other
			if variant >= 4 {
				second = pat // consistent names: accepted
			}
			arrangement := []string{"handler-then-listener", "listener-then-handler", "listener-then-listener", "mounted:handler-in-child-listener-through-parent", "handler-then-listener", "mounted:handler-in-child-listener-through-parent"}[variant]
			m := res.NewMux("svc")
			pn := try(func() {
				switch variant {
				case 0, 4:
					m.Handle(pat, res.Call("m", func(res.CallRequest) {}))
					m.AddListener(second, listener)
				case 1:
					m.AddListener(second, listener)
					m.Handle(pat, res.Call("m", func(res.CallRequest) {}))
				case 2:
					m.AddListener(pat, listener)
					m.AddListener(second, listener)
				case 3, 5:
					sub := res.NewMux("")
					sub.Handle(strings.Join(toks[1:], "."), res.Call("m", func(res.CallRequest) {}))
					m.Mount("lit", sub)
					m.AddListener(second, listener)
				}
			})
			c.Eval(1)
			desc := map[string]interface{}{"first": pat, "second": second, "arrangement": arrangement}
			if variant < 4 {
				c.Distinct("lc/" + pat + "/" + second + "/" + arrangement)
				if pn == nil {
					c.Violation("C06/register-accepts-conflict:listener-"+how+":"+strings.SplitN(arrangement, ":", 2)[0], fmt.Sprintf("%s: patterns %q and %q name the placeholder at the same position differently but both registrations were accepted", arrangement, pat, second), desc)
				} else {
					c.Obs("listener_conflicts_rejected", 1)
				}
				continue
			}
			if pn != nil {
				desc["panic"] = fmt.Sprint(pn)
				c.Violation("C06/register-rejects:listener-same-names", fmt.Sprintf("%s: handler and listener on the same pattern %q were rejected: %v", arrangement, pat, pn), desc)
				continue
			}
			name := "svc." + c17Instantiate(r, pat, false)
			mt := m.GetHandler(name)
			if _, ok := ref.Match("svc."+pat, name); ok && (mt == nil || len(mt.Listeners) != 1) {
				c.Violation("C06/listeners:listener-same-names", fmt.Sprintf("%s: lookup of %q does not report the listener registered on %q", arrangement, name, pat), desc)
			}
		}
	}
}

// c06Hostile: lookup never panics on any input string.
// c06MountPaths: a mount or route path is a sequence of literal tokens. A path holding a
// placeholder or wildcard token, an empty token or an invalid character is refused by
// Mount and Route, on a Mux and on a Service, whatever the tree already holds; a literal
// path is accepted. The verdict per path is the reference grammar's (the one C17 compares
// the library's validators with); where that is unspecified nothing is asserted.
func c06MountPaths(c *core.Ctx) {
	paths := []string{"$id", "*", ">", "sub.$id", "$a.b", "a.*", "a.>", "*.a", "a.$x.b", "a..b", ".a", "a.", "a b", "a?b", "$", "a.$",
		"a", "a.b", "a$b", "a*", "x>y.z", "~", "a-b_c", "a.b.c.d"}
	for _, kind := range []string{"mux-mount", "mux-route", "service-mount", "service-route"} {
		for _, path := range paths {
			want := ref.ValidPath(path)
			if want == -1 {
				continue
			}
			var m *res.Mux
			if strings.HasPrefix(kind, "service") {
				m = res.NewService("svc").Mux
			} else {
				m = res.NewMux("root")
			}
			m.Handle("q.$id.x")
			m.Handle("$first.y")
			var pn interface{}
			if strings.HasSuffix(kind, "mount") {
				sub := res.NewMux("")
				sub.Handle("$id")
				pn = try(func() { m.Mount(path, sub) })
			} else {
				pn = try(func() { m.Route(path, func(sm *res.Mux) { sm.Handle("$id") }) })
			}
			c.Eval(1)
			c.Obs("mount_paths_offered", 1)
			switch {
			case want == 0 && pn == nil:
				c.Violation("C06/invalid-mount-path-accepted:"+kind, fmt.Sprintf("%s accepted the path %q, which is not a sequence of literal tokens", kind, path), map[string]interface{}{"kind": kind, "path": path})
			case want == 1 && pn != nil:
				c.Violation("C06/valid-mount-path-refused:"+kind, fmt.Sprintf("%s refused the literal path %q: %v", kind, path, pn), map[string]interface{}{"kind": kind, "path": path, "panic": fmt.Sprint(pn)})
			}
		}
	}
	c.Distinct("mount-paths")
}

func c06Hostile(c *core.Ctx, p c06Params) {
	r := c.Rand
	c06MountPaths(c)
	hostile := []string{"", ".", "..", "a.", ".a", "a..b", "*", ">", "a.>", "a.*", "$x", "a.$x", "svc", "svc.", "svc..", "svc.>", " ", "a b", "a\x00b", "é.ü",
		strings.Repeat("a.", 200) + "a", strings.Repeat(".", 100), strings.Repeat("a", 5000), "a?b", "a.b?q=1", "?"}
	for i := 0; i < p.N; i++ {
		n := 1 + r.Intn(8)
		seen := map[string]bool{}
		var routes []ref.Route
		rootPath := []string{"", "svc"}[r.Intn(2)]
		for len(routes) < n {
			pat := c06RandPatternRoot(r, rootPath != "")
			if seen[ref.Canon(pat)] {
				n--
				continue
			}
			seen[ref.Canon(pat)] = true
			g, par := c06RandGroup(r, pat)
			routes = append(routes, ref.Route{Pattern: mergeDots(rootPath, pat), Marker: fmt.Sprintf("m%d", len(routes)), Group: g, Parallel: par})
		}
		cfg, pn, _ := c06Build(routes, rootPath, false, func(d int, t string) int { return r.Intn(arrCount) }, false)
		cfg.arr = "mixed"
		if pn != nil {
			continue // reported by the random batches
		}
		for _, h := range hostile {
			c06CheckLookup(c, cfg, h)
			c06CheckLookup(c, cfg, mergeDots(rootPath, h))
			c.Distinct("h:" + h)
		}
		for k := 0; k < 40; k++ {
			s := c17RandString(r, 6, 3, true)
			c06CheckLookup(c, cfg, s)
			c06CheckLookup(c, cfg, mergeDots(rootPath, s))
			c.Distinct("h:" + s)
		}
		// an invalid pattern stays invalid whatever was registered before it: the same
		// placeholder name at two positions where accepted patterns already have placeholders
		for _, rt := range routes {
			toks := ref.Tokens(strings.TrimPrefix(strings.TrimPrefix(rt.Pattern, rootPath), "."))
			if rootPath == "" {
				toks = ref.Tokens(rt.Pattern)
			}
			nph := 0
			for i, t := range toks {
				switch ref.ClassifyToken(t) {
				case ref.TokTag, ref.TokAnon:
					nph++
					toks[i] = "$dup"
					if nph > 2 {
						toks[i] = fmt.Sprintf("$k%d", i)
					}
				case ref.TokFull:
					toks = toks[:i]
				}
			}
			if nph < 2 {
				continue
			}
			// the same pattern again with its anonymous placeholders named (a duplicate): refused
			// too, and - checked with the lookups below - without any effect on what is registered
			rel := ref.Tokens(strings.TrimPrefix(strings.TrimPrefix(rt.Pattern, rootPath), "."))
			if rootPath == "" {
				rel = ref.Tokens(rt.Pattern)
			}
			hasAnon := false
			for i, t := range rel {
				if ref.ClassifyToken(t) == ref.TokAnon {
					rel[i], hasAnon = fmt.Sprintf("$late%d", i), true
				}
			}
			if hasAnon {
				c.Obs("late_duplicate_registrations", 1)
				if pn := try(func() { cfg.mux.AddHandler(strings.Join(rel, "."), res.Handler{}) }); pn == nil {
					c.Violation("C06/register-accepts-conflict:late-duplicate", fmt.Sprintf("AddHandler(%q) was accepted on a Mux that already held %q", strings.Join(rel, "."), rt.Pattern),
						map[string]interface{}{"pattern": strings.Join(rel, "."), "registered_before": routes, "root_path": rootPath})
					break
				}
			}
			bad := strings.Join(append(toks, "dupleaf"), ".")
			c.Eval(1)
			c.Obs("late_invalid_registrations", 1)
			if pn := try(func() { cfg.mux.AddHandler(bad, res.Handler{}) }); pn == nil {
				c.Violation("C06/accepts-invalid:dup-tag-after-earlier-registrations", fmt.Sprintf("AddHandler(%q) was accepted on a Mux that already held %q: the placeholder name $dup occurs twice", bad, rt.Pattern),
					map[string]interface{}{"pattern": bad, "registered_before": routes, "root_path": rootPath})
				break
			}
		}
		// refused registrations leave the Mux as it was: the lookups give what they gave before
		cfg.arr = "mixed/after-refused-registrations"
		for _, rt := range routes {
			for k := 0; k < 3; k++ {
				c06CheckLookup(c, cfg, c17Instantiate(r, rt.Pattern, k == 2))
			}
		}
	}
	c.Sample(map[string]interface{}{"hostile_names": hostile[:12]})
}
