package props

import (
	"bytes"
	"encoding/json"
	"fmt"
	"math/rand"
	"net/url"
	"os"
	"sort"
	"strconv"
	"strings"
	"sync"
	"sync/atomic"
	"time"

	"github.com/dgraph-io/badger"
	"github.com/jirenius/go-res/store"
	"github.com/jirenius/go-res/store/badgerstore"

	"verif/harness/internal/core"
	"verif/harness/internal/sched"
)

// C13 - Index queries equal a sorted, filtered, windowed scan of the store.
// C14 - Query subscribers are always told when their result may have changed.

type idxParams struct {
	Kind      string `json:"kind"` // history | flush | concurrent
	Typed     bool   `json:"typed"`
	Prefix    string `json:"prefix"`
	Histories int    `json:"histories"`
	Shard     int    `json:"shard"`
}

func init() {
	core.Register(&core.Prop{
		ID:    "C13",
		Level: "exploration",
		Rule: "a case is one Query on a real badgerstore QueryStore (2 indexes) after a random history of creates, key-changing and key-keeping updates, nil keys and deletes over 14 ids and a Flush, compared with a reference computed from the model map: entries with non-nil key, prefix and filter applied, bytewise (key,id) order, reverse, offset, limit; query battery: prefix empty/partial/full/longer/containing NUL and ':', 3 filters, offsets 0..n+1, limits -1,0,1..n+1, both directions; " +
			"Flush monitor: index.end hook hits versus tasks enqueued at the moment Flush returns, with a slow key function / gate parking the index worker; queries racing with index maintenance are issued but not asserted until the Flush. distinct non-trivial = distinct (history, query) pairs whose reference result is non-empty or windowed",
		Assumptions: []string{
			"keys and ids are generated NUL-free (NUL is the separator); prefixes are not",
			"RebuildIndexes is covered by C12",
		},
		Parallel: 8,
		Batches: func(seed int64, tier core.Tier) []core.Batch {
			var bs []core.Batch
			i := 0
			for _, typed := range []bool{false, true} {
				for _, pfx := range []string{"", "st"} {
					for s := 0; s < tierPick(tier, 1, 6); s++ {
						bs = append(bs, core.Batch{Name: fmt.Sprintf("history-%d-%d", i, s), TimeoutS: 600,
							Params: core.Params(idxParams{Kind: "history", Typed: typed, Prefix: pfx, Histories: tierPick(tier, 30, 300), Shard: s})})
					}
					i++
				}
			}
			for s := 0; s < tierPick(tier, 2, 8); s++ {
				bs = append(bs, core.Batch{Name: fmt.Sprintf("flush-%d", s), TimeoutS: 600,
					Params: core.Params(idxParams{Kind: "flush", Typed: s%2 == 0, Prefix: []string{"", "f"}[s%2], Histories: tierPick(tier, 15, 200), Shard: s})})
			}
			bs = append(bs, core.Batch{Name: "concurrent-race", TimeoutS: 900, Race: true,
				Params: core.Params(idxParams{Kind: "concurrent", Typed: true, Prefix: "c", Histories: tierPick(tier, 4, 20)})})
			return bs
		},
		MinEvaluations: func(t core.Tier) int64 { return 5000 },
		Run:            func(c *core.Ctx, b core.Batch) { idxRun(c, b, "C13") },
	})
}

// idxEnv is a badger store with a query store over two indexes.
type idxEnv struct {
	db      *badger.DB
	dir     string
	st      *badgerstore.Store
	qs      *badgerstore.QueryStore
	typed   bool
	prefix  string
	model   map[string]interface{} // id -> value (written by the mutating goroutine under modelMu)
	modelMu sync.Mutex
	slow    int32 // when set, the key function of index "k" sleeps
	keyHit  int64
	inited  bool // Init has been called on the store (it seeds only the first time)
	// st2 is a second Store object over the same keys; conflictFor/conflictVal make the
	// BeforeChange listener of st write through it (fault injection: the outer commit fails)
	st2              *badgerstore.Store
	conflictFor      string
	conflictVal      interface{}
	conflictInjected bool
}

// updateWithFailingCommit updates id to outer while another transaction (through st2)
// writes inner between the outer transaction's read and its commit. Returns the error
// of the outer Update and whether the injection took place.
func (e *idxEnv) updateWithFailingCommit(id string, inner, outer interface{}) (error, bool) {
	e.conflictFor, e.conflictVal, e.conflictInjected = id, inner, false
	wt := e.st.Write(id)
	err := wt.Update(outer)
	wt.Close()
	e.conflictFor = ""
	return err, e.conflictInjected
}

func idxKey(field string, env *idxEnv) func(interface{}) []byte {
	return func(v interface{}) []byte {
		if env != nil && field == "k" {
			atomic.AddInt64(&env.keyHit, 1)
			if d := atomic.LoadInt32(&env.slow); d > 0 {
				time.Sleep(time.Duration(d) * time.Microsecond)
			}
		}
		s, ok := idxKeyOf(v, field)
		if !ok {
			return nil
		}
		return []byte(s) // empty but non-nil for the empty key
	}
}

var idxFilters = map[string]func([]byte) bool{
	"evenlen": func(k []byte) bool { return len(k)%2 == 0 },
	"hasa":    func(k []byte) bool { return bytes.IndexByte(k, 'a') >= 0 },
	"none":    func(k []byte) bool { return false },
}

// idxQuery is the harness' query description, encoded into url.Values.
type idxQuery struct {
	Index   string `json:"index"`
	Prefix  string `json:"prefix"`
	Filter  string `json:"filter,omitempty"`
	Offset  int    `json:"offset"`
	Limit   int    `json:"limit"`
	Reverse bool   `json:"reverse,omitempty"`
}

func (q idxQuery) values() url.Values {
	v := url.Values{}
	v.Set("index", q.Index)
	v.Set("prefix", q.Prefix)
	v.Set("filter", q.Filter)
	v.Set("offset", strconv.Itoa(q.Offset))
	v.Set("limit", strconv.Itoa(q.Limit))
	if q.Reverse {
		v.Set("reverse", "1")
	}
	return v
}

func idxIQ(qs *badgerstore.QueryStore, v url.Values) (*badgerstore.IndexQuery, error) {
	off, _ := strconv.Atoi(v.Get("offset"))
	lim, err := strconv.Atoi(v.Get("limit"))
	if err != nil {
		lim = -1
	}
	iq := &badgerstore.IndexQuery{
		Index:     qs.Index(v.Get("index")),
		KeyPrefix: []byte(v.Get("prefix")),
		Offset:    off,
		Limit:     lim,
		Reverse:   v.Get("reverse") == "1",
	}
	if f := v.Get("filter"); f != "" {
		iq.FilterKeys = idxFilters[f]
	}
	return iq, nil
}

func newIdxEnv(typed bool, prefix string) (*idxEnv, error) {
	dir, err := os.MkdirTemp("", "rvmon-idx-")
	if err != nil {
		return nil, err
	}
	db, err := openBadger(dir)
	if err != nil {
		return nil, err
	}
	env := &idxEnv{db: db, dir: dir, typed: typed, prefix: prefix, model: map[string]interface{}{}}
	env.st = badgerstore.NewStore(db).SetPrefix(prefix)
	if typed {
		env.st.SetType(tItem{})
	}
	env.st2 = badgerstore.NewStore(db).SetPrefix(prefix)
	if typed {
		env.st2.SetType(tItem{})
	}
	env.st.BeforeChange(func(id string, before, after interface{}) error {
		if env.conflictFor == id {
			env.conflictFor = ""
			wt2 := env.st2.Write(id)
			env.conflictInjected = wt2.Update(env.conflictVal) == nil
			wt2.Close()
		}
		return nil
	})
	// "prepared=1": the callback hands out one IndexQuery value per distinct query, built
	// once and used again for every later call (an application caching its parsed queries)
	prepared := map[string]*badgerstore.IndexQuery{}
	var pmu sync.Mutex
	env.qs = badgerstore.NewQueryStore(env.st, func(qs *badgerstore.QueryStore, v url.Values) (*badgerstore.IndexQuery, error) {
		if v.Get("prepared") != "1" {
			return idxIQ(qs, v)
		}
		pmu.Lock()
		defer pmu.Unlock()
		key := v.Encode()
		if iq, ok := prepared[key]; ok {
			return iq, nil
		}
		iq, err := idxIQ(qs, v)
		if err == nil {
			prepared[key] = iq
		}
		return iq, err
	}).
		AddIndex(badgerstore.Index{Name: "k", Key: idxKey("k", env)}).
		AddIndex(badgerstore.Index{Name: "x2", Key: idxKey("k2", nil)})
	return env, nil
}

func (e *idxEnv) close() {
	e.qs.Flush()
	e.db.Close()
	os.RemoveAll(e.dir)
}

// refQuery computes the reference result of a query over the model.
func refQuery(model map[string]interface{}, q idxQuery) []string {
	field := "k"
	if q.Index == "x2" {
		field = "k2"
	}
	type ent struct{ key, id string }
	var es []ent
	for id, v := range model {
		k, ok := idxKeyOf(v, field)
		if !ok {
			continue
		}
		if !strings.HasPrefix(k, q.Prefix) {
			continue
		}
		if q.Filter != "" && !idxFilters[q.Filter]([]byte(k)) {
			continue
		}
		es = append(es, ent{k, id})
	}
	// by key, then id - which is the order of key+<00>+id for keys without the separator
	// byte, and that order also for the keys that contain it (the statement's "sorted by
	// key" leaves those to the byte order of the entries)
	sort.Slice(es, func(i, j int) bool {
		return es[i].key+"\x00"+es[i].id < es[j].key+"\x00"+es[j].id
	})
	if q.Reverse {
		for i, j := 0, len(es)-1; i < j; i, j = i+1, j-1 {
			es[i], es[j] = es[j], es[i]
		}
	}
	if q.Limit == 0 {
		return nil
	}
	off := q.Offset
	if off > len(es) {
		off = len(es)
	}
	if off < 0 {
		off = 0
	}
	es = es[off:]
	if q.Limit > 0 && q.Limit < len(es) {
		es = es[:q.Limit]
	}
	out := make([]string, len(es))
	for i, e := range es {
		out[i] = e.id
	}
	return out
}

// idxTasksEnqueued counts successful mutations = index tasks enqueued (process wide).
var idxTasksEnqueued int64

var idxKeys = []string{"a", "ab", "abc", "b", "ba", emptyKeyMarker, "a:b", "z", "aa", "Ab", "a b", "ab~", "abcd", "k\x01", "é", emptyKeyMarker, "a<FF>", "a<FF><FF>", "<FF>", "ab<FF>c", "a<FF>b",
	// an index key is any byte string: this one holds the byte that separates key and id in the index
	"zz<00>q", "zz<00>q"}

type idxMut struct {
	Op  string `json:"op"`
	ID  string `json:"id"`
	K   string `json:"k,omitempty"`
	K2  string `json:"k2,omitempty"`
	Err string `json:"err,omitempty"`
}

// mutate performs one random mutation on the store and the model.
func (e *idxEnv) mutate(r *rand.Rand, ids []string, n int) (idxMut, interface{}, interface{}) {
	id := ids[r.Intn(len(ids))]
	before := e.model[id]
	wt := e.st.Write(id)
	defer wt.Close()
	// a transaction may read before it writes (and, see mutateTxn, write more than once)
	if r.Intn(3) == 0 {
		wt.Value()
		wt.Exists()
	}
	m := idxMut{ID: id}
	k := idxKeys[r.Intn(len(idxKeys))]
	if r.Intn(6) == 0 {
		k = "" // nil key
	}
	if id == "r" && r.Intn(3) > 0 {
		// key zz of id r: its index entry is the first one behind every entry whose key
		// starts with zz<00>q (the bound a reverse scan of that prefix starts from)
		k = "zz"
	}
	k2 := idxKeys[r.Intn(5)]
	if r.Intn(3) == 0 {
		k2 = ""
	}
	switch {
	case before == nil:
		m.Op, m.K, m.K2 = "create", k, k2
		v := mkValue2(e.typed, fmt.Sprintf("u%d", n), k, k2)
		// the model is updated before the store call: the index worker's callbacks read it
		// as soon as the mutation is committed
		e.setModel(id, v)
		if err := wt.Create(v); err != nil {
			e.setModel(id, before)
			m.Err = err.Error()
			return m, before, before
		}
		atomic.AddInt64(&idxTasksEnqueued, 1)
	case r.Intn(4) == 0:
		m.Op = "delete"
		e.setModel(id, nil)
		if err := wt.Delete(); err != nil {
			e.setModel(id, before)
			m.Err = err.Error()
			return m, before, before
		}
		atomic.AddInt64(&idxTasksEnqueued, 1)
	default:
		m.Op = "update"
		if r.Intn(3) == 0 { // keep keys, change payload only
			k, _ = valKey(before, "k")
			k2, _ = valKey(before, "k2")
		} else if r.Intn(2) == 0 { // change only one key
			k2, _ = valKey(before, "k2")
		}
		m.K, m.K2 = k, k2
		v := mkValue2(e.typed, fmt.Sprintf("u%d", n), k, k2)
		e.setModel(id, v)
		if err := wt.Update(v); err != nil {
			e.setModel(id, before)
			m.Err = err.Error()
			return m, before, before
		}
		atomic.AddInt64(&idxTasksEnqueued, 1)
	}
	return m, before, e.model[id]
}

// setModel sets (v != nil) or removes the model value of id under the model lock.
func (e *idxEnv) setModel(id string, v interface{}) {
	e.modelMu.Lock()
	if v == nil {
		delete(e.model, id)
	} else {
		e.model[id] = v
	}
	e.modelMu.Unlock()
}

// modelSnapshot returns a copy of the model taken under the model lock.
func (e *idxEnv) modelSnapshot() map[string]interface{} {
	e.modelMu.Lock()
	defer e.modelMu.Unlock()
	cp := make(map[string]interface{}, len(e.model))
	for k, v := range e.model {
		cp[k] = v
	}
	return cp
}

// burst: one writer mutates a few ids much faster than the slowed index worker
// works, so that more index updates are outstanding than the index queue
// (256 slots) holds, with several updates of the same id among them. Returns
// the mutations with the model value before and after each, and the largest
// number of outstanding index updates it saw.
func (e *idxEnv) burst(r *rand.Rand, ids []string, n0, count int) (muts []idxMut, befores, afters []interface{}, maxOutstanding int64) {
	atomic.StoreInt32(&e.slow, 250)
	defer atomic.StoreInt32(&e.slow, 0)
	for k := 0; k < count; k++ {
		m, b, a := e.mutate(r, ids, n0+k)
		muts, befores, afters = append(muts, m), append(befores, b), append(afters, a)
		if o := atomic.LoadInt64(&idxTasksEnqueued) - sched.Count("index.end"); o > maxOutstanding {
			maxOutstanding = o
		}
	}
	return
}

// mutateTxn performs a write transaction with a read followed by two or three
// mutations of the same id (each mutation is one index task). Returns the
// mutations in order with the model value before and after each.
func (e *idxEnv) mutateTxn(r *rand.Rand, ids []string, n int) (muts []idxMut, befores, afters []interface{}) {
	id := ids[r.Intn(len(ids))]
	wt := e.st.Write(id)
	defer wt.Close()
	wt.Value()
	steps := 2 + r.Intn(2)
	for k := 0; k < steps; k++ {
		before := e.model[id]
		m := idxMut{ID: id}
		key := idxKeys[r.Intn(len(idxKeys))]
		if r.Intn(6) == 0 {
			key = ""
		}
		k2 := idxKeys[r.Intn(5)]
		if r.Intn(3) == 0 {
			k2 = ""
		}
		var err error
		switch {
		case before == nil:
			m.Op, m.K, m.K2 = "create", key, k2
			v := mkValue2(e.typed, fmt.Sprintf("u%d.%d", n, k), key, k2)
			if err = wt.Create(v); err == nil {
				e.setModel(id, v)
			}
		case r.Intn(4) == 0:
			m.Op = "delete"
			if err = wt.Delete(); err == nil {
				e.setModel(id, nil)
			}
		default:
			m.Op, m.K, m.K2 = "update", key, k2
			v := mkValue2(e.typed, fmt.Sprintf("u%d.%d", n, k), key, k2)
			if err = wt.Update(v); err == nil {
				e.setModel(id, v)
			}
		}
		if err != nil {
			m.Err = err.Error()
		} else {
			atomic.AddInt64(&idxTasksEnqueued, 1)
		}
		if r.Intn(2) == 0 {
			wt.Value()
		}
		muts = append(muts, m)
		befores = append(befores, before)
		afters = append(afters, e.model[id])
	}
	return
}

// idxBattery returns the query battery for the current model.
func idxBattery(r *rand.Rand, n int) []idxQuery {
	prefixes := []string{"", "a", "ab", "abc", "abcd", "abcde", "b", "q", "a:", "a\x00", "ab\x00id", ":", "A", "k\x01", "é", "a ", "a\xff", "\xff", "a\xff\xff", "ab\xff", "zz", "zz\x00", "zz\x00q", "zz\x00q\x00"}
	var qs []idxQuery
	for _, idx := range []string{"k", "x2"} {
		for _, p := range prefixes {
			for _, rev := range []bool{false, true} {
				qs = append(qs, idxQuery{Index: idx, Prefix: p, Limit: -1, Reverse: rev})
			}
		}
		for _, f := range []string{"evenlen", "hasa", "none"} {
			qs = append(qs, idxQuery{Index: idx, Prefix: []string{"", "a"}[r.Intn(2)], Filter: f, Limit: -1, Reverse: r.Intn(2) == 0})
		}
		// filter and offset together: the offset counts what passes the filter
		for _, f := range []string{"evenlen", "hasa"} {
			for off := 1; off <= 3; off++ {
				qs = append(qs, idxQuery{Index: idx, Prefix: []string{"", "a"}[off%2], Filter: f, Offset: off, Limit: -1, Reverse: off%2 == 0})
			}
		}
		for off := 0; off <= n+1; off++ {
			qs = append(qs, idxQuery{Index: idx, Prefix: "", Offset: off, Limit: -1, Reverse: off%2 == 1})
		}
		for lim := 0; lim <= n+1; lim++ {
			qs = append(qs, idxQuery{Index: idx, Prefix: "", Offset: r.Intn(3), Limit: lim, Reverse: lim%2 == 0})
		}
		for k := 0; k < 12; k++ {
			qs = append(qs, idxQuery{Index: idx, Prefix: prefixes[r.Intn(len(prefixes))], Filter: []string{"", "", "evenlen", "hasa"}[r.Intn(4)],
				Offset: r.Intn(4), Limit: r.Intn(6) - 1, Reverse: r.Intn(2) == 0})
		}
	}
	return qs
}

func (e *idxEnv) checkQueries(c *core.Ctx, prop string, hist []idxMut, qs []idxQuery, tag string) {
	for _, q := range qs {
		c.Eval(1)
		res, err := e.qs.Query(q.values())
		if err != nil {
			c.Violation("C13/query-error", "Query failed: "+err.Error(), map[string]interface{}{"query": q})
			continue
		}
		got, _ := res.([]string)
		want := refQuery(e.model, q)
		if strings.Join(got, "\x1f") != strings.Join(want, "\x1f") {
			h := hist
			if len(h) > 40 {
				h = h[len(h)-40:]
			}
			cls := "forward"
			if q.Reverse {
				cls = "reverse"
			}
			switch {
			case len(got) == 0 && len(want) > 0:
				cls += "-empty"
			case len(got) == len(want):
				cls += "-order-or-members"
			case len(got) < len(want):
				cls += "-missing"
			default:
				cls += "-extra"
			}
			if q.Filter != "" {
				cls += "-filter"
			}
			if q.Offset > 0 || q.Limit >= 0 {
				cls += "-window"
			}
			c.Violation(prop+"/query-mismatch:"+cls, fmt.Sprintf("Query %+v returned %v, reference scan gives %v (%s)", q, got, want, tag),
				map[string]interface{}{"query": q, "got": got, "want": want, "typed": e.typed, "prefix": e.prefix, "history_tail": h})
		}
		if len(want) > 0 || q.Offset > 0 {
			c.Distinct(fmt.Sprintf("%s/%s/%+v", c.Batch.Name, tag, q))
		}
		// the same query through a prepared IndexQuery value, three times over
		pv := q.values()
		pv.Set("prepared", "1")
		for k := 1; k <= 3; k++ {
			res, err := e.qs.Query(pv)
			got, _ := res.([]string)
			if err != nil || strings.Join(got, "\x1f") != strings.Join(want, "\x1f") {
				c.Violation(prop+"/query-mismatch:prepared-query-reused", fmt.Sprintf("use %d of one prepared IndexQuery value for %+v returned %v (err %v), reference scan gives %v (%s)", k, q, got, err, want, tag),
					map[string]interface{}{"query": q, "got": got, "want": want, "use": k, "typed": e.typed, "prefix": e.prefix})
				break
			}
		}
	}
}

// c13SiblingRebuild: two query stores over one Store, the index of the second named like the
// first one's with a letter more (k and kk). RebuildIndexes on one of them concerns its own
// index entries only: afterwards the queries of both still equal the reference scan.
func c13SiblingRebuild(c *core.Ctx, p idxParams) {
	env, err := newIdxEnv(p.Typed, p.Prefix)
	if err != nil {
		c.Inconclusive("open: " + err.Error())
		return
	}
	defer env.close()
	qsB := badgerstore.NewQueryStore(env.st, idxIQ).AddIndex(badgerstore.Index{Name: "kk", Key: idxKey("k", nil)})
	keys := []string{"a", "ab", "b", "abc", "a<FF>", emptyKeyMarker, "z"}
	for k := 0; k < 24; k++ {
		id := fmt.Sprintf("sib%02d", k)
		v := mkValue2(env.typed, fmt.Sprintf("sib.u%d", k), keys[k%len(keys)], []string{"a", ""}[k%2])
		wt := env.st.Write(id)
		if err := wt.Create(v); err == nil {
			env.setModel(id, v)
		}
		wt.Close()
	}
	env.qs.Flush()
	qsB.Flush()
	check := func(when string) {
		for _, pre := range []string{"", "a", "ab", "b"} {
			for _, rev := range []bool{false, true} {
				for _, idx := range []string{"k", "kk"} {
					q := idxQuery{Index: idx, Prefix: pre, Limit: -1, Reverse: rev}
					st := env.qs
					if idx == "kk" {
						st = qsB
					}
					c.Eval(1)
					c.Obs("sibling_query_store_queries", 1)
					res, err := st.Query(q.values())
					got, _ := res.([]string)
					want := refQuery(env.model, q)
					if err != nil || strings.Join(got, "\x1f") != strings.Join(want, "\x1f") {
						c.Violation("C13/query-mismatch:sibling-query-store:"+when, fmt.Sprintf("two query stores over one store (indexes k and kk), %s: query %+v on index %s returns %v (error %v), reference scan gives %v", when, q, idx, got, err, want),
							map[string]interface{}{"query": q, "got": got, "want": want, "when": when, "indexes": []string{"k", "x2", "kk"}})
						return
					}
				}
			}
		}
	}
	check("before-rebuild")
	if err := env.qs.RebuildIndexes(); err != nil {
		c.Violation("C13/rebuild-failed", "RebuildIndexes failed: "+err.Error(), nil)
		return
	}
	env.qs.Flush()
	qsB.Flush()
	check("after-rebuild-of-the-other")
	if err := qsB.RebuildIndexes(); err != nil {
		c.Violation("C13/rebuild-failed", "RebuildIndexes failed: "+err.Error(), nil)
		return
	}
	qsB.Flush()
	check("after-rebuild-of-both")
	c.Distinct("sibling-rebuild/" + fmt.Sprint(p.Typed) + "/" + p.Prefix)
}

func idxRun(c *core.Ctx, b core.Batch, prop string) {
	var p idxParams
	json.Unmarshal(b.Params, &p)
	sched.Install()
	for h := 0; h < p.Histories; h++ {
		env, err := newIdxEnv(p.Typed, p.Prefix)
		if err != nil {
			c.Inconclusive("open: " + err.Error())
			return
		}
		r := newRand(core.SubSeed(c.Batch.Seed, fmt.Sprintf("%s/%d", c.Batch.Name, h)))
		switch {
		case prop == "C14":
			c14History(c, env, r, h)
		case p.Kind == "history":
			c13History(c, env, r, h)
		case p.Kind == "flush":
			c13Flush(c, env, r, h)
		case p.Kind == "concurrent":
			c13Concurrent(c, env, r, h)
		}
		env.close()
	}
	if prop == "C13" && p.Kind == "history" {
		c13SiblingRebuild(c, p)
	}
	for k, v := range sched.Counts() {
		c.Obs("hook:"+k, v)
	}
}

func idxIDs(h int) []string {
	ids := make([]string, 14)
	for i := range ids {
		ids[i] = fmt.Sprintf("id%02d", i)
	}
	ids[3] = "a" // ids that look like keys
	ids[4] = "ab"
	ids[5] = "i:d"
	ids[6] = "r"
	return ids
}

func c13History(c *core.Ctx, env *idxEnv, r *rand.Rand, h int) {
	ids := idxIDs(h)
	var hist []idxMut
	steps := 3 + r.Intn(4)
	n := 0
	for s := 0; s < steps; s++ {
		for k := 0; k < 5+r.Intn(25); k++ {
			n++
			if r.Intn(5) == 0 {
				ms, _, _ := env.mutateTxn(r, ids, n)
				hist = append(hist, ms...)
				continue
			}
			m, _, _ := env.mutate(r, ids, n)
			hist = append(hist, m)
		}
		env.qs.Flush()
		env.checkQueries(c, "C13", hist, idxBattery(r, len(env.model)), fmt.Sprintf("h%d/s%d", h, s))
	}
	if h == 1 {
		// index queue overflow: the index must still end up reflecting the last mutation of every id
		ms, _, _, maxOut := env.burst(r, ids[:6], n, 900)
		n += len(ms)
		hist = append(hist, ms...)
		c.Max("max_outstanding_index_updates", maxOut)
		c.Obs("burst_mutations", int64(len(ms)))
		env.qs.Flush()
		env.checkQueries(c, "C13", hist, idxBattery(r, len(env.model)), fmt.Sprintf("h%d/burst", h))
	}
	if h == 2 {
		// a large store: windows longer than any internal buffer (several hundred hits)
		for k := 0; k < 420; k++ {
			id := fmt.Sprintf("big%03d", k)
			key := []string{"a", "ab", "abc", "b", "a<FF>", emptyKeyMarker, "ab~"}[k%7]
			v := mkValue2(env.typed, fmt.Sprintf("big.u%d", k), key, []string{"a", ""}[k%2])
			wt := env.st.Write(id)
			if err := wt.Create(v); err == nil {
				env.model[id] = v
				atomic.AddInt64(&idxTasksEnqueued, 1)
				n++
			}
			wt.Close()
		}
		env.qs.Flush()
		var qs []idxQuery
		for _, idx := range []string{"k", "x2"} {
			for _, rev := range []bool{false, true} {
				qs = append(qs, idxQuery{Index: idx, Prefix: "", Limit: -1, Reverse: rev}, idxQuery{Index: idx, Prefix: "a", Limit: -1, Reverse: rev},
					idxQuery{Index: idx, Prefix: "", Limit: 300, Reverse: rev}, idxQuery{Index: idx, Prefix: "", Offset: 100, Limit: 290, Reverse: rev},
					idxQuery{Index: idx, Prefix: "a", Offset: 257, Limit: -1, Reverse: rev}, idxQuery{Index: idx, Prefix: "", Filter: "hasa", Offset: 3, Limit: 260, Reverse: rev},
					idxQuery{Index: idx, Prefix: "", Limit: 256, Reverse: rev}, idxQuery{Index: idx, Prefix: "", Limit: 257, Reverse: rev}, idxQuery{Index: idx, Prefix: "", Limit: 255, Reverse: rev})
			}
		}
		c.Obs("large_store_queries", int64(len(qs)))
		env.checkQueries(c, "C13", hist, qs, fmt.Sprintf("h%d/large", h))
	}
	// Init over the existing values: it offers a value with other keys for every id of this
	// history plus two new ids. The first Init on a store adds the ids that do not exist and
	// leaves the others (and their index entries) alone; a later Init changes nothing.
	offered := map[string]interface{}{}
	for i, id := range append(append([]string{}, ids...), fmt.Sprintf("initnew%d.a", h), fmt.Sprintf("initnew%d.b", h)) {
		offered[id] = mkValue2(env.typed, fmt.Sprintf("init.u%d.%d", h, i), []string{"zinit", "b", "a"}[i%3], []string{"zz", ""}[i%2])
	}
	first := !env.inited
	if first {
		for id, v := range offered {
			if _, ok := env.model[id]; !ok {
				env.setModel(id, v)
				atomic.AddInt64(&idxTasksEnqueued, 1)
				hist = append(hist, idxMut{ID: id, Op: "init-create"})
			}
		}
	}
	env.inited = true
	if err := env.st.Init(func(add func(id string, v interface{})) error {
		for id, v := range offered {
			add(id, v)
		}
		return nil
	}); err != nil {
		c.Violation("C13/init-failed", "Init over an existing store failed: "+err.Error(), map[string]interface{}{"history": h})
		return
	}
	c.Obs("init_over_existing", 1)
	env.qs.Flush()
	env.checkQueries(c, "C13", hist, idxBattery(r, len(env.model)), fmt.Sprintf("h%d/init-first=%v", h, first))
	c.Obs("mutations", int64(n))
	if h == 0 {
		c.Sample(map[string]interface{}{"typed": env.typed, "prefix": env.prefix, "history_head": hist[:minInt(8, len(hist))], "battery_size": len(idxBattery(r, len(env.model)))})
	}
}

func minInt(a, b int) int {
	if a < b {
		return a
	}
	return b
}

// c13Flush: Flush must not return while an index task enqueued before it is
// still running.
func c13Flush(c *core.Ctx, env *idxEnv, r *rand.Rand, h int) {
	ids := idxIDs(h)
	var hist []idxMut
	n := 0
	var tasks int64
	if h%2 == 0 {
		// an index update that fails (the index key is longer than the database accepts: the
		// value is stored, its index entry is refused) is a finished update like any other;
		// Flush keeps waiting for the updates that follow it. The value stays out of the model.
		wt := env.st.Write("huge")
		if err := wt.Create(mkValue2(env.typed, "huge.u", strings.Repeat("y", 70000), "")); err == nil {
			atomic.AddInt64(&idxTasksEnqueued, 1)
			c.Obs("index_updates_with_oversized_key", 1)
		}
		wt.Close()
		env.qs.Flush()
	}
	for round := 0; round < 6; round++ {
		mode := round % 3
		var gate *sched.Gate
		switch mode {
		case 1:
			atomic.StoreInt32(&env.slow, 300)
		case 2:
			// park the index worker after its commit, before it finishes the task
			gate = sched.Arm("index.committed", nil)
		}
		nm := 1 + r.Intn(4)
		var last idxMut
		for k := 0; k < nm; k++ {
			n++
			m, _, _ := env.mutate(r, ids, n)
			hist = append(hist, m)
			if m.Err == "" {
				tasks++
			}
			last = m
		}
		if gate != nil {
			go func() {
				if gate.WaitArrived(2 * time.Second) {
					time.Sleep(3 * time.Millisecond)
				}
				gate.Release()
			}()
		}
		c.Eval(1)
		env.qs.Flush()
		ended := sched.Count("index.end")
		begun := atomic.LoadInt64(&idxTasksEnqueued)
		atomic.StoreInt32(&env.slow, 0)
		c.Distinct(fmt.Sprintf("%s/%d/%d", c.Batch.Name, h, round))
		if begun != ended {
			c.Violation("C13/flush-returned-early", fmt.Sprintf("Flush returned while an index task enqueued before it had not finished (%d tasks enqueued, %d finished; mode=%d)", begun, ended, mode),
				map[string]interface{}{"mode": []string{"plain", "slow-key-function", "index-worker-parked-after-commit"}[mode], "last_mutation": last})
			time.Sleep(20 * time.Millisecond)
			continue
		}
		env.checkQueries(c, "C13", hist, idxBattery(r, len(env.model))[:40], fmt.Sprintf("flush-h%d/r%d", h, round))
	}
	_ = tasks
}

// c13Concurrent: queries racing with index maintenance (results asserted only after the Flush).
func c13Concurrent(c *core.Ctx, env *idxEnv, r *rand.Rand, h int) {
	ids := idxIDs(h)
	var hist []idxMut
	stop := make(chan struct{})
	var wg sync.WaitGroup
	var queries int64
	for g := 0; g < 3; g++ {
		wg.Add(1)
		go func(g int) {
			defer wg.Done()
			gr := newRand(int64(g) + 77)
			bat := idxBattery(gr, 8)
			for {
				select {
				case <-stop:
					return
				default:
				}
				q := bat[gr.Intn(len(bat))]
				if _, err := env.qs.Query(q.values()); err != nil {
					c.Violation("C13/query-error", "Query failed during index maintenance: "+err.Error(), map[string]interface{}{"query": q})
					return
				}
				atomic.AddInt64(&queries, 1)
			}
		}(g)
	}
	for n := 1; n <= 150; n++ {
		m, _, _ := env.mutate(r, ids, n)
		hist = append(hist, m)
	}
	close(stop)
	wg.Wait()
	env.qs.Flush()
	c.Obs("racing_queries", atomic.LoadInt64(&queries))
	env.checkQueries(c, "C13", hist, idxBattery(r, len(env.model)), fmt.Sprintf("conc-h%d", h))
}

var _ = store.ErrNotFound
