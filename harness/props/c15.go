package props

import (
	"encoding/json"
	"fmt"
	"strings"
	"sync"
	"sync/atomic"
	"time"

	res "github.com/jirenius/go-res"
	nats "github.com/nats-io/nats.go"

	"verif/harness/internal/core"
	"verif/harness/internal/mon"
	"verif/harness/internal/natsenv"
	"verif/harness/internal/sched"
	"verif/harness/internal/vconn"
)

// C15 - Query events answer each query once, end with nil once, and leak nothing.

type c15Params struct {
	Kind     string `json:"kind"` // nats | failsub | directed | long
	Events   int    `json:"events"`
	Rounds   int    `json:"rounds"`
	Duration int    `json:"duration_ms"`
	Gate     string `json:"gate,omitempty"`
	Workers  int    `json:"workers"`
	Shared   bool   `json:"shared_group,omitempty"` // barrage: all query events of a round on resources of one group
}

func init() {
	core.Register(&core.Prop{
		ID:    "C15",
		Level: "exploration",
		Rule: "a case is one query event on a real Service over an embedded NATS server (real nats.Conn, real Drain/Unsubscribe semantics): 1-50 concurrent query events with durations 5-100 ms receive up to 5 query requests each, sent before / around / after expiry with valid, missing-query, malformed and empty payloads, while the callback replies (model, collection, not found, invalid query, error), adds events, calls Timeout, panics (5 kinds) or does nothing; " +
			"oracles: responses per request inbox on the wire (exactly one for requests flushed to the server before the query.expire hook fired, at most one afterwards), response content, callback log with global sequence numbers (nil exactly once, nothing after nil), occupancy monitor per group, goroutine probe on the listener function and subscription counts on both ends of the connection against the pre-run baseline; failed subscriptions on the recording connection; directed gates ordering a late request against the nil call; long histories of expired events. distinct non-trivial = distinct (round, query event) pairs that received at least one request",
		Assumptions: []string{
			"a request published after the unsubscribe reached the server legitimately gets no answer: 'exactly one' is asserted only for requests flushed before query.expire",
			"at most 5 requests are outstanding per query event (the subscription channel holds 10)",
		},
		Parallel: 6,
		Batches: func(seed int64, tier core.Tier) []core.Batch {
			var bs []core.Batch
			i := 0
			for _, ev := range []int{1, 5, 20, 50} {
				for _, d := range []int{5, 30, 100} {
					if tier == core.Quick && i%2 == 1 {
						i++
						continue
					}
					bs = append(bs, core.Batch{Name: fmt.Sprintf("nats-e%d-d%d", ev, d), TimeoutS: 300,
						Params: core.Params(c15Params{Kind: "nats", Events: ev, Duration: d, Rounds: tierPick(tier, 3, 30), Workers: []int{1, 4, 32}[i%3]})})
					i++
				}
			}
			for _, w := range []int{4, 32} {
				bs = append(bs, core.Batch{Name: fmt.Sprintf("barrage-w%d", w), TimeoutS: 300,
					Params: core.Params(c15Params{Kind: "barrage", Events: 2, Duration: 5, Rounds: tierPick(tier, 40, 300), Workers: w})})
			}
			// twelve query events at a time on resources sharing a group: twelve listener goroutines
			// pass requests on to one group's work queue
			bs = append(bs, core.Batch{Name: "barrage-shared-group", TimeoutS: 300,
				Params: core.Params(c15Params{Kind: "barrage", Events: 12, Duration: 20, Rounds: tierPick(tier, 15, 120), Workers: 8, Shared: true})})
			bs = append(bs, core.Batch{Name: "failsub", TimeoutS: 120, Params: core.Params(c15Params{Kind: "failsub", Rounds: tierPick(tier, 40, 400)})})
			for _, g := range []string{"late-request", "expiry-parked", "control"} {
				bs = append(bs, core.Batch{Name: "directed-" + g, TimeoutS: 300, Params: core.Params(c15Params{Kind: "directed", Gate: g, Rounds: tierPick(tier, 6, 40), Duration: 15})})
			}
			bs = append(bs, core.Batch{Name: "long", TimeoutS: 600, Params: core.Params(c15Params{Kind: "long", Events: tierPick(tier, 300, 5000), Duration: 2})})
			bs = append(bs, core.Batch{Name: "nats-race", TimeoutS: 600, Race: true, Params: core.Params(c15Params{Kind: "nats", Events: 10, Duration: 10, Rounds: tierPick(tier, 3, 10), Workers: 4})})
			return bs
		},
		MinEvaluations: func(t core.Tier) int64 { return 100 },
		Run:            c15Run,
	})
}

var c15Behaviours = []string{"nothing", "model", "collection", "notfound", "invalidquery", "invalidquery-msg", "error-res", "error-plain", "error-nomsg", "error-nil", "events", "events-many", "timeout-then-model",
	"panic-reserr", "panic-err", "panic-str", "panic-int", "panic-runtime", "panic-nil", "reply-twice", "panic-after-reply", "panic-reserr-nil", "events-then-panic-nil", "alternate-events-then-reply"}

type c15CB struct {
	Seq   int64
	Nil   bool
	Query string
}

type c15Event struct {
	idx       int
	rid       string
	typ       string // model | collection
	behaviour string
	subject   string
	mu        sync.Mutex
	cbs       []c15CB
	reqs      []*c15Req
	alt       int32 // callback count of behaviour alternate-events-then-reply
}

type c15Req struct {
	inbox    string
	payload  string
	kind     string // valid missing malformed empty
	flushSeq int64
	when     string
}

type c15Env struct {
	c      *core.Ctx
	ne     *natsenv.Env
	nc     *nats.Conn
	svc    *res.Service
	serveR chan error
	occ    *mon.Occupancy
	events sync.Map // rid -> *c15Event (current)
	expire sync.Map // subject -> expire seq
	subs   sync.Map // subject -> *nats.Subscription
}

func c15Behave(ev *c15Event, qr res.QueryRequest) {
	switch ev.behaviour {
	case "nothing":
	case "model":
		if ev.typ == "model" {
			qr.Model(map[string]interface{}{"a": 1})
		} else {
			qr.Collection([]interface{}{1, "x"})
		}
	case "collection":
		// wrong type for the resource: panics inside the library ("not allowed")
		if ev.typ == "model" {
			qr.Collection([]int{1})
		} else {
			qr.Model(map[string]int{"a": 1})
		}
	case "notfound":
		qr.NotFound()
	case "invalidquery":
		qr.InvalidQuery("")
	case "invalidquery-msg":
		qr.InvalidQuery("bad one")
	case "error-res":
		qr.Error(errRes)
	case "error-plain":
		qr.Error(errPlain)
	case "error-nomsg":
		qr.Error(&res.Error{Code: "custom.nomsg"})
	case "error-nil":
		// a nil *res.Error passed on unchecked
		qr.Error((*res.Error)(nil))
	case "events", "events-many":
		n := 1
		if ev.behaviour == "events-many" {
			n = 4
		}
		for i := 0; i < n; i++ {
			if ev.typ == "model" {
				qr.(interface {
					ChangeEvent(map[string]interface{})
				}).ChangeEvent(map[string]interface{}{"k": i})
			} else {
				qr.(interface{ AddEvent(interface{}, int) }).AddEvent(i, 0)
				qr.(interface{ RemoveEvent(int) }).RemoveEvent(0)
			}
		}
	case "alternate-events-then-reply":
		// every other request: the callback adds events and then answers itself (the events are
		// dropped with that reply); the requests in between add nothing and get an empty list
		if atomic.AddInt32(&ev.alt, 1)%2 == 1 {
			if ev.typ == "model" {
				qr.(interface {
					ChangeEvent(map[string]interface{})
				}).ChangeEvent(map[string]interface{}{"stale": true})
			} else {
				qr.(interface{ AddEvent(interface{}, int) }).AddEvent("stale", 0)
			}
			qr.NotFound()
		}
	case "timeout-then-model":
		// every query event announces a duration of its own
		qr.Timeout(time.Duration(3000+7*ev.idx) * time.Millisecond)
		if ev.typ == "model" {
			qr.Model(map[string]interface{}{"a": 1})
		} else {
			qr.Collection([]interface{}{1})
		}
	case "panic-reserr":
		panic(errRes)
	case "panic-reserr-nil":
		// panic(validate(q)) where the helper returns a nil *res.Error for "fine"
		panic((*res.Error)(nil))
	case "events-then-panic-nil":
		if ev.typ == "model" {
			qr.(interface {
				ChangeEvent(map[string]interface{})
			}).ChangeEvent(map[string]interface{}{"k": 1})
		} else {
			qr.(interface{ RemoveEvent(int) }).RemoveEvent(0)
		}
		panic(nil)
	case "panic-err":
		panic(errPlain)
	case "panic-str":
		panic("boom")
	case "panic-int":
		panic(3)
	case "panic-nil":
		panic(nil)
	case "panic-runtime":
		var m map[string]int
		m["x"] = 1
	case "reply-twice":
		qr.NotFound()
		qr.NotFound()
	case "panic-after-reply":
		qr.NotFound()
		panic("after reply")
	}
}

func newC15Env(c *core.Ctx, p c15Params) (*c15Env, error) {
	rigInstall()
	ne, err := natsenv.Start()
	if err != nil {
		return nil, err
	}
	nc, err := ne.Connect("service")
	if err != nil {
		ne.Shutdown()
		return nil, err
	}
	e := &c15Env{c: c, ne: ne, nc: nc, serveR: make(chan error, 1)}
	e.occ = mon.NewOccupancy(func(group, first, second string) {
		c.Violation("C15/callback-overlap", fmt.Sprintf("query callbacks %s and %s of group %q ran at the same time", first, second, group), nil)
	})
	sched.On("query.expire", func(arg interface{}) {
		if sub, ok := arg.(*nats.Subscription); ok && sub != nil {
			e.expire.Store(sub.Subject, mon.Seq())
			e.subs.Store(sub.Subject, sub)
		}
	})
	e.svc = res.NewService("svc")
	e.svc.SetLogger(&cntLogger{})
	if p.Workers > 0 {
		e.svc.SetWorkerCount(p.Workers)
	}
	e.svc.SetQueryEventDuration(time.Duration(p.Duration) * time.Millisecond)
	h := func(typ string) res.Option {
		return res.GetResource(func(r res.GetRequest) { r.NotFound() })
	}
	e.svc.Handle("qm.$id", res.Model, h("model"), res.Group("gm.${id}"))
	e.svc.Handle("qc.$id", res.Collection, h("collection"))
	e.svc.Handle("shared.$id", res.Collection, h("collection"), res.Group("sharedgroup"))
	// the resource named like the service (root pattern, default group = its name)
	e.svc.Handle("", res.Collection, h("collection"))
	served := make(chan struct{})
	e.svc.SetOnServe(func(*res.Service) { close(served) })
	go func() { e.serveR <- e.svc.Serve(nc) }()
	select {
	case <-served:
		nc.Flush() // make sure the server has processed the service's subscriptions (baseline counts)
	case err := <-e.serveR:
		return nil, fmt.Errorf("Serve returned: %v", err)
	case <-time.After(10 * time.Second):
		return nil, fmt.Errorf("service did not start")
	}
	return e, nil
}

func (e *c15Env) close() {
	e.svc.Shutdown()
	select {
	case <-e.serveR:
	case <-time.After(5 * time.Second):
	}
	e.ne.Shutdown()
}

// trigger starts a query event on rid with the given behaviour.
func (e *c15Env) trigger(ev *c15Event) error {
	e.events.Store(ev.rid, ev)
	group := ""
	// every other query event is sent from a resource that itself carries a query
	// (a request or With on "rid?query"): that query is not the query request's
	rid := ev.rid
	if ev.idx%2 == 1 {
		rid += "?origin=" + fmt.Sprint(ev.idx)
	}
	return e.svc.With(rid, func(r res.Resource) {
		group = r.Group()
		r.QueryEvent(func(qr res.QueryRequest) {
			id := fmt.Sprintf("%s#%d", ev.rid, ev.idx)
			e.occ.Enter(group, id, false)
			rec := c15CB{Seq: mon.Seq(), Nil: qr == nil}
			if qr != nil {
				rec.Query = qr.Query()
			}
			ev.mu.Lock()
			ev.cbs = append(ev.cbs, rec)
			ev.mu.Unlock()
			defer e.occ.Exit(group)
			if qr == nil {
				return
			}
			c15Behave(ev, qr)
		})
	})
}

var c15TrailN int64

// request publishes a query request on the gateway connection and flushes it.
func (e *c15Env) request(ev *c15Event, kind, when string) *c15Req {
	rq := &c15Req{inbox: nats.NewInbox(), kind: kind, when: when}
	switch kind {
	case "valid":
		rq.payload = `{"query":"a=1&b=2"}`
	case "missing":
		rq.payload = `{}`
	case "malformed":
		rq.payload = `{"query":`
	case "trailing": // a complete query object followed by bytes that make the payload invalid JSON
		rq.payload = []string{`{"query":"a=1"}}`, `{"query":"a=1"} x`, `{"query":"a=1"}{"query":"b"}`, `{"query":"a=1"}]`}[int(atomic.AddInt64(&c15TrailN, 1))%4]
	case "emptyquery":
		rq.payload = `{"query":""}`
	case "empty":
		rq.payload = ``
	}
	e.ne.GW.PublishRequest(ev.subject, rq.inbox, []byte(rq.payload))
	e.ne.GW.Flush()
	rq.flushSeq = mon.Seq()
	ev.mu.Lock()
	ev.reqs = append(ev.reqs, rq)
	ev.mu.Unlock()
	return rq
}

func c15Run(c *core.Ctx, b core.Batch) {
	var p c15Params
	json.Unmarshal(b.Params, &p)
	defer checkPredefinedErrors(c, "C15")
	switch p.Kind {
	case "failsub":
		c15ActiveAtShutdown(c) // first: it counts listener goroutines in a process that has had no other query events
		c15FailSub(c, p)
		c15Restart(c)
		c15NonPositiveDuration(c)
		c15FreshSubjects(c, p.Rounds)
		c15StalledLink(c, 1600*time.Millisecond)
		if p.Rounds > 100 {
			c15StalledLink(c, 700*time.Millisecond)
			c15StalledLink(c, 3*time.Second)
		}
		return
	}
	env, err := newC15Env(c, p)
	if err != nil {
		c.Inconclusive("environment: " + err.Error())
		return
	}
	defer env.close()
	switch p.Kind {
	case "nats":
		for round := 0; round < p.Rounds; round++ {
			if !c15Round(c, env, p, round, "") {
				return
			}
		}
	case "barrage":
		for round := 0; round < p.Rounds; round++ {
			if !c15Barrage(c, env, p, round) {
				return
			}
		}
	case "directed":
		for round := 0; round < p.Rounds; round++ {
			if !c15Round(c, env, c15Params{Kind: "nats", Events: 1, Duration: p.Duration, Workers: p.Workers}, round, p.Gate) {
				return
			}
		}
	case "long":
		c15Long(c, env, p)
	}
	for k, v := range sched.Counts() {
		c.Obs("hook:"+k, v)
	}
}

type c15Baseline struct{ goroutines, ncSubs, srvSubs int }

func (e *c15Env) baseline() c15Baseline {
	return c15Baseline{mon.CountGoroutines("go-res.(*queryEvent).startQueryListener"), e.nc.NumSubscriptions(), e.ne.NumSubscriptions()}
}

// c15Round runs one batch of concurrent query events and checks all oracles.
func c15Round(c *core.Ctx, env *c15Env, p c15Params, round int, gate string) bool {
	r := newRand(core.SubSeed(c.Batch.Seed, fmt.Sprintf("%s/%d", c.Batch.Name, round)))
	base := env.baseline()
	wireStart := env.ne.WireLen()
	expireBefore := sched.Count("query.nilqueued")
	var evs []*c15Event
	for i := 0; i < p.Events; i++ {
		typ, rid := "model", fmt.Sprintf("svc.qm.r%dn%d", round, i)
		switch r.Intn(3) {
		case 1:
			typ, rid = "collection", fmt.Sprintf("svc.qc.r%dn%d", round, i)
		case 2:
			typ, rid = "collection", fmt.Sprintf("svc.shared.r%dn%d", round, i)
		}
		evs = append(evs, &c15Event{idx: i, rid: rid, typ: typ, behaviour: c15Behaviours[r.Intn(len(c15Behaviours))]})
	}
	var g1, g2 *sched.Gate
	switch gate {
	case "late-request":
		// a request is received by the listener just before expiry and handed to the worker only after the nil call was queued
		g1 = sched.Arm("query.recv", nil)
	case "expiry-parked":
		g2 = sched.Arm("query.drained", nil)
	}
	for _, ev := range evs {
		if err := env.trigger(ev); err != nil {
			c.Violation("C15/with-error", "With failed: "+err.Error(), nil)
			return false
		}
	}
	// wait for the query events to appear on the wire
	ok := env.ne.WaitWire(func(w []natsenv.WireMsg) bool {
		n := 0
		for _, m := range w[wireStart:] {
			if strings.HasSuffix(m.Subject, ".query") && strings.HasPrefix(m.Subject, "event.svc.") {
				n++
			}
		}
		return n >= len(evs)
	}, 10*time.Second)
	if !ok {
		c.Inconclusive("query events did not appear on the wire")
		return false
	}
	subjects := map[string]bool{}
	for _, m := range env.ne.Wire()[wireStart:] {
		if strings.HasSuffix(m.Subject, ".query") && strings.HasPrefix(m.Subject, "event.svc.") {
			rid := strings.TrimSuffix(strings.TrimPrefix(m.Subject, "event."), ".query")
			var qe struct {
				Subject string `json:"subject"`
			}
			json.Unmarshal(m.Data, &qe)
			v, ok := env.events.Load(rid)
			if !ok {
				continue
			}
			ev := v.(*c15Event)
			ev.subject = qe.Subject
			if qe.Subject == "" || subjects[qe.Subject] || !vconn.ValidPublishSubject(qe.Subject) {
				c.Violation("C15/query-subject-not-fresh", fmt.Sprintf("query event on %s published subject %q (empty, invalid or reused)", rid, qe.Subject), nil)
			}
			subjects[qe.Subject] = true
		}
	}
	// requests: before, around and after expiry
	dur := time.Duration(p.Duration) * time.Millisecond
	t0 := time.Now()
	var wg sync.WaitGroup
	for _, ev := range evs {
		if ev.subject == "" {
			continue
		}
		wg.Add(1)
		go func(ev *c15Event) {
			defer wg.Done()
			rr := newRand(core.SubSeed(c.Batch.Seed, ev.rid))
			kinds := []string{"valid", "valid", "valid", "missing", "malformed", "empty", "trailing", "emptyquery"}
			n := rr.Intn(4)
			if gate != "" {
				n = 2
			}
			for k := 0; k < n; k++ {
				env.request(ev, kinds[rr.Intn(len(kinds))], "before")
			}
			if gate == "" && rr.Intn(2) == 0 {
				// around expiry
				time.Sleep(time.Until(t0.Add(dur - time.Duration(rr.Intn(2000))*time.Microsecond)))
				env.request(ev, "valid", "around")
			}
			if gate == "" && rr.Intn(3) == 0 {
				time.Sleep(time.Until(t0.Add(dur + 30*time.Millisecond)))
				env.request(ev, "valid", "after")
			}
		}(ev)
	}
	if g1 != nil {
		// park the first received request at the listener until the nil call of its event was queued
		if g1.WaitArrived(5 * time.Second) {
			deadline := time.Now().Add(5 * time.Second)
			for sched.Count("query.nilqueued") <= expireBefore && time.Now().Before(deadline) {
				time.Sleep(time.Millisecond)
			}
			c.Obs("gates_parked", 1)
		}
		g1.Release()
	}
	if g2 != nil {
		// expiry parked after Drain was requested: requests sent now may or may not be delivered
		if g2.WaitArrived(5 * time.Second) {
			for _, ev := range evs {
				if ev.subject != "" {
					env.request(ev, "valid", "after")
				}
			}
			time.Sleep(2 * time.Millisecond)
			c.Obs("gates_parked", 1)
		}
		g2.Release()
	}
	wg.Wait()
	// wait for all expiries (hook count), then for the subscriptions to be drained
	deadline := time.Now().Add(dur + 10*time.Second)
	for sched.Count("query.nilqueued") < expireBefore+int64(len(evs)) {
		if time.Now().After(deadline) {
			c.Inconclusive(fmt.Sprintf("only %d of %d query events expired", sched.Count("query.nilqueued")-expireBefore, len(evs)))
			return false
		}
		time.Sleep(time.Millisecond)
	}
	for _, ev := range evs {
		if v, ok := env.subs.Load(ev.subject); ok {
			sub := v.(*nats.Subscription)
			for i := 0; i < 3000 && sub.IsValid(); i++ {
				time.Sleep(time.Millisecond)
			}
		}
	}
	time.Sleep(40 * time.Millisecond) // grace for callbacks of late requests
	// sentinel on every group
	groups := map[string]string{}
	for _, ev := range evs {
		groups[ev.rid] = ev.rid
	}
	var sw sync.WaitGroup
	for rid := range groups {
		sw.Add(1)
		if err := env.svc.With(rid, func(res.Resource) { sw.Done() }); err != nil {
			sw.Done()
		}
	}
	sdone := make(chan struct{})
	go func() { sw.Wait(); close(sdone) }()
	if !waitCh(sdone, 10*time.Second) {
		c.Inconclusive("sentinel callbacks did not run")
		return false
	}
	env.ne.GW.Flush()
	time.Sleep(5 * time.Millisecond)
	wire := env.ne.Wire()[wireStart:]
	byInbox := map[string][]natsenv.WireMsg{}
	for _, m := range wire {
		if strings.HasPrefix(m.Subject, "_INBOX.") {
			byInbox[m.Subject] = append(byInbox[m.Subject], m)
		}
	}
	for _, ev := range evs {
		c.Eval(1)
		ev.mu.Lock()
		cbs := append([]c15CB(nil), ev.cbs...)
		reqs := append([]*c15Req(nil), ev.reqs...)
		ev.mu.Unlock()
		desc := map[string]interface{}{"rid": ev.rid, "behaviour": ev.behaviour, "duration_ms": p.Duration, "gate": gate}
		var cbDesc []string
		nilN, afterNil := 0, 0
		var nilSeq int64
		for _, cb := range cbs {
			if cb.Nil {
				nilN++
				if nilSeq == 0 {
					nilSeq = cb.Seq
				}
				cbDesc = append(cbDesc, fmt.Sprintf("%d:nil", cb.Seq))
			} else {
				cbDesc = append(cbDesc, fmt.Sprintf("%d:request", cb.Seq))
				if nilSeq != 0 && cb.Seq > nilSeq {
					afterNil++
				}
			}
		}
		desc["callbacks"] = cbDesc
		if nilN != 1 {
			c.Violation(fmt.Sprintf("C15/nil-callback-count:%d", nilN), fmt.Sprintf("query event on %s: callback was invoked with nil %d times, want exactly once", ev.rid, nilN), desc)
		}
		if afterNil > 0 {
			c.Violation("C15/callback-after-nil", fmt.Sprintf("query event on %s: callback was invoked for %d request(s) after it had been called with nil", ev.rid, afterNil), desc)
		}
		expSeq := int64(0)
		if v, ok := env.expire.Load(ev.subject); ok {
			expSeq = v.(int64)
		}
		if len(reqs) > 0 {
			c.Distinct(fmt.Sprintf("%s/%d/%d", c.Batch.Name, round, ev.idx))
		}
		for _, rq := range reqs {
			resp := 0
			var last natsenv.WireMsg
			var pres []string
			for _, m := range byInbox[rq.inbox] {
				if !isPreResponse(m.Data) {
					resp++
					last = m
				} else {
					pres = append(pres, string(m.Data))
				}
			}
			d := copyDesc(desc)
			// a pre-response carries what this request's callback announced, nothing else
			wantPre := ""
			if ev.behaviour == "timeout-then-model" {
				wantPre = fmt.Sprintf(`timeout:"%d"`, 3000+7*ev.idx)
			}
			for _, pr := range pres {
				c.Obs("query_pre_responses", 1)
				if pr != wantPre {
					d["pre_responses"], d["want_pre_response"] = pres, wantPre
					c.Violation("C15/pre-response-content", fmt.Sprintf("query request on %s (behaviour %s) got the pre-response %q, its callback announced %q", ev.rid, ev.behaviour, short(pr, 80), wantPre), d)
					break
				}
			}
			d["request"] = map[string]interface{}{"payload": rq.payload, "when": rq.when, "flush_seq": rq.flushSeq, "expire_seq": expSeq, "responses": resp}
			c.Obs("requests_"+rq.when, 1)
			before := expSeq != 0 && rq.flushSeq < expSeq
			switch {
			case before && resp != 1:
				c.Violation(fmt.Sprintf("C15/response-count:%d:%s", resp, rq.kind), fmt.Sprintf("query request (%s payload) flushed before expiry of the query event on %s got %d responses, want exactly one", rq.kind, ev.rid, resp), d)
			case !before && resp > 1:
				c.Violation("C15/response-count-after-expiry", fmt.Sprintf("query request sent after expiry got %d responses", resp), d)
			}
			if resp == 1 {
				c15CheckResponse(c, ev, rq, last.Data, d)
			}
		}
	}
	// nothing leaked
	var now c15Baseline
	for i := 0; i < 400; i++ {
		now = env.baseline()
		if now == base {
			break
		}
		time.Sleep(5 * time.Millisecond)
	}
	if now.goroutines > base.goroutines {
		c.Violation("C15/listener-goroutine-leak", fmt.Sprintf("%d listener goroutines of expired query events are still alive (baseline %d, %d query events in this round)", now.goroutines, base.goroutines, len(evs)), map[string]interface{}{"events": len(evs)})
	}
	if now.ncSubs > base.ncSubs || now.srvSubs > base.srvSubs {
		c.Violation("C15/subscription-leak", fmt.Sprintf("subscriptions not released after expiry: client %d (baseline %d), server %d (baseline %d)", now.ncSubs, base.ncSubs, now.srvSubs, base.srvSubs), nil)
	}
	if round == 0 {
		ev := evs[0]
		c.Sample(map[string]interface{}{"rid": ev.rid, "behaviour": ev.behaviour, "requests": len(ev.reqs), "callbacks": len(ev.cbs), "concurrent_events": len(evs), "duration_ms": p.Duration})
	}
	return true
}

// c15CheckResponse checks the content of the response of a query request.
func c15CheckResponse(c *core.Ctx, ev *c15Event, rq *c15Req, data []byte, desc map[string]interface{}) {
	var r struct {
		Result *struct {
			Events     *[]json.RawMessage `json:"events"`
			Model      json.RawMessage    `json:"model"`
			Collection json.RawMessage    `json:"collection"`
		} `json:"result"`
		Error *res.Error `json:"error"`
	}
	desc["response"] = string(data)
	if err := json.Unmarshal(data, &r); err != nil || (r.Result == nil) == (r.Error == nil) {
		c.Violation("C15/response-malformed", "query response is not a result or error object: "+short(string(data), 200), desc)
		return
	}
	bad := func(what string) {
		c.Violation("C15/response-content:"+rq.kind+":"+ev.behaviour, fmt.Sprintf("query request (%s payload, callback behaviour %s) answered %s: %s", rq.kind, ev.behaviour, short(string(data), 200), what), desc)
	}
	if rq.kind != "valid" {
		if r.Error == nil {
			bad("want an error for a request without query / with malformed payload")
		}
		return
	}
	code := ""
	if r.Error != nil {
		code = r.Error.Code
	}
	switch ev.behaviour {
	case "nothing":
		if r.Result == nil || r.Result.Events == nil || len(*r.Result.Events) != 0 {
			bad("want an empty events list")
		}
	case "model", "timeout-then-model":
		if r.Result == nil || (ev.typ == "model" && r.Result.Model == nil) || (ev.typ == "collection" && r.Result.Collection == nil) {
			bad("want the model/collection supplied by the callback")
		}
	case "collection", "panic-err", "panic-str", "panic-int", "panic-runtime", "panic-nil", "error-plain", "error-nil", "panic-reserr-nil", "events-then-panic-nil":
		if code != "system.internalError" {
			bad("want system.internalError")
		}
	case "alternate-events-then-reply":
		if code != "system.notFound" && (r.Result == nil || r.Result.Events == nil || len(*r.Result.Events) != 0) {
			bad("want system.notFound (the callback answered itself) or an empty events list (the callback added nothing): events added for an earlier request do not belong to this one")
		}
	case "error-nomsg":
		var raw struct {
			Error map[string]json.RawMessage `json:"error"`
		}
		json.Unmarshal(data, &raw)
		if m, ok := raw.Error["message"]; code != "custom.nomsg" || !ok || string(m) != `""` {
			bad("want the *res.Error verbatim, with a string message member")
		}
	case "notfound", "reply-twice", "panic-after-reply":
		if code != "system.notFound" {
			bad("want system.notFound")
		}
	case "invalidquery", "invalidquery-msg":
		if code != "system.invalidQuery" {
			bad("want system.invalidQuery")
		}
	case "error-res", "panic-reserr":
		if code != errRes.Code {
			bad("want the *res.Error verbatim")
		}
	case "events", "events-many":
		want := 1
		if ev.behaviour == "events-many" {
			want = 4
		}
		if ev.typ == "collection" {
			want *= 2
		}
		if r.Result == nil || r.Result.Events == nil || len(*r.Result.Events) != want {
			bad(fmt.Sprintf("want %d accumulated events", want))
		}
	}
}

// c15FailSub: a failed subscription calls back with nil once and publishes nothing.
func c15FailSub(c *core.Ctx, p c15Params) {
	rigInstall()
	for round := 0; round < p.Rounds; round++ {
		var calls []bool
		var mu sync.Mutex
		rg := newRig("svc", func(s *res.Service) {
			s.SetQueryEventDuration(5 * time.Millisecond)
			s.Handle("q.$id", res.GetCollection(func(r res.CollectionRequest) { r.NotFound() }))
		})
		failNth := 1 + round%3
		var nsub int32
		rg.C.FailSubscribe = func(subject string, nth int) error {
			if strings.HasPrefix(subject, "_INBOX.") {
				if int(atomic.AddInt32(&nsub, 1)) == failNth {
					return fmt.Errorf("injected subscribe failure")
				}
			}
			return nil
		}
		// a resource used while the service has no connection (not served yet,
		// or shut down): the subscription cannot be made
		noConn := func(when string) {
			rs, err := rg.S.Resource("svc.q.noconn")
			if err != nil {
				c.Inconclusive("Service.Resource: " + err.Error())
				return
			}
			var got []bool
			p0 := rg.C.Len()
			ret := make(chan struct{})
			go func() {
				defer close(ret)
				defer func() { recover() }()
				rs.QueryEvent(func(qr res.QueryRequest) {
					mu.Lock()
					got = append(got, qr == nil)
					mu.Unlock()
				})
			}()
			if !waitCh(ret, 5*time.Second) {
				c.Violation("C15/failed-subscription-hangs:"+when, "QueryEvent on a service without connection did not return", nil)
				return
			}
			time.Sleep(12 * time.Millisecond) // longer than the query event duration
			c.Eval(1)
			c.Obs("no_connection_query_events", 1)
			mu.Lock()
			g := append([]bool(nil), got...)
			mu.Unlock()
			if len(g) != 1 || !g[0] {
				c.Violation("C15/failed-subscription-callbacks:"+when, fmt.Sprintf("QueryEvent on a service without connection (%s): callback invoked %v (true = nil), want exactly one nil call", when, g), nil)
			}
			for _, m := range rg.C.Since(p0) {
				if m.Subject == "event.svc.q.noconn.query" {
					c.Violation("C15/failed-subscription-published:"+when, "a query event was published although no subscription could be made", nil)
				}
			}
		}
		if round%4 == 0 {
			noConn("before-serve")
		}
		if err := rg.start(); err != nil {
			c.Inconclusive("start: " + err.Error())
			return
		}
		pos := rg.C.Len()
		failedIdx := failNth - 1
		results := make([][]bool, failNth)
		for k := 0; k < failNth; k++ {
			k := k
			done := make(chan struct{})
			rg.S.With(fmt.Sprintf("svc.q.%d", k), func(r res.Resource) {
				r.QueryEvent(func(qr res.QueryRequest) {
					mu.Lock()
					results[k] = append(results[k], qr == nil)
					calls = append(calls, qr == nil)
					mu.Unlock()
				})
				close(done)
			})
			waitCh(done, 5*time.Second)
		}
		time.Sleep(25 * time.Millisecond)
		c.Eval(1)
		mu.Lock()
		got := append([]bool(nil), results[failedIdx]...)
		mu.Unlock()
		if len(got) != 1 || !got[0] {
			c.Violation("C15/failed-subscription-callbacks", fmt.Sprintf("failed query subscription: callback invoked %v (true = nil), want exactly one nil call", got), nil)
		}
		for _, m := range rg.C.Since(pos) {
			if m.Subject == fmt.Sprintf("event.svc.q.%d.query", failedIdx) {
				c.Violation("C15/failed-subscription-published", "a query event was published although the subscription failed", nil)
			}
		}
		c.Distinct(fmt.Sprintf("failsub/%d", round))
		rg.stop()
		if round%4 == 1 {
			noConn("after-shutdown")
		}
	}
	// nothing is left behind by query events whose subscription could not be made (nor by the
	// others: every one of them has expired and every service is stopped)
	left := 0
	for i := 0; i < 400; i++ {
		if left = mon.CountGoroutines("(*queryEvent).startQueryListener"); left == 0 {
			break
		}
		time.Sleep(5 * time.Millisecond)
	}
	c.Eval(1)
	if left > 0 {
		c.Violation("C15/listener-goroutine-leak:failed-subscription", fmt.Sprintf("%d query event listener goroutines are still alive 2 s after %d rounds of query events with a failed (or impossible) subscription; every query event has expired and every service is stopped", left, p.Rounds), map[string]interface{}{"rounds": p.Rounds})
	}
	c.Sample(map[string]interface{}{"scenario": "subscribe failure injected on the n-th query subscription", "rounds": p.Rounds})
}

// c15Restart: the duration configured while the service is stopped is the one
// that counts after a restart. Two directions with a factor of >= 40 between the
// durations, so that the verdict does not depend on scheduling: after
// (short, long) the nil call must not come in the first third of the long
// duration and a request in that window is answered; after (long, short) the
// nil call must come long before the old duration would have ended.
func c15Restart(c *core.Ctx) {
	rigInstall()
	for _, sc := range []struct {
		name   string
		d1, d2 time.Duration
	}{{"short-then-long", 15 * time.Millisecond, 900 * time.Millisecond}, {"long-then-short", 4 * time.Second, 25 * time.Millisecond}} {
		var mu sync.Mutex
		var nilAt []time.Duration
		var t0 time.Time
		answered := 0
		rg := newRig("svc", func(s *res.Service) {
			s.SetQueryEventDuration(sc.d1)
			s.Handle("q.$id", res.GetCollection(func(r res.CollectionRequest) { r.NotFound() }))
		})
		if err := rg.start(); err != nil {
			c.Inconclusive("start: " + err.Error())
			return
		}
		// one query event in the first run, so that the first run's timer queue has been used
		first := make(chan struct{})
		rg.S.With("svc.q.first", func(r res.Resource) {
			r.QueryEvent(func(qr res.QueryRequest) {
				if qr == nil {
					select {
					case <-first:
					default:
						close(first)
					}
				}
			})
		})
		if sc.d1 < time.Second {
			waitCh(first, 5*time.Second)
		}
		if err := rg.stop(); err != nil {
			c.Inconclusive("stop: " + err.Error())
			return
		}
		rg.S.SetQueryEventDuration(sc.d2)
		if err := rg.restart(); err != nil {
			c.Inconclusive("restart: " + err.Error())
			return
		}
		pos := rg.C.Len()
		started := make(chan struct{})
		rg.S.With("svc.q.second", func(r res.Resource) {
			t0 = time.Now()
			r.QueryEvent(func(qr res.QueryRequest) {
				mu.Lock()
				if qr == nil {
					nilAt = append(nilAt, time.Since(t0))
				} else {
					answered++
					qr.NotFound()
				}
				mu.Unlock()
			})
			close(started)
		})
		if !waitCh(started, 5*time.Second) {
			c.Inconclusive("With callback did not run after the restart")
			return
		}
		c.Eval(1)
		c.Obs("restart_duration_cases", 1)
		desc := map[string]interface{}{"first_duration": sc.d1.String(), "duration_set_while_stopped": sc.d2.String()}
		// the query subject of the second event
		var qsubj string
		for _, m := range rg.C.Since(pos) {
			if m.Subject == "event.svc.q.second.query" {
				var ev struct {
					Subject string `json:"subject"`
				}
				json.Unmarshal(m.Data, &ev)
				qsubj = ev.Subject
			}
		}
		if qsubj == "" {
			c.Violation("C15/no-query-event:restart", "no query event was published after the restart", desc)
			rg.stop()
			continue
		}
		if sc.d2 > sc.d1 {
			// a request a few first-durations into the second event's life must be answered
			time.Sleep(6 * sc.d1)
			lat := time.Since(t0)
			p0 := rg.C.Len()
			inbox := newInbox()
			done := make(chan struct{})
			qdoneMap.Store(inbox, done)
			n := rg.C.Deliver(qsubj, inbox, []byte(`{"query":"a=1"}`))
			if n > 0 {
				waitCh(done, 2*time.Second)
			}
			resp, _ := replies(rg.C.Since(p0), inbox)
			mu.Lock()
			early := len(nilAt) > 0
			mu.Unlock()
			desc["request_sent_after"] = lat.String()
			if lat < sc.d2/3 {
				if early {
					c.Violation("C15/expired-early:restart", fmt.Sprintf("query event duration set to %v while stopped, but the callback got nil after %v (the first run's duration was %v)", sc.d2, nilAt[0], sc.d1), desc)
				} else if n == 0 || len(resp) != 1 {
					c.Violation("C15/active-request-unanswered:restart", fmt.Sprintf("query request %v into an event of duration %v got %d responses (delivered to %d subscriptions)", lat, sc.d2, len(resp), n), desc)
				}
			} else {
				c.Inconclusive("restart scenario: request came too late to decide")
			}
			c.Distinct("restart/" + sc.name)
		} else {
			// probe the scheduler, then wait 40 short durations (a quarter of the old duration)
			tp := time.Now()
			time.Sleep(sc.d2)
			over := time.Since(tp) - sc.d2
			time.Sleep(39 * sc.d2)
			mu.Lock()
			got := append([]time.Duration(nil), nilAt...)
			mu.Unlock()
			switch {
			case len(got) == 1:
				c.Distinct("restart/" + sc.name)
			case over > 200*time.Millisecond:
				c.Inconclusive("restart scenario: scheduler latency too high to decide")
			default:
				c.Violation("C15/expired-late:restart", fmt.Sprintf("query event duration set to %v while stopped, but %v later the callback got nil %d times (the first run's duration was %v)", sc.d2, 40*sc.d2, len(got), sc.d1), desc)
			}
		}
		rg.stop()
	}
}

// c15NonPositiveDuration: a configured duration of zero (or less) means the query
// event ends at once - not after some default. The final nil must arrive long before
// the library's default duration (3 s) would have passed.
func c15NonPositiveDuration(c *core.Ctx) {
	rigInstall()
	for _, d := range []time.Duration{0, -time.Second} {
		rg := newRig("svc", func(s *res.Service) {
			s.SetQueryEventDuration(d)
			s.Handle("q.$id", res.GetCollection(func(r res.CollectionRequest) { r.NotFound() }))
		})
		if err := rg.start(); err != nil {
			c.Inconclusive("start: " + err.Error())
			return
		}
		gotNil := make(chan struct{}, 4)
		t0 := time.Now()
		rg.S.With("svc.q.1", func(r res.Resource) {
			t0 = time.Now()
			r.QueryEvent(func(qr res.QueryRequest) {
				if qr == nil {
					gotNil <- struct{}{}
				}
			})
		})
		c.Eval(1)
		c.Obs("non_positive_duration_cases", 1)
		select {
		case <-gotNil:
			c.Max("non_positive_duration_nil_after_us", int64(time.Since(t0)/time.Microsecond))
			c.Distinct(fmt.Sprintf("non-positive-duration/%v", d))
		case <-time.After(1200 * time.Millisecond):
			c.Violation("C15/expired-late:non-positive-duration", fmt.Sprintf("query event duration configured as %v: no final nil call within 1.2 s", d), map[string]interface{}{"configured_duration": d.String()})
		}
		rg.stop()
	}
}

// c15ActiveAtShutdown: query events that are still active when the service is shut
// down must still be released once their duration has passed (listener goroutine gone),
// whether or not the service is served again.
func c15ActiveAtShutdown(c *core.Ctx) {
	rigInstall()
	for round := 0; round < 4; round++ {
		// let listeners of earlier scenarios end
		base := -1
		for i := 0; i < 200; i++ {
			if base = mon.CountGoroutines("go-res.(*queryEvent).startQueryListener"); base == 0 {
				break
			}
			time.Sleep(5 * time.Millisecond)
		}
		if base != 0 {
			c.Inconclusive("active-at-shutdown: listeners of earlier query events still present")
			return
		}
		rg := newRig("svc", func(s *res.Service) {
			s.SetQueryEventDuration(60 * time.Millisecond)
			s.Handle("q.$id", res.GetCollection(func(r res.CollectionRequest) { r.NotFound() }))
		})
		if err := rg.start(); err != nil {
			c.Inconclusive("start: " + err.Error())
			return
		}
		const n = 5
		var nils int32
		for k := 0; k < n; k++ {
			done := make(chan struct{})
			rg.S.With(fmt.Sprintf("svc.q.%d", k), func(r res.Resource) {
				r.QueryEvent(func(qr res.QueryRequest) {
					if qr == nil {
						atomic.AddInt32(&nils, 1)
					}
				})
				close(done)
			})
			waitCh(done, 5*time.Second)
		}
		active := mon.CountGoroutines("go-res.(*queryEvent).startQueryListener")
		if err := rg.stop(); err != nil {
			c.Inconclusive("stop: " + err.Error())
			return
		}
		restarted := round%2 == 1
		if restarted {
			if err := rg.restart(); err != nil {
				c.Inconclusive("restart: " + err.Error())
				return
			}
		}
		// 10 durations later every listener must be gone
		left := -1
		for i := 0; i < 120; i++ {
			if left = mon.CountGoroutines("go-res.(*queryEvent).startQueryListener"); left == 0 {
				break
			}
			time.Sleep(5 * time.Millisecond)
		}
		c.Eval(1)
		c.Obs("active_at_shutdown_rounds", 1)
		c.Max("listeners_active_at_shutdown", int64(active))
		desc := map[string]interface{}{"query_events_active_at_shutdown": active, "served_again": restarted, "nil_callbacks": atomic.LoadInt32(&nils)}
		if left != 0 {
			c.Violation("C15/leak:listener-after-shutdown", fmt.Sprintf("%d query event listener goroutines are still alive 10 durations after the service was shut down with %d active query events (served again: %v)", left, active, restarted), desc)
		}
		if restarted {
			time.Sleep(10 * time.Millisecond)
			if got := atomic.LoadInt32(&nils); got != n && left == 0 {
				c.Violation("C15/nil-count:after-restart", fmt.Sprintf("service shut down with %d active query events and served again within their duration: %d callbacks got the final nil, want %d", n, got, n), desc)
			}
			rg.stop()
		}
		c.Distinct(fmt.Sprintf("active-at-shutdown/%d", round))
	}
}

// c15Long: long history of expired query events - nothing accumulates.
func c15Long(c *core.Ctx, env *c15Env, p c15Params) {
	base := env.baseline()
	var nilCalls int64
	for i := 0; i < p.Events; i++ {
		rid := fmt.Sprintf("svc.qc.long%d", i%7)
		env.svc.With(rid, func(r res.Resource) {
			r.QueryEvent(func(qr res.QueryRequest) {
				if qr == nil {
					atomic.AddInt64(&nilCalls, 1)
				}
			})
		})
		if i%50 == 49 {
			time.Sleep(time.Duration(p.Duration+3) * time.Millisecond)
		}
		c.Eval(1)
	}
	deadline := time.Now().Add(20 * time.Second)
	for atomic.LoadInt64(&nilCalls) < int64(p.Events) && time.Now().Before(deadline) {
		time.Sleep(5 * time.Millisecond)
	}
	if n := atomic.LoadInt64(&nilCalls); n != int64(p.Events) {
		c.Violation("C15/nil-callback-count:long", fmt.Sprintf("%d query events expired but the callback was called with nil %d times", p.Events, n), nil)
	}
	var now c15Baseline
	for i := 0; i < 600; i++ {
		now = env.baseline()
		if now == base {
			break
		}
		time.Sleep(5 * time.Millisecond)
	}
	c.Distinct("long")
	c.Distinct("long2")
	if now.goroutines > base.goroutines {
		c.Violation("C15/listener-goroutine-leak", fmt.Sprintf("after %d expired query events %d listener goroutines are still alive (baseline %d)", p.Events, now.goroutines, base.goroutines), map[string]interface{}{"events": p.Events})
	}
	if now.ncSubs > base.ncSubs || now.srvSubs > base.srvSubs {
		c.Violation("C15/subscription-leak", fmt.Sprintf("after %d expired query events: client subscriptions %d (baseline %d), server %d (baseline %d)", p.Events, now.ncSubs, base.ncSubs, now.srvSubs, base.srvSubs), nil)
	}
	c.Sample(map[string]interface{}{"scenario": "long history", "expired_events": p.Events, "listener_goroutines_after": now.goroutines, "client_subscriptions_after": now.ncSubs})
}

// c15Barrage: requesters send query requests back to back (one outstanding
// each) from the start of a short query event until well after its expiry, so
// that requests are in flight on the connection at the very moment the service
// ends the subscription. Every request flushed to the server before the
// query.expire hook fired must be answered exactly once.
func c15Barrage(c *core.Ctx, env *c15Env, p c15Params, round int) bool {
	wireStart := env.ne.WireLen()
	expireBefore := sched.Count("query.nilqueued")
	var evs []*c15Event
	for i := 0; i < p.Events; i++ {
		rid := fmt.Sprintf("svc.qc.b%dn%d", round, i)
		if round%2 == 1 || p.Shared {
			// the query events of the round belong to resources of one group: their callbacks,
			// passed on by one listener goroutine per event, still run one at a time
			rid = fmt.Sprintf("svc.shared.b%dn%d", round, i)
		}
		if i == 0 && round%4 == 2 && !p.Shared {
			rid = "svc" // the service's root resource
		}
		behaviour := "events"
		if !(round%2 == 1 || p.Shared) {
			// different groups: the callbacks of the events run side by side, each announcing a
			// duration of its own before it replies
			behaviour = "timeout-then-model"
		}
		evs = append(evs, &c15Event{idx: i, rid: rid, typ: "collection", behaviour: behaviour})
	}
	for _, ev := range evs {
		if err := env.trigger(ev); err != nil {
			c.Violation("C15/with-error", "With failed: "+err.Error(), nil)
			return false
		}
	}
	ok := env.ne.WaitWire(func(w []natsenv.WireMsg) bool {
		n := 0
		for _, m := range w[wireStart:] {
			if strings.HasSuffix(m.Subject, ".query") && strings.HasPrefix(m.Subject, "event.svc.") {
				n++
			}
		}
		return n >= len(evs)
	}, 10*time.Second)
	if !ok {
		c.Inconclusive("query events did not appear on the wire")
		return false
	}
	for _, m := range env.ne.Wire()[wireStart:] {
		if strings.HasSuffix(m.Subject, ".query") && strings.HasPrefix(m.Subject, "event.svc.") {
			rid := strings.TrimSuffix(strings.TrimPrefix(m.Subject, "event."), ".query")
			var qe struct {
				Subject string `json:"subject"`
			}
			json.Unmarshal(m.Data, &qe)
			if v, ok := env.events.Load(rid); ok {
				v.(*c15Event).subject = qe.Subject
			}
		}
	}
	type sent struct {
		ev       *c15Event
		inbox    string
		flushSeq int64
		got      int
	}
	var mu sync.Mutex
	var all []*sent
	var wg sync.WaitGroup
	stopAt := time.Now().Add(time.Duration(p.Duration)*time.Millisecond + 25*time.Millisecond)
	for _, ev := range evs {
		if ev.subject == "" {
			continue
		}
		for q := 0; q < 3; q++ {
			wg.Add(1)
			go func(ev *c15Event) {
				defer wg.Done()
				nc, err := env.ne.Connect("requester")
				if err != nil {
					return
				}
				defer nc.Close()
				for time.Now().Before(stopAt) {
					inbox := nats.NewInbox()
					sub, err := nc.SubscribeSync(inbox)
					if err != nil {
						return
					}
					nc.PublishRequest(ev.subject, inbox, []byte(`{"query":"a=1"}`))
					nc.Flush()
					st := &sent{ev: ev, inbox: inbox, flushSeq: mon.Seq()}
					// one outstanding request per requester
					if _, err := sub.NextMsg(40 * time.Millisecond); err == nil {
						st.got++
						if _, err := sub.NextMsg(2 * time.Millisecond); err == nil {
							st.got++
						}
					}
					sub.Unsubscribe()
					mu.Lock()
					all = append(all, st)
					mu.Unlock()
				}
			}(ev)
		}
	}
	wg.Wait()
	deadline := time.Now().Add(10 * time.Second)
	for sched.Count("query.nilqueued") < expireBefore+int64(len(evs)) {
		if time.Now().After(deadline) {
			c.Inconclusive("query events did not expire")
			return false
		}
		time.Sleep(time.Millisecond)
	}
	// Decide on the wire log after quiescence, not on the requesters' pacing timeouts:
	// the subscriptions are drained, a sentinel has run in every group, the gateway is flushed.
	for _, ev := range evs {
		if v, ok := env.subs.Load(ev.subject); ok {
			sub := v.(*nats.Subscription)
			for i := 0; i < 3000 && sub.IsValid(); i++ {
				time.Sleep(time.Millisecond)
			}
		}
	}
	time.Sleep(20 * time.Millisecond)
	var sw sync.WaitGroup
	for _, ev := range evs {
		sw.Add(1)
		if err := env.svc.With(ev.rid, func(res.Resource) { sw.Done() }); err != nil {
			sw.Done()
		}
	}
	sdone := make(chan struct{})
	go func() { sw.Wait(); close(sdone) }()
	if !waitCh(sdone, 10*time.Second) {
		c.Inconclusive("sentinel callbacks did not run")
		return false
	}
	env.nc.Flush()
	env.ne.GW.Flush()
	time.Sleep(5 * time.Millisecond)
	onWire := map[string]int{}
	preOn := map[string][]string{}
	for _, m := range env.ne.Wire()[wireStart:] {
		if strings.HasPrefix(m.Subject, "_INBOX.") && !isPreResponse(m.Data) {
			onWire[m.Subject]++
		} else if strings.HasPrefix(m.Subject, "_INBOX.") {
			preOn[m.Subject] = append(preOn[m.Subject], string(m.Data))
		}
	}
	for _, st := range all {
		st.got = onWire[st.inbox]
		wantPre := ""
		if st.ev.behaviour == "timeout-then-model" {
			wantPre = fmt.Sprintf(`timeout:"%d"`, 3000+7*st.ev.idx)
		}
		for _, pr := range preOn[st.inbox] {
			c.Obs("query_pre_responses", 1)
			if pr != wantPre {
				c.Violation("C15/pre-response-content", fmt.Sprintf("query request on %s got the pre-response %q, its callback announced %q (the callbacks of %d query events run side by side)", st.ev.rid, short(pr, 80), wantPre, len(evs)),
					map[string]interface{}{"rid": st.ev.rid, "pre_responses": preOn[st.inbox], "want": wantPre})
				return true
			}
		}
	}
	for _, st := range all {
		c.Eval(1)
		expSeq := int64(0)
		if v, ok := env.expire.Load(st.ev.subject); ok {
			expSeq = v.(int64)
		}
		before := expSeq != 0 && st.flushSeq < expSeq
		if before {
			c.Obs("requests_before", 1)
		} else {
			c.Obs("requests_after", 1)
		}
		if before && st.got != 1 {
			c.Violation(fmt.Sprintf("C15/response-count:%d:barrage", st.got), fmt.Sprintf("a query request flushed to the server before the query event on %s expired (seq %d < %d) got %d responses while requests were being sent back to back around the expiry", st.ev.rid, st.flushSeq, expSeq, st.got),
				map[string]interface{}{"rid": st.ev.rid, "flush_seq": st.flushSeq, "expire_seq": expSeq, "duration_ms": p.Duration})
			return true
		}
		if !before && st.got > 1 {
			c.Violation("C15/response-count-after-expiry", fmt.Sprintf("query request after expiry got %d responses", st.got), nil)
		}
	}
	c.Distinct(fmt.Sprintf("%s/%d", c.Batch.Name, round))
	return true
}
