package props

import (
	"fmt"
	"runtime"
	"strings"
	"sync"
	"sync/atomic"
	"time"

	res "github.com/jirenius/go-res"
	"github.com/nats-io/nats.go"

	"verif/harness/internal/core"
	"verif/harness/internal/natsenv"
	"verif/harness/internal/sched"
)

// fromClosedConnCallback reports whether the calling goroutine is inside the library's
// closed-connection handler (used as gate predicate at hook shutdown.enter).
func fromClosedConnCallback(interface{}) bool {
	buf := make([]byte, 4096)
	return strings.Contains(string(buf[:runtime.Stack(buf, false)]), "(*Service).handleClosed")
}

// concStaleClosedHandlers: a Service is restarted K times with ListenAndServe on an
// embedded NATS server. NATS runs the closed handler of each run's connection on a
// goroutine of its own; every one of those calls is held at its entry (hook
// shutdown.enter) and all of them are let go while producers submit With callbacks to
// the run that is now being served. Those calls belong to runs that are over: the
// service stays started, Shutdown is never called, so every callback whose With
// returned nil runs exactly once, in submission order per producer.
func concStaleClosedHandlers(c *core.Ctx, cfg concCfg, prop string) {
	rigInstall()
	ne, err := natsenv.Start()
	if err != nil {
		c.Inconclusive("nats: " + err.Error())
		return
	}
	defer ne.Shutdown()
	const producers = 8
	K := 12
	svc := res.NewService("svc")
	svc.SetLogger(&cntLogger{})
	svc.SetWorkerCount(cfg.Workers)
	svc.Handle("m.$id", res.Access(res.AccessGranted), res.GetModel(func(r res.ModelRequest) { r.Model(map[string]string{"id": r.PathParam("id")}) }))
	start := func() (chan error, bool) {
		served := make(chan struct{})
		var once sync.Once
		svc.SetOnServe(func(*res.Service) { once.Do(func() { close(served) }) })
		ret := make(chan error, 1)
		go func() { ret <- svc.ListenAndServe(ne.URL, nats.ReconnectWait(20*time.Millisecond)) }()
		select {
		case <-served:
			return ret, true
		case <-ret:
		case <-time.After(20 * time.Second):
		}
		return ret, false
	}
	for round := 0; round < cfg.Ops; round++ {
		var gates []*sched.Gate
		releaseAll := func() {
			for _, g := range gates {
				g.Release()
			}
			gates = nil
		}
		var ret chan error
		ok := true
		for i := 0; i <= K && ok; i++ {
			ret, ok = start()
			if !ok || i == K {
				break
			}
			g := sched.Arm("shutdown.enter", fromClosedConnCallback)
			svc.Shutdown()
			select {
			case <-ret:
			case <-time.After(20 * time.Second):
				ok = false
			}
			if g.WaitArrived(200 * time.Millisecond) {
				gates = append(gates, g)
			} else {
				g.Release()
			}
		}
		if !ok {
			releaseAll()
			c.Inconclusive("stale-closed-handlers: a start/stop cycle on the embedded server did not complete")
			return
		}
		held := len(gates)
		c.Obs("stale_closed_handler_calls_held", int64(held))
		// producers on the run that is being served now
		var submitted [producers]int64
		var mu sync.Mutex
		ran := make([][]int64, producers)
		stop := make(chan struct{})
		var wg sync.WaitGroup
		for p := 0; p < producers; p++ {
			wg.Add(1)
			go func(p int) {
				defer wg.Done()
				rid := fmt.Sprintf("svc.m.p%d", p)
				for n := int64(0); ; n++ {
					select {
					case <-stop:
						return
					default:
					}
					n := n
					if err := svc.With(rid, func(res.Resource) {
						mu.Lock()
						ran[p] = append(ran[p], n)
						mu.Unlock()
					}); err == nil {
						atomic.AddInt64(&submitted[p], 1)
					} else {
						return
					}
				}
			}(p)
		}
		time.Sleep(time.Millisecond)
		for _, g := range gates {
			g.Release()
			time.Sleep(50 * time.Microsecond)
		}
		gates = nil
		time.Sleep(3 * time.Millisecond)
		close(stop)
		wg.Wait()
		st, _, _, _ := svc.VerifState()
		what := map[string]interface{}{"scenario": "stale-closed-handlers", "round": round, "restarts": K, "closed_handler_calls_released": held, "workers": cfg.Workers}
		if st != 2 {
			c.Violation(prop+"/stale-closed-handler-stops-run", fmt.Sprintf("closed handlers of earlier runs' connections, released while the service was being served again, stopped the run (state=%d)", st), what)
			return
		}
		// a last callback per producer resource: when it has run, everything before it has
		var bwg sync.WaitGroup
		barrier := make(chan struct{})
		for p := 0; p < producers; p++ {
			bwg.Add(1)
			if err := svc.With(fmt.Sprintf("svc.m.p%d", p), func(res.Resource) { bwg.Done() }); err != nil {
				bwg.Done()
			}
		}
		go func() { bwg.Wait(); close(barrier) }()
		drained := waitCh(barrier, 10*time.Second)
		total := int64(0)
		for p := 0; p < producers; p++ {
			sub := atomic.LoadInt64(&submitted[p])
			total += sub
			mu.Lock()
			got := append([]int64(nil), ran[p]...)
			mu.Unlock()
			bad := ""
			for i, v := range got {
				if v != int64(i) {
					prev := int64(-1)
					if i > 0 {
						prev = got[i-1]
					}
					bad = fmt.Sprintf("callback %d ran right after callback %d", v, prev)
					break
				}
			}
			if bad == "" && int64(len(got)) != sub {
				bad = fmt.Sprintf("the last %d never ran", sub-int64(len(got)))
			}
			if bad != "" {
				if !drained && int64(len(got)) < sub {
					c.Inconclusive("stale-closed-handlers: the queue was not drained within 10 s")
					return
				}
				what["producer"], what["submitted"], what["ran"] = p, sub, len(got)
				c.Violation(prop+"/lost:stale-closed-handlers", fmt.Sprintf("%d callbacks were accepted by With on %s while the service was started and Shutdown was not called, %d ran: %s (%d closed-handler calls of earlier runs were let go meanwhile)", sub, fmt.Sprintf("svc.m.p%d", p), len(got), bad, held), what)
				return
			}
		}
		c.Eval(total)
		c.Obs("stale_closed_handler_submissions", total)
		c.Distinct(fmt.Sprintf("stale-closed/w%d/%d", cfg.Workers, round))
		svc.Shutdown()
		select {
		case <-ret:
		case <-time.After(20 * time.Second):
			c.Inconclusive("stale-closed-handlers: final Shutdown did not complete")
			return
		}
		// let the closed handler of the last connection pass before the next round arms gates
		time.Sleep(20 * time.Millisecond)
	}
}
