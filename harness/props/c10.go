package props

import (
	"bytes"
	"encoding/json"
	"errors"
	"fmt"
	"math/rand"
	"reflect"
	"runtime"
	"strings"
	"sync"
	"time"

	res "github.com/jirenius/go-res"
	"github.com/jirenius/go-res/store"
	"github.com/jirenius/go-res/store/badgerstore"
	"github.com/jirenius/go-res/store/mockstore"

	"verif/harness/internal/core"
	"verif/harness/internal/sched"
	"verif/harness/internal/vconn"
)

// C10 - Clients of store-backed resources stay coherent with a fresh get.

type c10Cfg struct {
	Type    string `json:"type"`    // model | collection
	Trans   string `json:"trans"`   // none | id | id-proj | custom | custom-err | custom-emptyrid
	Default bool   `json:"default"` // Default value set
	Store   string `json:"store"`   // mock | badger | mock-wraperr
	// Nest: the handler sits on a Mux mounted two levels deep (mounts made top-down),
	// so the resource id is svc.lib.r.<id>
	Nest bool `json:"nest,omitempty"`
}

type c10Params struct {
	Kind   string `json:"kind"` // pairs | random | history
	Cfg    c10Cfg `json:"cfg"`
	Shard  int    `json:"shard"`
	Shards int    `json:"shards"`
	N      int    `json:"n"`
}

func init() {
	core.Register(&core.Prop{
		ID:    "C10",
		Level: "exploration",
		Rule: "a case is one store mutation (before value -> after value, either may be absent) on a resource served by store.Handler on a real Service: a reference RES client fetched the resource before, applies every event published for the resource id in order (index range checked), and must then equal a fresh get (canonical JSON); creation/deletion of a resource reported missing must be announced as create/delete on the transformer's rid; a mutation that does not alter the served representation must publish nothing. " +
			"inputs: all ordered pairs of collections of length <=4 over {a,b,c} (14641, exhaustive in quick for 2 configurations) and of length <=3 over mixed value kinds, random models/collections of primitives, references, soft references, data values, random create/update/delete histories; configurations: model/collection x no transformer/IDTransformer/projection/custom TransformFuncs (value-dependent rid, errors, empty rid) x default on/off x mockstore/badgerstore. distinct non-trivial = distinct (configuration, before, after) with before != after",
		Assumptions: []string{
			"stored values are valid RES values (nested objects/arrays wrapped as data values)",
			"with a value-dependent rid the field deciding the rid is kept constant over a mutation",
			"the reference client (apply change/add/remove with index range checks) is the trusted base",
		},
		Parallel: 8,
		Batches: func(seed int64, tier core.Tier) []core.Batch {
			var bs []core.Batch
			pairCfgs := []c10Cfg{{Type: "collection", Trans: "none", Store: "mock"}, {Type: "collection", Trans: "id", Store: "mock"}}
			if tier == core.Thorough {
				pairCfgs = append(pairCfgs, c10Cfg{Type: "collection", Trans: "id", Default: true, Store: "mock"}, c10Cfg{Type: "collection", Trans: "custom", Store: "mock"}, c10Cfg{Type: "collection", Trans: "none", Store: "badger"})
			}
			for i, cf := range pairCfgs {
				sh := 4
				for s := 0; s < sh; s++ {
					bs = append(bs, core.Batch{Name: fmt.Sprintf("pairs-%d-%d", i, s), TimeoutS: 900, Params: core.Params(c10Params{Kind: "pairs", Cfg: cf, Shard: s, Shards: sh})})
				}
			}
			i, combo := 0, 0
			for _, typ := range []string{"model", "collection"} {
				for _, tr := range []string{"none", "id", "id-proj", "custom", "custom-err", "custom-emptyrid"} {
					for _, def := range []bool{false, true} {
						combo++
						for si, st := range []string{"mock", "badger", "mock-wraperr"} {
							if st != "mock" && (combo+si)%3 != 0 && tier == core.Quick {
								i++
								continue
							}
							cf := c10Cfg{Type: typ, Trans: tr, Default: def, Store: st, Nest: i%4 == 1}
							bs = append(bs, core.Batch{Name: fmt.Sprintf("random-%d", i), TimeoutS: 600, Params: core.Params(c10Params{Kind: "random", Cfg: cf, N: tierPick(tier, 400, 6000)})})
							bs = append(bs, core.Batch{Name: fmt.Sprintf("history-%d", i), TimeoutS: 600, Params: core.Params(c10Params{Kind: "history", Cfg: cf, N: tierPick(tier, 20, 250)})})
							i++
						}
					}
				}
			}
			return bs
		},
		MinEvaluations: func(t core.Tier) int64 { return 10000 },
		Run:            c10Run,
	})
}

// c10Env is a service with one store-backed resource pattern.
type c10Env struct {
	c     *core.Ctx
	cfg   c10Cfg
	rig   *rig
	st    store.Store
	close func()
	def   interface{}

	lastAnnounced bool   // set by applyEvents: a create event arrived while the client did not hold the resource
	genID         string // what the mockstore's NewID callback returns next
	genOK         bool   // the store has a NewID callback
	nmut          int    // mutation transactions so far: every third reads the value first, every third also edits what it read in place
	// fault injection "a commit that fails" (badgerstore only)
	canConflict      bool
	conflictFor      string
	conflictVal      interface{}
	conflictInjected bool
	initDone         bool // the one Init of this environment's store has been made
}

// c10Project is the value transformation of the transformers: it hides the
// fields "hidden" and "cat" of a model. Like a real transformer it only knows
// the store's own value types and fails on anything else.
func c10Project(v interface{}) (interface{}, error) {
	switch t := v.(type) {
	case map[string]interface{}:
		out := map[string]interface{}{}
		for k, x := range t {
			if k != "hidden" && k != "cat" {
				out[k] = x
			}
		}
		return out, nil
	case []interface{}:
		return v, nil
	}
	return nil, fmt.Errorf("transform: unexpected value type %T", v)
}

func newC10Env(c *core.Ctx, cfg c10Cfg) (*c10Env, error) {
	e := &c10Env{c: c, cfg: cfg, close: func() {}}
	switch cfg.Store {
	case "badger":
		db, err := sharedBadger()
		if err != nil {
			return nil, err
		}
		pfx := fmt.Sprintf("c10-%d", time.Now().UnixNano())
		bs := badgerstore.NewStore(db).SetPrefix(pfx)
		// st2: a second Store object over the same keys, used to make a commit of bs fail (it
		// rewrites the id, with the value given, from a BeforeChange listener of bs)
		st2 := badgerstore.NewStore(db).SetPrefix(pfx)
		if cfg.Type == "collection" {
			bs.SetType([]interface{}(nil))
			st2.SetType([]interface{}(nil))
		}
		bs.BeforeChange(func(id string, before, after interface{}) error {
			if e.conflictFor == id {
				e.conflictFor = ""
				wt2 := st2.Write(id)
				e.conflictInjected = wt2.Update(e.conflictVal) == nil
				wt2.Close()
			}
			return nil
		})
		e.canConflict = true
		e.st = bs
	case "mock-wraperr":
		// a store that reports not-found and duplicate wrapped in its own errors
		e.st = wrapErrStore{mockstore.NewStore()}
	default:
		ms := mockstore.NewStore()
		// the store makes up the id of a value created through Write("")
		ms.NewID = func() string { return e.genID }
		e.st, e.genOK = ms, true
	}
	var tr store.Transformer
	switch cfg.Trans {
	case "id":
		tr = store.IDTransformer("id", nil)
	case "id-proj":
		tr = store.IDTransformer("id", func(id string, v interface{}) (interface{}, error) { return c10Project(v) })
	case "custom", "custom-err", "custom-emptyrid":
		tr = store.TransformFuncs(
			func(rid string, pp map[string]string) string {
				if cfg.Trans == "custom-emptyrid" && strings.HasPrefix(pp["id"], "hide") {
					return ""
				}
				return pp["id"]
			},
			func(id string, v interface{}, p res.Pattern) string {
				if cfg.Trans == "custom-emptyrid" && strings.HasPrefix(id, "hide") {
					return ""
				}
				return string(p.ReplaceTag("id", id))
			},
			func(id string, v interface{}) (interface{}, error) {
				if cfg.Trans == "custom-err" {
					if m, ok := v.(map[string]interface{}); ok && m["fail"] == true {
						return nil, errors.New("transform failed")
					}
				}
				return c10Project(v)
			})
	}
	if cfg.Default {
		if cfg.Type == "model" {
			e.def = map[string]interface{}{"dflt": true, "a": "default"}
		} else {
			e.def = []interface{}{"d1", "d2"}
		}
	}
	h := store.Handler{Store: e.st, Transformer: tr, Default: e.def}
	if cfg.Nest || cfg.Store == "badger" {
		// the same handler put together with the With* methods
		h = store.Handler{}.WithStore(e.st)
		if tr != nil {
			h = h.WithTransformer(tr)
		}
		if e.def != nil {
			h = h.WithDefault(e.def)
		}
	}
	// An application hands one IDTransformer value to several handlers: a second store behind
	// another pattern uses the same value, and is the first of the two to see a change.
	var other *mockstore.Store
	if cfg.Trans == "id" || cfg.Trans == "id-proj" {
		other = mockstore.NewStore()
	}
	e.rig = newRig("svc", func(s *res.Service) {
		typ := res.Model
		if cfg.Type != "model" {
			typ = res.Collection
		}
		if other != nil {
			s.Handle("zzother.$id", typ, store.Handler{Store: other, Transformer: tr})
		}
		if cfg.Nest {
			lib := res.NewMux("")
			s.Mount("lib", lib)
			books := res.NewMux("")
			lib.Mount("r", books)
			books.Handle("$id", typ, h)
			return
		}
		s.Handle("r.$id", typ, h)
	})
	e.rig.C.NoGoID = true
	if err := e.rig.start(); err != nil {
		return nil, err
	}
	if other != nil {
		var v interface{} = map[string]interface{}{"a": 1}
		if cfg.Type != "model" {
			v = []interface{}{"x"}
		}
		wt := other.Write("warm")
		err := wt.Create(v)
		wt.Close()
		if err != nil {
			return nil, err
		}
		e.c.Obs("shared_transformer_environments", 1)
	}
	return e, nil
}

// storeID / rid of a logical name.
func (e *c10Env) ids(name string) (storeID, rid string) {
	rid = "svc.r." + name
	if e.cfg.Nest {
		rid = "svc.lib.r." + name
	}
	if e.cfg.Trans == "none" {
		return rid, rid
	}
	return name, rid
}

// get fetches the resource; found=false for system.notFound.
func (e *c10Env) get(rid string) (val interface{}, found bool, ok bool) {
	start := e.rig.C.Len()
	inbox, done, n := e.rig.send("get."+rid, nil)
	if n != 1 || !waitCh(done, 10*time.Second) {
		e.c.Inconclusive("get not processed: " + rid)
		return nil, false, false
	}
	resp, _ := replies(e.rig.C.Since(start), inbox)
	if len(resp) != 1 {
		e.c.Inconclusive("get without response: " + rid)
		return nil, false, false
	}
	return e.parseGet(resp[0].Data)
}

// parseGet decodes a get response.
func (e *c10Env) parseGet(data []byte) (val interface{}, found bool, ok bool) {
	var rr struct {
		Result *struct {
			Model      json.RawMessage `json:"model"`
			Collection json.RawMessage `json:"collection"`
		} `json:"result"`
		Error *res.Error `json:"error"`
	}
	if err := json.Unmarshal(data, &rr); err != nil {
		e.c.Inconclusive("get response not JSON")
		return nil, false, false
	}
	if rr.Error != nil {
		return map[string]interface{}{"error": rr.Error.Code}, false, true
	}
	raw := rr.Result.Model
	if e.cfg.Type == "collection" {
		raw = rr.Result.Collection
	}
	var v interface{}
	dec := json.NewDecoder(bytes.NewReader(raw))
	dec.UseNumber()
	if err := dec.Decode(&v); err != nil {
		return map[string]interface{}{"error": "undecodable"}, false, true
	}
	return v, true, true
}

// errStoreBlocked: a store call of the harness did not return (a transaction on the id
// is still open somewhere, e.g. left open by the handler under test). No verdict of this
// property can be reached from there; C04 decides requests that are never answered.
var errStoreBlocked = errors.New("store call did not return within 20 s")

func (e *c10Env) guarded(f func() error) error {
	done := make(chan error, 1)
	go func() { done <- f() }()
	select {
	case err := <-done:
		return err
	case <-time.After(20 * time.Second):
		return errStoreBlocked
	}
}

// mutate changes the stored value from before to after (nil = absent).
func (e *c10Env) mutate(storeID string, before, after interface{}) error {
	return e.guarded(func() error { return e.mutate0(storeID, before, after) })
}

// readFirst is the usual shape of an application's write: read the value inside the
// transaction, then write. Every third transaction reads first, every third edits the
// value it read in place and hands that same value back to Update. What the transaction
// read does not change what the store reports as the value before each mutation.
func (e *c10Env) readFirst(wt store.WriteTxn, after interface{}) interface{} {
	e.nmut++
	if e.nmut%3 == 0 {
		return after
	}
	v, err := wt.Value()
	e.c.Obs("write_txns_reading_first", 1)
	// (mockstore hands out the stored value itself, so only a store that decodes a fresh
	// value per read is edited in place)
	if err != nil || e.nmut%3 != 2 || e.cfg.Store != "badger" {
		return after
	}
	m, ok := v.(map[string]interface{})
	am, ok2 := after.(map[string]interface{})
	if !ok || !ok2 {
		return after
	}
	for k := range m {
		delete(m, k)
	}
	for k, x := range am {
		m[k] = x
	}
	e.c.Obs("write_txns_editing_the_read_value_in_place", 1)
	return m
}

func (e *c10Env) mutate0(storeID string, before, after interface{}) error {
	if e.genOK && before == nil && after != nil && e.nmut%2 == 1 {
		// every other creation lets the store choose the id (Write("") with NewID set)
		e.nmut++
		e.genID = storeID
		wt := e.st.Write("")
		defer wt.Close()
		e.c.Obs("creates_with_store_generated_id", 1)
		if err := wt.Create(after); err != nil {
			return err
		}
		if wt.ID() != storeID {
			return fmt.Errorf("write transaction reports id %q after creating with generated id %q", wt.ID(), storeID)
		}
		return nil
	}
	wt := e.st.Write(storeID)
	defer wt.Close()
	after = e.readFirst(wt, after)
	switch {
	case before == nil && after == nil:
		return nil
	case before == nil:
		return wt.Create(after)
	case after == nil:
		return wt.Delete()
	default:
		return wt.Update(after)
	}
}

// mutateMany applies a chain of mutations inside one write transaction.
func (e *c10Env) mutateMany(storeID string, before interface{}, afters []interface{}) error {
	return e.guarded(func() error { return e.mutateMany0(storeID, before, afters) })
}

func (e *c10Env) mutateMany0(storeID string, before interface{}, afters []interface{}) error {
	wt := e.st.Write(storeID)
	defer wt.Close()
	for i, after := range afters {
		var err error
		if i == 0 {
			after = e.readFirst(wt, after)
		}
		switch {
		case before == nil && after == nil:
		case before == nil:
			err = wt.Create(after)
		case after == nil:
			err = wt.Delete()
		default:
			err = wt.Update(after)
		}
		if err != nil {
			return err
		}
		before = after
	}
	return nil
}

func isDeleteAction(v interface{}) bool {
	m, ok := v.(map[string]interface{})
	return ok && len(m) == 1 && m["action"] == "delete"
}

// applyEvents applies the events published for rid to the client's cache.
func (e *c10Env) applyEvents(log []vconn.Msg, rid string, cache interface{}, found bool, desc map[string]interface{}) (interface{}, bool, []string) {
	var evs []string
	prefix := "event." + rid + "."
	// A client holds the resource until a delete event; while it does not hold
	// it, events are ignored, and a create event tells it that a fetch is
	// worthwhile (announced).
	dropped, announced := false, false
	defer func() { e.lastAnnounced = announced }()
	for _, m := range log {
		if !strings.HasPrefix(m.Subject, prefix) {
			continue
		}
		ev := strings.TrimPrefix(m.Subject, prefix)
		evs = append(evs, ev+":"+short(m.Payload, 120))
		var data map[string]interface{}
		if len(m.Data) > 0 {
			dec := json.NewDecoder(bytes.NewReader(m.Data))
			dec.UseNumber()
			dec.Decode(&data)
		}
		if !found && (dropped || announced) && (ev == "change" || ev == "add" || ev == "remove") {
			continue
		}
		switch ev {
		case "delete":
			if found {
				found, dropped, announced = false, true, false
			}
		case "create":
			if !found {
				announced = true
			}
		case "change":
			model, ok := cache.(map[string]interface{})
			if !ok || !found {
				e.c.Violation("C10/change-on-non-model", "change event for a resource the client does not hold as a model", desc)
				continue
			}
			vals, _ := data["values"].(map[string]interface{})
			nm := map[string]interface{}{}
			for k, v := range model {
				nm[k] = v
			}
			for k, v := range vals {
				if isDeleteAction(v) {
					if _, had := nm[k]; !had {
						e.c.Obs("delete_action_on_missing_key", 1)
					}
					delete(nm, k)
				} else {
					nm[k] = v
				}
			}
			cache = nm
		case "add":
			list, ok := cache.([]interface{})
			if !ok || !found {
				e.c.Violation("C10/add-on-non-collection", "add event for a resource the client does not hold as a collection", desc)
				continue
			}
			idxN, _ := data["idx"].(json.Number)
			idx, _ := idxN.Int64()
			if idx < 0 || int(idx) > len(list) {
				d := copyDesc(desc)
				d["events_so_far"] = evs
				e.c.Violation("C10/add-index-out-of-range", fmt.Sprintf("add event idx %d applied to a collection of length %d", idx, len(list)), d)
				continue
			}
			nl := append([]interface{}{}, list[:idx]...)
			nl = append(nl, data["value"])
			nl = append(nl, list[idx:]...)
			cache = nl
		case "remove":
			list, ok := cache.([]interface{})
			if !ok || !found {
				e.c.Violation("C10/remove-on-non-collection", "remove event for a resource the client does not hold as a collection", desc)
				continue
			}
			idxN, _ := data["idx"].(json.Number)
			idx, _ := idxN.Int64()
			if idx < 0 || int(idx) >= len(list) {
				d := copyDesc(desc)
				d["events_so_far"] = evs
				e.c.Violation("C10/remove-index-out-of-range", fmt.Sprintf("remove event idx %d applied to a collection of length %d", idx, len(list)), d)
				continue
			}
			nl := append([]interface{}{}, list[:idx]...)
			nl = append(nl, list[idx+1:]...)
			cache = nl
		}
	}
	return cache, found, evs
}

func copyDesc(d map[string]interface{}) map[string]interface{} {
	n := map[string]interface{}{}
	for k, v := range d {
		n[k] = v
	}
	return n
}

func canon(v interface{}) string {
	b, _ := json.Marshal(v)
	var x interface{}
	dec := json.NewDecoder(bytes.NewReader(b))
	dec.UseNumber()
	dec.Decode(&x)
	b, _ = json.Marshal(x)
	return string(b)
}

// c10Case runs one before->after mutation and checks coherence. The client's
// cache is carried by the caller for histories (cache==nil: fetch first).
func (e *c10Env) oneCase(name string, before, after interface{}, tag string) bool {
	c := e.c
	storeID, rid := e.ids(name)
	desc := map[string]interface{}{"config": e.cfg, "rid": rid, "before": before, "after": after}
	// establish the before state
	if err := e.mutate(storeID, nil, before); err != nil {
		c.Inconclusive("setup failed: " + err.Error())
		return false
	}
	cache, found, ok := e.get(rid)
	if !ok {
		return false
	}
	served0 := cache
	pos := e.rig.C.Len()
	if err := e.mutate(storeID, before, after); err != nil {
		c.Inconclusive("mutation failed: " + err.Error())
		return false
	}
	c.Eval(1)
	log := e.rig.C.Since(pos)
	fresh, ffound, ok := e.get(rid)
	if !ok {
		return false
	}
	cache, _, evs := e.applyEvents(log, rid, cache, found, desc)
	desc["events"] = evs
	desc["client_before"], desc["fresh_get"] = cache, fresh
	has := func(ev string) bool {
		for _, x := range evs {
			if strings.HasPrefix(x, ev+":") {
				return true
			}
		}
		return false
	}
	sigCfg := fmt.Sprintf("%s/%s/default=%v", e.cfg.Type, e.cfg.Trans, e.cfg.Default)
	switch {
	case !found && ffound:
		if !has("create") {
			c.Violation("C10/creation-not-announced:"+sigCfg, fmt.Sprintf("resource %s was reported missing, now exists, but no create event was published on it (events: %v)", rid, evs), desc)
		}
	case found && !ffound:
		if !has("delete") {
			c.Violation("C10/deletion-not-announced:"+sigCfg, fmt.Sprintf("resource %s existed, is now reported missing, but no delete event was published on it (events: %v)", rid, evs), desc)
		}
	case found && ffound:
		if canon(cache) != canon(fresh) {
			c.Violation("C10/stale-client:"+sigCfg, fmt.Sprintf("client of %s applied events %v and holds %s, but a fresh get returns %s", rid, evs, canon(cache), canon(fresh)), desc)
		}
		if has("create") || has("delete") {
			c.Violation("C10/spurious-create-delete:"+sigCfg, fmt.Sprintf("resource %s is served before and after the mutation but a create/delete event was published (events: %v)", rid, evs), desc)
		}
	}
	if canon(cache) == canon(fresh) && found == ffound && len(evs) > 0 && reflect.DeepEqual(canon(before), canon(after)) {
		c.Violation("C10/event-without-change:"+sigCfg, fmt.Sprintf("mutation did not alter the stored value of %s but events %v were published", rid, evs), desc)
	}
	// no message when the served representation did not change
	if found && ffound && canon(served0) == canon(fresh) && len(evs) > 0 {
		c.Violation("C10/event-without-served-change:"+sigCfg, fmt.Sprintf("the served representation of %s did not change (%s) but events %v were published", rid, canon(fresh), evs), desc)
	}
	if canon(before) != canon(after) {
		c.Distinct(tag + "|" + sigCfg + "|" + canon(before) + ">" + canon(after))
	}
	// a mutation the store must refuse - Create on an id that exists, Update and Delete on one
	// that does not: it fails, nothing is published and a fresh get is what it was
	if other := before; other != nil || after != nil {
		if other == nil {
			other = after
		}
		pos2 := e.rig.C.Len()
		what := "Create on the existing id"
		if after == nil {
			what = "Update and Delete on the missing id"
		}
		rerr := e.guarded(func() error {
			wt := e.st.Write(storeID)
			defer wt.Close()
			if after != nil {
				return wt.Create(other)
			}
			if err := wt.Update(other); err != nil {
				return wt.Delete()
			}
			return nil
		})
		if rerr == errStoreBlocked {
			c.Inconclusive("mutation blocked: " + rerr.Error())
			return false
		}
		c.Obs("refused_mutations", 1)
		d2 := copyDesc(desc)
		d2["refused_mutation"], d2["with_value"] = what, other
		_, _, evs2 := e.applyEvents(e.rig.C.Since(pos2), rid, fresh, ffound, d2)
		fresh2, ffound2, ok := e.get(rid)
		if !ok {
			return false
		}
		switch {
		case rerr == nil:
			c.Violation("C10/refused-mutation-accepted:"+sigCfg, fmt.Sprintf("%s (%s) succeeded; events %v", what, storeID, evs2), d2)
		case len(evs2) > 0:
			c.Violation("C10/event-for-refused-mutation:"+sigCfg, fmt.Sprintf("%s failed (%v) but events %v were published on %s", what, rerr, evs2, rid), d2)
		case ffound2 != ffound || canon(fresh2) != canon(fresh):
			c.Violation("C10/refused-mutation-changed-resource:"+sigCfg, fmt.Sprintf("%s failed (%v) but a fresh get of %s went from %s to %s", what, rerr, rid, canon(fresh), canon(fresh2)), d2)
		}
	}
	// an update whose commit fails (another transaction rewrote the same value in between): the
	// stored value is what it was, so nothing is published and a fresh get is unchanged
	if e.canConflict && after != nil {
		outer := before
		if outer == nil || canon(outer) == canon(after) {
			outer = c10Perturb(newRand(int64(len(canon(after)))), after, e.cfg)
		}
		if outer != nil && canon(outer) != canon(after) {
			pos3 := e.rig.C.Len()
			e.conflictFor, e.conflictVal, e.conflictInjected = storeID, after, false
			uerr := e.guarded(func() error {
				wt := e.st.Write(storeID)
				defer wt.Close()
				return wt.Update(outer)
			})
			e.conflictFor = ""
			if uerr == errStoreBlocked {
				c.Inconclusive("mutation blocked: " + uerr.Error())
				return false
			}
			if e.conflictInjected && uerr != nil {
				c.Obs("updates_failing_at_commit", 1)
				d3 := copyDesc(desc)
				d3["failed_update_to"], d3["update_error"] = outer, uerr.Error()
				_, _, evs3 := e.applyEvents(e.rig.C.Since(pos3), rid, fresh, ffound, d3)
				fresh3, ffound3, ok := e.get(rid)
				if !ok {
					return false
				}
				switch {
				case len(evs3) > 0:
					c.Violation("C10/event-for-failed-update:"+sigCfg, fmt.Sprintf("an Update of %s failed at commit (%v) but events %v were published on %s", storeID, uerr, evs3, rid), d3)
				case ffound3 != ffound || canon(fresh3) != canon(fresh):
					c.Violation("C10/failed-update-changed-resource:"+sigCfg, fmt.Sprintf("an Update of %s failed at commit (%v) but a fresh get of %s went from %s to %s", storeID, uerr, rid, canon(fresh), canon(fresh3)), d3)
				}
			} else if uerr == nil {
				// no conflict produced: the update took place; continue from there
				after = outer
			}
		}
	}
	// clean up
	e.mutate(storeID, after, nil)
	return true
}

func c10Run(c *core.Ctx, b core.Batch) {
	var p c10Params
	json.Unmarshal(b.Params, &p)
	rigInstall()
	defer closeSharedBadger()
	env, err := newC10Env(c, p.Cfg)
	if err != nil {
		c.Inconclusive("env: " + err.Error())
		return
	}
	defer env.rig.stop()
	r := c.Rand
	switch p.Kind {
	case "pairs":
		var cols [][]interface{}
		var rec func(cur []interface{})
		rec = func(cur []interface{}) {
			cols = append(cols, append([]interface{}{}, cur...))
			if len(cur) == 4 {
				return
			}
			for _, x := range []string{"a", "b", "c"} {
				rec(append(cur, x))
			}
		}
		rec(nil)
		idx := 0
		for _, a := range cols {
			for _, bb := range cols {
				idx++
				if idx%p.Shards != p.Shard {
					continue
				}
				if !env.oneCase("p", a, bb, "pairs") {
					return
				}
			}
		}
		c.Sample(map[string]interface{}{"config": p.Cfg, "collections": len(cols), "pairs_in_shard": idx / p.Shards, "example": []interface{}{cols[17], cols[44]}})
	case "random":
		for i := 0; i < p.N; i++ {
			before := c10RandValue(r, p.Cfg, true)
			after := c10RandValue(r, p.Cfg, true)
			if r.Intn(4) == 0 {
				after = c10Perturb(r, before, p.Cfg)
			}
			name := fmt.Sprintf("x%d", r.Intn(3))
			if p.Cfg.Trans == "custom-emptyrid" && r.Intn(4) == 0 {
				name = "hide1"
			}
			if !env.oneCase(name, before, after, "random") {
				return
			}
			if i == 2 {
				c.Sample(map[string]interface{}{"config": p.Cfg, "before": before, "after": after})
			}
		}
	case "history":
		for h := 0; h < p.N; h++ {
			if !env.history(r, fmt.Sprintf("h%d", h)) {
				return
			}
		}
		for h := 0; h < p.N/4+2; h++ {
			if !env.racingGets(r, h) {
				return
			}
		}
	}
	for k, v := range sched.Counts() {
		c.Obs("hook:"+k, v)
	}
}

// racingGets: clients fetch the resource while another goroutine mutates it. Whatever
// moment a get is answered at, the client that takes that response and then applies every
// event published after it (in connection order) ends up with what a fresh get returns
// when the mutations are over - the response and the events of a mutation are ordered
// on the connection the same way the store ordered the read and the write.
func (e *c10Env) racingGets(r *rand.Rand, h int) bool {
	c := e.c
	storeID, rid := e.ids(fmt.Sprintf("race%d", h%3))
	cur := c10RandValue(r, e.cfg, false)
	if err := e.mutate(storeID, nil, cur); err != nil {
		c.Inconclusive("setup failed: " + err.Error())
		return false
	}
	var nexts []interface{}
	prev := cur
	for k := 0; k < 14; k++ {
		n := c10Perturb(r, prev, e.cfg)
		if r.Intn(3) == 0 {
			n = c10RandValue(r, e.cfg, false)
		}
		nexts = append(nexts, n)
		prev = n
	}
	sched.SetPerturb(c.Batch.Seed+int64(h), 2)
	start := e.rig.C.Len()
	var wg sync.WaitGroup
	var merr error
	wg.Add(2)
	go func() {
		defer wg.Done()
		p := cur
		for _, n := range nexts {
			if merr = e.mutate(storeID, p, n); merr != nil {
				return
			}
			p = n
			runtime.Gosched()
		}
	}()
	inboxes := map[string]bool{}
	getsOK := true
	go func() {
		defer wg.Done()
		for k := 0; k < 20; k++ {
			inbox, done, n := e.rig.send("get."+rid, nil)
			if n != 1 || !waitCh(done, 10*time.Second) {
				getsOK = false
				return
			}
			inboxes[inbox] = true
		}
	}()
	wg.Wait()
	sched.SetPerturb(0, 0)
	if merr != nil || !getsOK {
		c.Inconclusive(fmt.Sprintf("racing gets: mutation error %v, gets processed %v", merr, getsOK))
		return false
	}
	log := e.rig.C.Since(start)
	fresh, ffound, ok := e.get(rid)
	if !ok {
		return false
	}
	sigCfg := fmt.Sprintf("%s/%s/default=%v", e.cfg.Type, e.cfg.Trans, e.cfg.Default)
	between := 0
	for i, m := range log {
		if !inboxes[m.Subject] {
			continue
		}
		c.Eval(1)
		val, found, ok := e.parseGet(m.Data)
		if !ok {
			return false
		}
		desc := map[string]interface{}{"config": e.cfg, "rid": rid, "get_response": short(m.Payload, 200), "response_position": i, "messages_after_it": len(log) - i - 1}
		client, cfound, evs := e.applyEvents(log[i+1:], rid, val, found, desc)
		if len(evs) > 0 && i > 0 {
			between++
		}
		desc["events_after_response"] = evs
		if cfound != ffound && !(e.lastAnnounced && ffound) || cfound && ffound && canon(client) != canon(fresh) {
			desc["client_holds"], desc["fresh_get"] = client, fresh
			c.Violation("C10/stale-client:fetched-during-mutations:"+sigCfg, fmt.Sprintf("a client that got %s for %s while the resource was being mutated and applied the %d events published after that response holds %s; a fresh get returns %s", short(m.Payload, 120), rid, len(evs), canon(client), canon(fresh)), desc)
			break
		}
	}
	c.Obs("racing_get_rounds", 1)
	c.Obs("racing_gets_answered_between_mutations", int64(between))
	if between > 0 {
		c.Distinct(fmt.Sprintf("racing/%s/%d", sigCfg, h))
	}
	e.mutate(storeID, prev, nil)
	return true
}

// history: a client holds the resource over a sequence of mutations.
// initOverExisting: Store.Init with a seed for an id that already holds another value
// (and one fresh id). The existing value is kept, so nothing may be published for it.
func (e *c10Env) initOverExisting(r *rand.Rand) bool {
	bs, ok := e.st.(*badgerstore.Store)
	if !ok || e.initDone {
		return true
	}
	e.initDone = true
	c := e.c
	storeID, rid := e.ids("initx")
	own := c10RandValue(r, e.cfg, false)
	if err := e.mutate(storeID, nil, own); err != nil {
		c.Inconclusive("setup failed: " + err.Error())
		return false
	}
	cache, found, ok := e.get(rid)
	if !ok {
		return false
	}
	pos := e.rig.C.Len()
	seed := c10RandValue(r, e.cfg, false)
	freshID, _ := e.ids("inity")
	err := bs.Init(func(add func(id string, v interface{})) error {
		add(storeID, seed)
		add(freshID, seed)
		return nil
	})
	c.Eval(1)
	c.Obs("init_over_existing_value", 1)
	desc := map[string]interface{}{"config": e.cfg, "rid": rid, "stored": own, "seed_for_the_same_id": seed, "init_error": fmt.Sprint(err)}
	var evs []string
	for _, m := range e.rig.C.Since(pos) {
		if strings.HasPrefix(m.Subject, "event."+rid+".") {
			evs = append(evs, strings.TrimPrefix(m.Subject, "event."+rid+".")+":"+short(m.Payload, 100))
		}
	}
	fresh, ffound, ok := e.get(rid)
	if !ok {
		return false
	}
	sigCfg := fmt.Sprintf("%s/%s/default=%v", e.cfg.Type, e.cfg.Trans, e.cfg.Default)
	if found == ffound && canon(cache) == canon(fresh) && len(evs) > 0 {
		desc["events"] = evs
		c.Violation("C10/event-without-served-change:init:"+sigCfg, fmt.Sprintf("Init skipped the already stored %s (a fresh get is unchanged) but published %v for it", rid, evs), desc)
	}
	e.mutate(storeID, own, nil)
	e.mutate(freshID, seed, nil)
	return true
}

func (e *c10Env) history(r *rand.Rand, name string) bool {
	c := e.c
	if !e.initOverExisting(r) {
		return false
	}
	storeID, rid := e.ids(name)
	var cur interface{}
	cache, found, ok := e.get(rid)
	if !ok {
		return false
	}
	var steps []string
	for s := 0; s < 12; s++ {
		// one transaction holds one mutation, or (every third) a chain of 2-3
		nops := 1
		if r.Intn(3) == 0 {
			nops = 2 + r.Intn(2)
		}
		var nexts []interface{}
		chain := canon(cur)
		prev := cur
		for k := 0; k < nops; k++ {
			var next interface{}
			switch {
			case prev == nil:
				next = c10RandValue(r, e.cfg, false)
			case r.Intn(5) == 0:
				next = nil
			case r.Intn(2) == 0:
				next = c10Perturb(r, prev, e.cfg)
			default:
				next = c10RandValue(r, e.cfg, false)
			}
			nexts = append(nexts, next)
			chain += " -> " + canon(next)
			prev = next
		}
		pos := e.rig.C.Len()
		if err := e.mutateMany(storeID, cur, nexts); err != nil {
			c.Inconclusive("mutation failed: " + err.Error())
			return false
		}
		c.Eval(1)
		if nops > 1 {
			c.Obs("multi_mutation_transactions", 1)
			chain = "txn{" + chain + "}"
		}
		steps = append(steps, chain)
		cur = prev
		desc := map[string]interface{}{"config": e.cfg, "rid": rid, "steps": steps}
		log := e.rig.C.Since(pos)
		var evs []string
		var held bool
		cache, held, evs = e.applyEvents(log, rid, cache, found, desc)
		announced := e.lastAnnounced
		fresh, ffound, ok := e.get(rid)
		if !ok {
			return false
		}
		sigCfg := fmt.Sprintf("%s/%s/default=%v", e.cfg.Type, e.cfg.Trans, e.cfg.Default)
		hasEv := func(ev string) bool {
			for _, x := range evs {
				if strings.HasPrefix(x, ev+":") {
					return true
				}
			}
			return false
		}
		_ = hasEv
		switch {
		case held && !ffound:
			desc["events"] = evs
			c.Violation("C10/deletion-not-announced:"+sigCfg, fmt.Sprintf("history step %d: %s: deletion of %s not announced to the client holding it (events %v)", s, chain, rid, evs), desc)
			cache, found = nil, false
		case !held && ffound:
			if !announced {
				desc["events"] = evs
				c.Violation("C10/creation-not-announced:"+sigCfg, fmt.Sprintf("history step %d: %s: %s exists but its creation was not announced after the client lost it (events %v)", s, chain, rid, evs), desc)
			}
			cache, found = fresh, true // the client fetches
		case !held:
			cache, found = nil, false
		case canon(cache) != canon(fresh):
			desc["events"], desc["client"], desc["fresh"] = evs, cache, fresh
			c.Violation("C10/stale-client:"+sigCfg, fmt.Sprintf("history step %d: client of %s holds %s, fresh get returns %s (events %v)", s, rid, canon(cache), canon(fresh), evs), desc)
			cache = fresh
		}
		c.Distinct("history|" + sigCfg + "|" + steps[len(steps)-1])
	}
	e.mutate(storeID, cur, nil)
	return true
}

var c10Prims = []interface{}{"a", "b", "", "q\"x", 1, 2.5, true, false, nil, "a"}

func c10RandRESValue(r *rand.Rand) interface{} {
	switch r.Intn(10) {
	case 0:
		return map[string]interface{}{"rid": fmt.Sprintf([]string{"svc.r.ref%d", "svc.r.~ref%d!", "svc.~.%d?q=~"}[r.Intn(3)], r.Intn(3))}
	case 1:
		return map[string]interface{}{"rid": fmt.Sprintf([]string{"svc.r.ref%d", "svc.r.}ref%d~"}[r.Intn(2)], r.Intn(3)), "soft": true}
	case 2:
		return map[string]interface{}{"data": map[string]interface{}{"n": r.Intn(3), "l": []interface{}{1, "x"}}}
	case 3:
		return map[string]interface{}{"data": []interface{}{r.Intn(2), nil}}
	}
	return c10Prims[r.Intn(len(c10Prims))]
}

func c10RandValue(r *rand.Rand, cfg c10Cfg, allowNil bool) interface{} {
	if allowNil && r.Intn(6) == 0 {
		return nil
	}
	if cfg.Type == "model" {
		m := map[string]interface{}{}
		for _, k := range []string{"a", "b", "c", "hidden", "dflt"} {
			if r.Intn(2) == 0 {
				m[k] = c10RandRESValue(r)
			}
		}
		if cfg.Trans == "custom-err" && r.Intn(6) == 0 {
			m["fail"] = true
		}
		return m
	}
	n := r.Intn(6)
	l := make([]interface{}, n)
	for i := range l {
		l[i] = c10RandRESValue(r)
	}
	return l
}

// c10Perturb makes a small edit of a value.
func c10Perturb(r *rand.Rand, v interface{}, cfg c10Cfg) interface{} {
	switch t := v.(type) {
	case map[string]interface{}:
		m := map[string]interface{}{}
		for k, x := range t {
			m[k] = x
		}
		switch r.Intn(4) {
		case 0:
			m["hidden"] = r.Intn(100) // only the projected-away field changes
		case 1:
			for k := range m {
				delete(m, k)
				break
			}
		case 2:
			m[[]string{"a", "b", "c"}[r.Intn(3)]] = c10RandRESValue(r)
		}
		return m
	case []interface{}:
		l := append([]interface{}{}, t...)
		switch r.Intn(4) {
		case 0:
			if len(l) > 0 {
				i := r.Intn(len(l))
				l = append(l[:i], l[i+1:]...)
			}
		case 1:
			i := r.Intn(len(l) + 1)
			l = append(l[:i], append([]interface{}{c10RandRESValue(r)}, l[i:]...)...)
		case 2:
			if len(l) > 1 {
				i, j := r.Intn(len(l)), r.Intn(len(l))
				l[i], l[j] = l[j], l[i]
			}
		}
		return l
	}
	return v
}
