package props

import (
	"encoding/json"
	"fmt"
	"sync"
	"sync/atomic"
	"time"

	res "github.com/jirenius/go-res"

	"verif/harness/internal/core"
	"verif/harness/internal/mon"
	"verif/harness/internal/sched"
	"verif/harness/internal/vconn"
)

// C01 - At most one callback of a worker group executes at any instant.
// C02 - Callbacks of a group run exactly once, in submission order.
// Both use the shared workload of conc.go with different oracles.

func concBatches(seed int64, tier core.Tier, prop string) []core.Batch {
	var bs []core.Batch
	workers := []int{1, 2, 3, 8, 32, 0, -1} // 0 and negative: documented to mean the default (32)
	inch := []int{1, 4, 1024}
	n := 0
	reps := tierPick(tier, 2, 30)
	for rep := 0; rep < reps; rep++ {
		for _, w := range workers {
			for _, ic := range inch {
				cfg := concCfg{Workers: w, InCh: ic, Producers: 8 + 8*(n%2), Ops: tierPick(tier, 150, 300), Perturb: 1 + n%2, Cycles: 1 + n%3%2, Query: n%3 == 0,
					Baton: n%4 == 1, HotGroups: 2 + n%3, BodyYield: 1 + n%2, ManyGroups: n%5 == 2}
				if n%7 == 3 {
					cfg.Cycles = 3
					cfg.Ops /= 2
				}
				if cfg.Cycles > 1 && n%2 == 1 {
					cfg.DirtyStop = true
				}
				b := core.Batch{Name: fmt.Sprintf("stress-r%d-w%d-i%d", rep, w, ic), TimeoutS: 300, Params: core.Params(cfg)}
				bs = append(bs, b)
				// a subset under the race detector (second, independent detector via group scratch memory)
				if (n%3 == 0 && tier == core.Quick) || (tier == core.Thorough && n%2 == 0) {
					rc := cfg
					rc.Ops = cfg.Ops / 2
					bs = append(bs, core.Batch{Name: fmt.Sprintf("race-r%d-w%d-i%d", rep, w, ic), TimeoutS: 600, Race: true, Params: core.Params(rc)})
				}
				n++
			}
		}
	}
	for rep := 0; rep < tierPick(tier, 2, 40); rep++ {
		for _, d := range []string{"retire-vs-append", "queued-before-signal", "worker-before", "control"} {
			for _, w := range []int{1, 2, 8} {
				bs = append(bs, core.Batch{Name: fmt.Sprintf("directed-%s-w%d-r%d", d, w, rep), TimeoutS: 120,
					Params: core.Params(concCfg{Workers: w, InCh: 16, Directed: d, Ops: tierPick(tier, 40, 80)})})
			}
		}
	}
	for rep := 0; rep < tierPick(tier, 1, 6); rep++ {
		for _, w := range []int{1, 4} {
			bs = append(bs, core.Batch{Name: fmt.Sprintf("directed-restart-during-drain-w%d-r%d", w, rep), TimeoutS: 120,
				Params: core.Params(concCfg{Workers: w, InCh: 16, Directed: "restart-during-drain", Ops: tierPick(tier, 6, 12)})})
			bs = append(bs, core.Batch{Name: fmt.Sprintf("directed-expiry-during-shutdown-w%d-r%d", w, rep), TimeoutS: 120,
				Params: core.Params(concCfg{Workers: w, InCh: 16, Directed: "expiry-during-shutdown", Ops: tierPick(tier, 6, 12)})})
		}
	}
	if prop == "C02" {
		for rep := 0; rep < tierPick(tier, 1, 4); rep++ {
			bs = append(bs, core.Batch{Name: fmt.Sprintf("directed-stale-closed-handlers-r%d", rep), TimeoutS: 300,
				Params: core.Params(concCfg{Workers: []int{4, 16, 2, 8}[rep], InCh: 16, Directed: "stale-closed-handlers", Ops: tierPick(tier, 6, 25)})})
		}
	}
	return bs
}

func init() {
	core.Register(&core.Prop{
		ID:    "C01",
		Level: "exploration",
		Rule: "a case is one execution of the concurrent workload (8-16 producers mixing request delivery of all types, With/WithResource/WithGroup, query events with query requests and expiry, start/stop/start cycles) on a real Service for one (worker count in {1,2,3,8,32}, in-channel size in {1,4,1024}, seed-perturbed schedule) configuration, or one directed gate scenario parking a worker/producer inside the retire-vs-append windows; " +
			"every harness callback enters/exits a per-group occupancy monitor keyed by the group computed from the harness' own pattern table (reference router), Parallel resources exempt; under -race the per-group unsynchronised scratch memory is a second detector; " +
			"evaluations = callbacks observed; distinct non-trivial = distinct (run, group) pairs on which >= 2 producers contended",
		Assumptions: []string{
			"callbacks of different groups may overlap; Parallel resources are exempt and their overlaps are counted to show the monitor can see overlap",
			"the harness computes groups with the reference router of C06, not with Resource.Group()",
		},
		Parallel:       8,
		Batches:        func(seed int64, tier core.Tier) []core.Batch { return concBatches(seed, tier, "C01") },
		MinEvaluations: func(t core.Tier) int64 { return 20000 },
		Run:            func(c *core.Ctx, b core.Batch) { concRun(c, b, "C01") },
		Post: func(a *core.Aggregate) {
			if a.Counters["parallel_overlaps_seen"] == 0 {
				a.Inconclusive = append(a.Inconclusive, "no overlap was ever observed on Parallel resources: the occupancy monitor may be blind")
				a.Counters["inconclusive"]++
			}
			for _, h := range []string{"hook:worker.after", "hook:runWith.appended", "hook:runWith.queued", "hook:query.nilqueued"} {
				if a.Counters[h] == 0 {
					a.Inconclusive = append(a.Inconclusive, "hook point never reached: "+h)
					a.Counters["inconclusive"]++
				}
			}
		},
	})
	core.Register(&core.Prop{
		ID:    "C02",
		Level: "exploration",
		Rule: "same executions as C01; offline oracle over the recorded submission/execution log: every submission has a unique id logged before the call; checks: no id executed twice, every id accepted while started executed exactly once by the time a final request passed the listener and a sentinel ran on every group, per (producer, group, channel) execution order equals submission order, with a baton (mutex-ordered submissions) the per-group execution order equals the global happens-before order, With error iff the reference router finds no handler, replies appear on the connection inside their callback's execution interval; lost wake-ups are decided on state (work queued, all workers parked in Cond.Wait). " +
			"evaluations = submissions checked; distinct non-trivial = distinct (run, group) pairs on which >= 2 producers contended",
		Assumptions: []string{
			"no order is promised between a request put on the channel and a With issued after it by the same goroutine; each channel is checked separately",
			"order between requests of different producers is not observable at the connection boundary and not asserted",
		},
		Parallel:       8,
		Batches:        func(seed int64, tier core.Tier) []core.Batch { return concBatches(seed, tier, "C02") },
		MinEvaluations: func(t core.Tier) int64 { return 20000 },
		Run:            func(c *core.Ctx, b core.Batch) { concRun(c, b, "C02") },
	})
}

func concRun(c *core.Ctx, b core.Batch, prop string) {
	var cfg concCfg
	json.Unmarshal(b.Params, &cfg)
	if cfg.Directed == "restart-during-drain" {
		concRestartDuringDrain(c, cfg, prop)
		return
	}
	if cfg.Directed == "stale-closed-handlers" {
		concStaleClosedHandlers(c, cfg, prop)
		return
	}
	if cfg.Directed == "expiry-during-shutdown" {
		concExpiryDuringShutdown(c, cfg, prop)
		return
	}
	if cfg.Directed != "" {
		concDirected(c, cfg, prop)
		return
	}
	e := newConcEngine(c, cfg)
	e.reportOcc = prop == "C01"
	ok := e.run()
	e.report()
	if prop == "C01" {
		e.mu.Lock()
		c.Eval(int64(len(e.execs)))
		contended := map[string]map[int]bool{}
		for _, s := range e.order {
			if s.Producer >= 0 && !s.Parallel {
				if contended[s.Group] == nil {
					contended[s.Group] = map[int]bool{}
				}
				contended[s.Group][s.Producer] = true
			}
		}
		e.mu.Unlock()
		for g, ps := range contended {
			if len(ps) >= 2 {
				c.Distinct(fmt.Sprintf("%s/%s", b.Name, g))
			}
		}
	}
	if prop == "C02" && ok {
		e.checkExactlyOnce()
		e.replyOrder(e.rig.C.Log())
	}
	c.Sample(map[string]interface{}{"config": cfg, "callbacks": len(e.execs)})
}

// concRestartDuringDrain: while Shutdown is still waiting for a running callback of
// group G, another goroutine (a supervisor) keeps calling Serve until it is accepted,
// and then submits callbacks for G. They must not run while the old callback of G is
// still executing (the stop/start part of a start/stop/start history).
func concRestartDuringDrain(c *core.Ctx, cfg concCfg, prop string) {
	rigInstall()
	for round := 0; round < cfg.Ops; round++ {
		occ := mon.NewOccupancy(func(group, first, second string) {
			if prop == "C01" {
				c.Violation("C01/overlap:directed-"+cfg.Directed, fmt.Sprintf("callbacks %s and %s of group %q overlapped in directed scenario %s", first, second, group, cfg.Directed), cfg)
			}
		})
		rg := newRig("svc", func(s *res.Service) {
			s.SetWorkerCount(cfg.Workers)
			s.Handle("res.$id", res.GetModel(func(r res.ModelRequest) { r.Model(nil) }))
		})
		if err := rg.start(); err != nil {
			c.Inconclusive("start: " + err.Error())
			return
		}
		G := "svc.res.1"
		inside, release, finished := make(chan struct{}), make(chan struct{}), make(chan struct{})
		if err := rg.S.With(G, func(r res.Resource) {
			occ.Enter(G, "with:old-run", false)
			close(inside)
			<-release
			time.Sleep(2 * time.Millisecond)
			occ.Exit(G)
			close(finished)
		}); err != nil || !waitCh(inside, 10*time.Second) {
			c.Inconclusive("restart-during-drain: With callback did not start")
			return
		}
		stopped := make(chan struct{})
		go func() { rg.S.Shutdown(); close(stopped) }()
		// the supervisor: serve again as soon as the service lets it
		served := make(chan struct{})
		newRunDone := make(chan struct{})
		var newRuns int32
		go func() {
			defer close(newRunDone)
			deadline := time.Now().Add(60 * time.Millisecond)
			for time.Now().Before(deadline) {
				conn := vconn.New()
				started := make(chan struct{})
				var once sync.Once
				rg.S.SetOnServe(func(*res.Service) { once.Do(func() { close(started) }) })
				ret := make(chan error, 1)
				go func() { ret <- rg.S.Serve(conn) }()
				select {
				case <-started:
					atomic.AddInt32(&newRuns, 1)
					close(served)
					// callbacks of G in the new run, while the old callback may still be running
					for k := 0; k < 4; k++ {
						k := k
						rg.S.With(G, func(res.Resource) {
							occ.Enter(G, fmt.Sprintf("with:new-run-%d", k), false)
							time.Sleep(300 * time.Microsecond)
							occ.Exit(G)
						})
					}
					time.Sleep(5 * time.Millisecond)
					rg.S.Shutdown()
					<-ret
					return
				case err := <-ret:
					_ = err // refused: not stopped yet
					time.Sleep(200 * time.Microsecond)
				case <-time.After(5 * time.Second):
					return
				}
			}
		}()
		// hold the old callback for a while; a correct service refuses Serve all that time
		select {
		case <-served:
		case <-time.After(25 * time.Millisecond):
		}
		time.Sleep(3 * time.Millisecond)
		close(release)
		if !waitCh(finished, 10*time.Second) || !waitCh(stopped, 25*time.Second) || !waitCh(newRunDone, 25*time.Second) {
			c.Inconclusive("restart-during-drain: did not complete")
			return
		}
		// the supervisor may have been accepted only after the drain: stop that run as well
		rg.S.Shutdown()
		c.Eval(1)
		c.Obs("restart_during_drain_rounds", 1)
		c.Obs("restart_during_drain_new_runs", int64(atomic.LoadInt32(&newRuns)))
		c.Distinct(fmt.Sprintf("%s/w%d/%d", cfg.Directed, cfg.Workers, round))
	}
	c.Sample(map[string]interface{}{"directed": cfg.Directed, "workers": cfg.Workers, "rounds": cfg.Ops})
}

// concExpiryDuringShutdown: a query event of group G expires while Shutdown is
// blocked behind a running callback of G (the stop phase of a start/stop
// history). Whatever the library does with the final nil call, it must not run
// while the other callback of G is executing.
func concExpiryDuringShutdown(c *core.Ctx, cfg concCfg, prop string) {
	rigInstall()
	for round := 0; round < cfg.Ops; round++ {
		occ := mon.NewOccupancy(func(group, first, second string) {
			if prop == "C01" {
				c.Violation("C01/overlap:directed-"+cfg.Directed, fmt.Sprintf("callbacks %s and %s of group %q overlapped in directed scenario %s", first, second, group, cfg.Directed), cfg)
			}
		})
		rg := newRig("svc", func(s *res.Service) {
			s.SetWorkerCount(cfg.Workers)
			s.SetQueryEventDuration(8 * time.Millisecond)
			s.Handle("res.$id", res.GetModel(func(r res.ModelRequest) { r.Model(nil) }))
		})
		if err := rg.start(); err != nil {
			c.Inconclusive("start: " + err.Error())
			return
		}
		G := "svc.res.1"
		inside, release, finished := make(chan struct{}), make(chan struct{}), make(chan struct{})
		var nils int32
		err := rg.S.With(G, func(r res.Resource) {
			occ.Enter(G, "with:busy", false)
			r.QueryEvent(func(qr res.QueryRequest) {
				id := "query/request"
				if qr == nil {
					id = "query/nil"
					atomic.AddInt32(&nils, 1)
				}
				occ.Enter(G, id, false)
				time.Sleep(200 * time.Microsecond)
				occ.Exit(G)
			})
			close(inside)
			<-release
			time.Sleep(time.Millisecond)
			occ.Exit(G)
			close(finished)
		})
		if err != nil || !waitCh(inside, 10*time.Second) {
			c.Inconclusive("expiry-during-shutdown: With callback did not start")
			close(release)
			rg.stop()
			return
		}
		stopped := make(chan struct{})
		go func() { rg.stop(); close(stopped) }()
		// the query event expires (8 ms) while Shutdown waits for the busy callback
		time.Sleep(40 * time.Millisecond)
		close(release)
		if !waitCh(finished, 10*time.Second) || !waitCh(stopped, 25*time.Second) {
			c.Inconclusive("expiry-during-shutdown: Shutdown did not complete")
			return
		}
		time.Sleep(5 * time.Millisecond)
		c.Eval(1)
		c.Obs("expiry_during_shutdown_rounds", 1)
		c.Obs("expiry_during_shutdown_nil_calls", int64(atomic.LoadInt32(&nils)))
		c.Distinct(fmt.Sprintf("%s/w%d/%d", cfg.Directed, cfg.Workers, round))
	}
	c.Sample(map[string]interface{}{"directed": cfg.Directed, "workers": cfg.Workers, "rounds": cfg.Ops})
}

// concDirected runs scripted gate scenarios around the windows in which a
// group's work item is retired while a producer appends to it.
func concDirected(c *core.Ctx, cfg concCfg, prop string) {
	rigInstall()
	var mu sync.Mutex
	var execOrder []string
	count := map[string]int{}
	occ := mon.NewOccupancy(func(group, first, second string) {
		if prop == "C01" {
			c.Violation("C01/overlap:directed-"+cfg.Directed, fmt.Sprintf("callbacks %s and %s of group %q overlapped in directed scenario %s", first, second, group, cfg.Directed), cfg)
		}
	})
	rg := newRig("svc", func(s *res.Service) {
		s.SetWorkerCount(cfg.Workers)
		s.SetInChannelSize(cfg.InCh)
		s.Handle("res.$id", res.GetModel(func(r res.ModelRequest) { r.Model(nil) }))
	})
	if err := rg.start(); err != nil {
		c.Inconclusive("start: " + err.Error())
		return
	}
	defer rg.stop()
	svc := rg.S
	var total int64
	cb := func(group, id string, d time.Duration) func(*res.Service) {
		return func(*res.Service) {
			occ.Enter(group, id, false)
			if d > 0 {
				time.Sleep(d)
			}
			mu.Lock()
			execOrder = append(execOrder, id)
			count[id]++
			mu.Unlock()
			occ.Exit(group)
			atomic.AddInt64(&total, 1)
		}
	}
	waitTotal := func(n int64) bool {
		deadline := time.Now().Add(15 * time.Second)
		for atomic.LoadInt64(&total) < n {
			if time.Now().After(deadline) {
				return false
			}
			time.Sleep(100 * time.Microsecond)
		}
		return true
	}
	var want int64
	var expectOrder [][]string
	for round := 0; round < cfg.Ops; round++ {
		G := fmt.Sprintf("G%d", round)
		H := fmt.Sprintf("H%d", round)
		isG := func(arg interface{}) bool { s, _ := arg.(string); return s == G }
		ids := []string{G + ".1", G + ".2", G + ".3"}
		switch cfg.Directed {
		case "retire-vs-append":
			// worker parked after running the (so far) last callback of G, before it re-locks and re-checks the queue
			gate := sched.Arm("worker.after", isG)
			svc.WithGroup(G, cb(G, ids[0], 0))
			if !gate.WaitArrived(10 * time.Second) {
				gate.Release()
				c.Inconclusive("gate worker.after never reached")
				return
			}
			svc.WithGroup(G, cb(G, ids[1], 50*time.Microsecond)) // appended to the live work item
			svc.WithGroup(H, cb(H, H+".1", 0))
			gate.Release()
			svc.WithGroup(G, cb(G, ids[2], 0))
			c.Obs("gates_parked", 1)
		case "queued-before-signal":
			// producer parked after queueing G's work item, before signalling a worker
			gate := sched.Arm("runWith.queued", isG)
			done := make(chan struct{})
			go func() { svc.WithGroup(G, cb(G, ids[0], 50*time.Microsecond)); close(done) }()
			if !gate.WaitArrived(10 * time.Second) {
				gate.Release()
				c.Inconclusive("gate runWith.queued never reached")
				return
			}
			svc.WithGroup(G, cb(G, ids[1], 0)) // appended while no worker was signalled
			svc.WithGroup(H, cb(H, H+".1", 0)) // this signal wakes a worker that finds G first
			svc.WithGroup(G, cb(G, ids[2], 0))
			gate.Release()
			<-done
			c.Obs("gates_parked", 1)
		case "worker-before":
			// worker parked right before G's first callback; more work arrives for G meanwhile
			gate := sched.Arm("worker.before", isG)
			svc.WithGroup(G, cb(G, ids[0], 50*time.Microsecond))
			if !gate.WaitArrived(10 * time.Second) {
				gate.Release()
				c.Inconclusive("gate worker.before never reached")
				return
			}
			svc.WithGroup(G, cb(G, ids[1], 0))
			svc.WithGroup(H, cb(H, H+".1", 0))
			svc.WithGroup(G, cb(G, ids[2], 0))
			gate.Release()
			c.Obs("gates_parked", 1)
		default: // control: same submissions, no gate
			svc.WithGroup(G, cb(G, ids[0], 0))
			svc.WithGroup(G, cb(G, ids[1], 50*time.Microsecond))
			svc.WithGroup(H, cb(H, H+".1", 0))
			svc.WithGroup(G, cb(G, ids[2], 0))
		}
		want += 4
		expectOrder = append(expectOrder, ids)
		if !waitTotal(want) {
			// decide on state
			_, _, queued, groups := svc.VerifState()
			parked := mon.CountGoroutines("go-res.(*Service).startWorker", "sync.(*Cond).Wait")
			mu.Lock()
			missing := []string{}
			for _, id := range append(ids, H+".1") {
				if count[id] == 0 {
					missing = append(missing, id)
				}
			}
			mu.Unlock()
			if prop == "C02" && parked == cfg.Workers {
				c.Violation("C02/lost:directed-"+cfg.Directed, fmt.Sprintf("directed scenario %s round %d: callbacks %v never ran although all %d workers are idle (queued=%d groups=%d)", cfg.Directed, round, missing, cfg.Workers, queued, groups), cfg)
			} else {
				c.Inconclusive(fmt.Sprintf("directed scenario %s: callbacks %v did not run in time", cfg.Directed, missing))
			}
			return
		}
		c.Eval(4)
		c.Distinct(fmt.Sprintf("%s/w%d/%d", cfg.Directed, cfg.Workers, round))
	}
	if prop == "C02" {
		mu.Lock()
		pos := map[string]int{}
		for i, id := range execOrder {
			pos[id] = i
		}
		for id, n := range count {
			if n != 1 {
				c.Violation("C02/duplicate:directed-"+cfg.Directed, fmt.Sprintf("callback %s ran %d times in directed scenario %s", id, n, cfg.Directed), cfg)
			}
		}
		for _, ids := range expectOrder {
			if !(pos[ids[0]] < pos[ids[1]] && pos[ids[1]] < pos[ids[2]]) {
				c.Violation("C02/order:directed-"+cfg.Directed, fmt.Sprintf("callbacks %v of one group submitted in this order by one goroutine ran in a different order", ids), cfg)
			}
		}
		mu.Unlock()
	}
	for k, v := range sched.Counts() {
		c.Obs("hook:"+k, v)
	}
	c.Sample(map[string]interface{}{"directed": cfg.Directed, "workers": cfg.Workers, "rounds": cfg.Ops})
}
