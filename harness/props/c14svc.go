package props

import (
	"encoding/json"
	"fmt"
	"net/url"
	"sort"
	"strconv"
	"strings"
	"time"

	res "github.com/jirenius/go-res"
	"github.com/jirenius/go-res/store"

	"verif/harness/internal/core"
	"verif/harness/internal/sched"
)

// Service level of C14: store.QueryHandler over the real badgerstore
// QueryStore, observed by a gateway model that holds query results.

type gwEntry struct {
	rid    string // resource id incl. query
	rname  string
	query  string // normalized query as returned by the service ("" for ordinary resources)
	result []string
}

func c14NormQuery(q url.Values) (url.Values, string) {
	iq := idxQuery{Index: "k", Prefix: q.Get("prefix"), Limit: -1}
	if v := q.Get("index"); v != "" {
		iq.Index = v
	}
	if v, err := strconv.Atoi(q.Get("limit")); err == nil {
		iq.Limit = v
	}
	if v, err := strconv.Atoi(q.Get("offset")); err == nil {
		iq.Offset = v
	}
	iq.Reverse = q.Get("rev") == "1"
	iq.Filter = q.Get("filter")
	norm := url.Values{}
	norm.Set("prefix", iq.Prefix)
	norm.Set("limit", strconv.Itoa(iq.Limit))
	norm.Set("offset", strconv.Itoa(iq.Offset))
	if iq.Reverse {
		norm.Set("rev", "1")
	}
	if iq.Filter != "" {
		norm.Set("filter", iq.Filter)
	}
	if iq.Index != "k" {
		norm.Set("index", iq.Index)
	}
	return iq.values(), norm.Encode()
}

func c14ServiceRun(c *core.Ctx, b core.Batch) {
	var p idxParams
	json.Unmarshal(b.Params, &p)
	rigInstall()
	for h := 0; h < p.Histories; h++ {
		if !c14ServiceHistory(c, p, h) {
			return
		}
	}
	for k, v := range sched.Counts() {
		c.Obs("hook:"+k, v)
	}
}

func c14ServiceHistory(c *core.Ctx, p idxParams, h int) bool {
	env, err := newIdxEnv(p.Typed, p.Prefix)
	if err != nil {
		c.Inconclusive("open: " + err.Error())
		return false
	}
	defer env.close()
	r := newRand(core.SubSeed(c.Batch.Seed, fmt.Sprintf("%s/%d", c.Batch.Name, h)))
	trans := store.IDToRIDCollectionTransformer(func(id string) string { return "svc.item." + id })
	byKeyParams := []string{"a", "ab", "b", "z"}
	rg := newRig("svc", func(s *res.Service) {
		// long enough for the gateway model to send its query requests for every query
		// event of a mutation (it serves them one after the other) also on a loaded machine
		s.SetQueryEventDuration(750 * time.Millisecond)
		s.Handle("item.$id", res.GetModel(func(r res.ModelRequest) { r.NotFound() }))
		// (A) ordinary resource, no path params
		s.Handle("all", res.Collection, store.QueryHandler{QueryStore: env.qs, Transformer: trans,
			RequestHandler: func(rname string, pp map[string]string) (url.Values, error) {
				return idxQuery{Index: "k", Prefix: "", Limit: -1}.values(), nil
			}})
		// (B) ordinary resource with path param
		s.Handle("bykey.$p", res.Collection, store.QueryHandler{QueryStore: env.qs, Transformer: trans,
			RequestHandler: func(rname string, pp map[string]string) (url.Values, error) {
				if pp["p"] == "unserved" {
					return nil, res.ErrNotFound
				}
				return idxQuery{Index: "k", Prefix: pp["p"], Limit: -1}.values(), nil
			},
			AffectedResources: func(pat res.Pattern, qc store.QueryChange) []string {
				var out []string
				for i, p := range byKeyParams {
					if i == 2 {
						// one resource named is not served by the request handler (a key that has no
						// collection): an error for it does not concern the clients of the others,
						// whether they are named before or after it
						out = append(out, string(pat.ReplaceTag("p", "unserved")))
					}
					out = append(out, string(pat.ReplaceTag("p", p)))
				}
				return out
			}})
		// (C) query resource
		s.Handle("search", res.Collection, store.QueryHandler{QueryStore: env.qs, Transformer: trans,
			QueryRequestHandler: func(rname string, pp map[string]string, q url.Values) (url.Values, string, error) {
				v, norm := c14NormQuery(q)
				return v, norm, nil
			}})
		// (F) ordinary and query resource on a Mux mounted two levels deep (mounts made top-down)
		lib := res.NewMux("")
		s.Mount("lib", lib)
		v1 := res.NewMux("")
		lib.Mount("v1", v1)
		v1.Handle("all", res.Collection, store.QueryHandler{QueryStore: env.qs, Transformer: trans,
			RequestHandler: func(rname string, pp map[string]string) (url.Values, error) {
				return idxQuery{Index: "k", Prefix: "", Limit: -1}.values(), nil
			}})
		v1.Handle("search", res.Collection, store.QueryHandler{QueryStore: env.qs, Transformer: trans,
			QueryRequestHandler: func(rname string, pp map[string]string, q url.Values) (url.Values, string, error) {
				v, norm := c14NormQuery(q)
				return v, norm, nil
			}})
		// (E) query resource whose callbacks run in parallel
		s.Handle("psearch", res.Collection, res.Parallel(true), store.QueryHandler{QueryStore: env.qs, Transformer: trans,
			QueryRequestHandler: func(rname string, pp map[string]string, q url.Values) (url.Values, string, error) {
				v, norm := c14NormQuery(q)
				return v, norm, nil
			}})
		// (D) query resource with path param
		s.Handle("searchidx.$idx", res.Collection, store.QueryHandler{QueryStore: env.qs, Transformer: trans,
			QueryRequestHandler: func(rname string, pp map[string]string, q url.Values) (url.Values, string, error) {
				q.Set("index", pp["idx"])
				v, norm := c14NormQuery(q)
				return v, norm, nil
			},
			AffectedResources: func(pat res.Pattern, qc store.QueryChange) []string {
				return []string{string(pat.ReplaceTag("idx", "k")), string(pat.ReplaceTag("idx", "x2"))}
			}})
	})
	rg.C.NoGoID = true
	if err := rg.start(); err != nil {
		c.Inconclusive("start: " + err.Error())
		return false
	}
	defer rg.stop()

	get := func(rid string) (result []string, query string, ok bool) {
		rname, q := rid, ""
		if i := strings.IndexByte(rid, '?'); i >= 0 {
			rname, q = rid[:i], rid[i+1:]
		}
		pl, _ := json.Marshal(map[string]string{"query": q})
		start := rg.C.Len()
		inbox, done, n := rg.send("get."+rname, pl)
		if n != 1 || !waitCh(done, 10*time.Second) {
			c.Inconclusive("get " + rid + " not processed")
			return nil, "", false
		}
		resp, _ := replies(rg.C.Since(start), inbox)
		if len(resp) != 1 {
			c.Inconclusive("get " + rid + " no response")
			return nil, "", false
		}
		var rr struct {
			Result struct {
				Collection []struct {
					RID string `json:"rid"`
				} `json:"collection"`
				Query string `json:"query"`
			} `json:"result"`
			Error *res.Error `json:"error"`
		}
		if err := json.Unmarshal(resp[0].Data, &rr); err != nil || rr.Error != nil {
			c.Violation("C14/get-error", fmt.Sprintf("get %s answered %s", rid, resp[0].Payload), nil)
			return nil, "", false
		}
		for _, e := range rr.Result.Collection {
			result = append(result, e.RID)
		}
		return result, rr.Result.Query, true
	}

	rids := []string{"svc.all", "svc.bykey.a", "svc.bykey.ab", "svc.bykey.b",
		"svc.search?prefix=a&limit=3", "svc.search?prefix=&rev=1", "svc.search?prefix=ab&limit=2&offset=1", "svc.search?prefix=&filter=evenlen",
		"svc.searchidx.k?prefix=a", "svc.searchidx.x2?prefix=",
		"svc.lib.v1.all", "svc.lib.v1.search?prefix=a", "svc.lib.v1.search?prefix=&rev=1",
		"svc.psearch?prefix=a&limit=2", "svc.psearch?prefix=&rev=1", "svc.psearch?prefix=b", "svc.psearch?prefix=&limit=1&offset=1", "svc.psearch?prefix=ab", "svc.psearch?prefix=&filter=hasa",
		// a key filter together with a window: entries the filter rejects lie before and inside the window
		"svc.search?prefix=&filter=evenlen&offset=1&limit=2", "svc.search?prefix=&filter=hasa&offset=2", "svc.search?prefix=a&filter=evenlen&offset=1&rev=1",
		"svc.psearch?prefix=&filter=evenlen&offset=1&limit=2&rev=1", "svc.lib.v1.search?prefix=&filter=evenlen&offset=1&limit=3"}
	var cache []*gwEntry
	for _, rid := range rids {
		res0, q, ok := get(rid)
		if !ok {
			return false
		}
		rname := rid
		if i := strings.IndexByte(rid, '?'); i >= 0 {
			rname = rid[:i]
		}
		cache = append(cache, &gwEntry{rid: rid, rname: rname, query: q, result: res0})
	}
	ids := idxIDs(h)
	pos := rg.C.Len()
	var hist []idxMut
	nReset, nQuery := 0, 0
	for n := 1; n <= 40+r.Intn(40); n++ {
		var m idxMut
		if r.Intn(5) == 0 {
			ms, _, _ := env.mutateTxn(r, ids, n)
			hist = append(hist, ms...)
			m = ms[len(ms)-1]
		} else {
			m, _, _ = env.mutate(r, ids, n)
			hist = append(hist, m)
		}
		env.qs.Flush()
		c.Eval(1)
		// the gateway processes everything published since
		log := rg.C.Since(pos)
		pos += len(log)
		for _, msg := range log {
			switch {
			case msg.Subject == "system.reset":
				var re struct {
					Resources []string `json:"resources"`
				}
				json.Unmarshal(msg.Data, &re)
				for _, e := range cache {
					for _, pat := range re.Resources {
						if res.Pattern(pat).Matches(e.rname) {
							nr, _, ok := get(e.rid)
							if !ok {
								return false
							}
							e.result = nr
							nReset++
						}
					}
				}
				pos = rg.C.Len()
			case strings.HasPrefix(msg.Subject, "event.") && strings.HasSuffix(msg.Subject, ".query"):
				rname := strings.TrimSuffix(strings.TrimPrefix(msg.Subject, "event."), ".query")
				var qe struct {
					Subject string `json:"subject"`
				}
				json.Unmarshal(msg.Data, &qe)
				// the gateway sends the query requests for all queries it holds on the resource
				// at once; they are answered one by one or, on a Parallel resource, concurrently
				type pendingQ struct {
					inbox string
					qd    chan struct{}
				}
				pend := map[string]pendingQ{}
				start := rg.C.Len()
				for _, e := range cache {
					if e.rname != rname || e.query == "" {
						continue
					}
					pq := pendingQ{newInbox(), make(chan struct{})}
					qdoneMap.Store(pq.inbox, pq.qd)
					pl, _ := json.Marshal(map[string]string{"query": e.query})
					if rg.C.Deliver(qe.Subject, pq.inbox, pl) != 1 {
						c.Inconclusive("query request not delivered")
						return false
					}
					pend[e.rid] = pq
				}
				for _, e := range cache {
					pq, ok := pend[e.rid]
					if !ok {
						continue
					}
					if !waitCh(pq.qd, 10*time.Second) {
						c.Inconclusive("query request not processed")
						return false
					}
					inbox := pq.inbox
					resp, _ := replies(rg.C.Since(start), inbox)
					if len(resp) != 1 {
						c.Violation("C14/query-request-response-count", fmt.Sprintf("query request got %d responses", len(resp)), nil)
						continue
					}
					nQuery++
					var qr struct {
						Result *struct {
							Events []struct {
								Event string          `json:"event"`
								Data  json.RawMessage `json:"data"`
							} `json:"events"`
							Collection *[]struct {
								RID string `json:"rid"`
							} `json:"collection"`
						} `json:"result"`
						Error *res.Error `json:"error"`
					}
					if err := json.Unmarshal(resp[0].Data, &qr); err != nil || qr.Error != nil || qr.Result == nil {
						c.Violation("C14/query-request-error", "query request answered "+resp[0].Payload, nil)
						continue
					}
					if qr.Result.Collection != nil {
						e.result = e.result[:0]
						for _, x := range *qr.Result.Collection {
							e.result = append(e.result, x.RID)
						}
					}
					for _, ev := range qr.Result.Events {
						var d struct {
							Idx   int `json:"idx"`
							Value struct {
								RID string `json:"rid"`
							} `json:"value"`
						}
						json.Unmarshal(ev.Data, &d)
						switch ev.Event {
						case "add":
							if d.Idx < 0 || d.Idx > len(e.result) {
								c.Violation("C14/event-index-range", fmt.Sprintf("add event idx %d out of range for cached result of length %d", d.Idx, len(e.result)), nil)
								continue
							}
							e.result = append(e.result[:d.Idx], append([]string{d.Value.RID}, e.result[d.Idx:]...)...)
						case "remove":
							if d.Idx < 0 || d.Idx >= len(e.result) {
								c.Violation("C14/event-index-range", fmt.Sprintf("remove event idx %d out of range for cached result of length %d", d.Idx, len(e.result)), nil)
								continue
							}
							e.result = append(e.result[:d.Idx], e.result[d.Idx+1:]...)
						}
					}
				}
				pos = rg.C.Len()
			}
		}
		// coherence: every cached result equals a fresh get
		for _, e := range cache {
			fresh, _, ok := get(e.rid)
			if !ok {
				return false
			}
			if strings.Join(fresh, ",") != strings.Join(e.result, ",") {
				kind := "ordinary"
				if e.query != "" {
					kind = "query"
				}
				hs := hist
				if len(hs) > 10 {
					hs = hs[len(hs)-10:]
				}
				c.Violation("C14/stale-client:"+kind+":"+e.rname, fmt.Sprintf("after mutation %+v a client holding %s has %v but a fresh get returns %v, and no reset/query event repaired it", m, e.rid, e.result, fresh),
					map[string]interface{}{"rid": e.rid, "cached": e.result, "fresh": fresh, "history_tail": hs, "typed": p.Typed, "prefix": p.Prefix})
				e.result = fresh
			} else if len(fresh) > 0 {
				c.Distinct(fmt.Sprintf("%s/%d/%d/%s", c.Batch.Name, h, n, e.rid))
			}
			// reference: the served result equals the reference scan
			want := c14RefForRID(env, e.rid)
			if want != nil && strings.Join(fresh, ",") != strings.Join(want, ",") {
				c.Violation("C14/get-mismatch:"+e.rname, fmt.Sprintf("get %s returned %v, reference %v", e.rid, fresh, want), nil)
			}
		}
		pos = rg.C.Len()
	}
	c.Obs("resets_applied", int64(nReset))
	c.Obs("query_requests", int64(nQuery))
	c.Obs("mutations", int64(len(hist)))
	if h == 0 {
		sort.Strings(rids)
		c.Sample(map[string]interface{}{"client_holds": rids, "mutations": len(hist), "resets_applied": nReset, "query_requests": nQuery})
	}
	return true
}

// c14RefForRID computes the expected served result of a rid from the model.
func c14RefForRID(env *idxEnv, rid string) []string {
	rname, q := rid, ""
	if i := strings.IndexByte(rid, '?'); i >= 0 {
		rname, q = rid[:i], rid[i+1:]
	}
	var iq idxQuery
	switch {
	case rname == "svc.all" || rname == "svc.lib.v1.all":
		iq = idxQuery{Index: "k", Limit: -1}
	case strings.HasPrefix(rname, "svc.bykey."):
		iq = idxQuery{Index: "k", Prefix: strings.TrimPrefix(rname, "svc.bykey."), Limit: -1}
	default:
		v, _ := url.ParseQuery(q)
		if strings.HasPrefix(rname, "svc.searchidx.") {
			v.Set("index", strings.TrimPrefix(rname, "svc.searchidx."))
		}
		sv, _ := c14NormQuery(v)
		off, _ := strconv.Atoi(sv.Get("offset"))
		lim, _ := strconv.Atoi(sv.Get("limit"))
		iq = idxQuery{Index: sv.Get("index"), Prefix: sv.Get("prefix"), Filter: sv.Get("filter"), Offset: off, Limit: lim, Reverse: sv.Get("reverse") == "1"}
	}
	idsOut := refQuery(env.model, iq)
	out := make([]string, len(idsOut))
	for i, id := range idsOut {
		out[i] = "svc.item." + id
	}
	if len(out) == 0 {
		return []string{}
	}
	return out
}
